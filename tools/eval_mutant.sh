#!/bin/sh
# usage: tools/eval_mutant.sh <patch.diff> <ID> [<ID> ...]   -- applies a seeded change to /repo, runs the quick checks, restores /repo
PATCH="$(realpath "$1")"; shift
cd /verif || exit 2
if [ -n "$(git -C /repo status --porcelain)" ]; then echo "/repo is not clean"; exit 2; fi
git -C /repo apply "$PATCH" || { echo "patch does not apply"; exit 2; }
trap 'git -C /repo checkout -- . ; git -C /repo clean -fdq -- src isoquant.py 2>/dev/null' EXIT INT TERM
for id in "$@"; do
    echo "=== $id"
    VERIF_SCRATCH_OUT=/tmp/iqverif-mutant-out timeout 1500 ./check "$id" > /tmp/iqverif-mutant-out.log 2>&1
    rc=$?
    grep -v "^  detail\|KNOWN-FINDING" /tmp/iqverif-mutant-out.log | cut -c1-260 | tail -8
    echo "check_exit=$rc"
done
