#!/bin/sh
# usage: tools/confirm_mutant.sh <ID> [worktree]  -- confirms a sub-agent's seeded change in its scratch worktree
# (no git stash: the stash is shared by all worktrees of a repository)
ID="$1"; WT="${2:-/tmp/mut/$ID}"
cd "$WT" || exit 2
git diff -- src isoquant.py > /tmp/mut/${ID}.patch
echo "--- tests with the change"; /venv/bin/python -m pytest -q -p no:cacheprovider --timeout=900 2>&1 | tail -1
echo "--- demo with the change"; /venv/bin/python demo_$ID.py > /tmp/mut/${ID}_demo_with.log 2>&1; echo "exit=$?"; tail -3 /tmp/mut/${ID}_demo_with.log | cut -c1-300
git apply -R /tmp/mut/${ID}.patch
echo "--- demo without the change"; /venv/bin/python demo_$ID.py > /tmp/mut/${ID}_demo_without.log 2>&1; echo "exit=$?"; tail -2 /tmp/mut/${ID}_demo_without.log | cut -c1-300
git apply /tmp/mut/${ID}.patch
echo "--- patch"; git diff --stat -- src isoquant.py | tail -3
