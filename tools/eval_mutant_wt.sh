#!/bin/sh
# usage: tools/eval_mutant_wt.sh <patch.diff> <ID> [<ID> ...]
# like eval_mutant.sh, but applies the seeded change in a scratch worktree (VERIF_REPO) so /repo is never touched
PATCH="$(realpath "$1")"; shift
cd /verif || exit 2
WT=/tmp/iqverif-wt-$$
git -C /repo worktree add -q --detach "$WT" HEAD || exit 2
trap 'git -C /repo worktree remove --force "$WT" 2>/dev/null; rm -rf /tmp/iqverif-mutant-out-$$' EXIT INT TERM
git -C "$WT" apply "$PATCH" || { echo "patch does not apply"; exit 2; }
for id in "$@"; do
    echo "=== $id"
    VERIF_REPO="$WT" VERIF_SCRATCH_OUT=/tmp/iqverif-mutant-out-$$ timeout 1500 ./check "$id" > /tmp/iqverif-mutant-out-$$.log 2>&1
    rc=$?
    grep -v "^  detail\|KNOWN-FINDING" /tmp/iqverif-mutant-out-$$.log | cut -c1-260 | tail -8
    echo "check_exit=$rc"
    rm -f /tmp/iqverif-mutant-out-$$.log
done
