#!/usr/bin/env python3
"""Regenerates MANIFEST.json from the registry below (kept valid at all times)."""
import json
import re
import os

HERE = os.path.dirname(os.path.dirname(os.path.abspath(__file__)))
ALL = ["C%02d" % i for i in range(1, 21)]

CHECKS = {}


def _findings(pid):
    """current tally from known_findings.jsonl (so that the notes never lag behind the file)"""
    import json as _json
    known, commits = set(), set()
    path = os.path.join(os.path.dirname(os.path.dirname(os.path.abspath(__file__))), "known_findings.jsonl")
    for line in open(path):
        d = _json.loads(line)
        if d.get("property") != pid:
            continue
        if d.get("status") == "known":
            known.add(d["signature"])
        elif d.get("status") == "fixed":
            commits.update(str(d.get("commit", "")).split(","))
    commits.discard("")
    return " Tally from known_findings.jsonl: %d known-finding signature(s); %d repair commit(s) in /repo." % (
        len(known), len(commits))


# stages and generator dimensions added after the texts below were written (DESIGN.md 8.18, 8.21, 8.23, 9.5)
EXTRA = {
    "C01": "Further stages: twins; files (an experiment of two BAM files against each file alone, distinct or coinciding "
           "read names); crowded_end (many isoforms with a donor shortly before the end of the read's isoform); isoforms "
           "with A-rich 3' ends and short T-rich 5' exons; far reads with an exon outside the gene.",
    "C02": "Stage split runs loci cut into several processing regions, with the regions read from the debug log; "
           "--high_memory (40%) and reads with a worse secondary alignment inside an intron; a read reported once, for "
           "one gene, must not carry an ambiguous gene-level type.",
    "C03": "Templates: a gene with two separate read clusters and a nested gene between them, references with CDS "
           "records (exon numbers 1..n), lower-case gene symbols, a reference transcript with an exon of one base.",
    "C04": "Template: a gene with two separate read clusters and a nested gene between them; split loci whose "
           "straddling gene is annotated with another donor site.",
    "C05": "Further structures: placed unmapped records, multi-mapped reads outside genes (the primary alignment is the "
           "one reported), a small cluster ending in the bin in which a split cluster begins, one-base alignments; "
           "relation: the same records with every MAPQ < 5 raised to 60 decide which low-MAPQ reads are consistent and "
           "therefore must be reported.",
    "C08": "A further relation re-runs the input without the alignments that lost: all outputs must be the same.",
    "C09": "The transcript-model tables are checked for partition, matrix/linear agreement and against "
           "transcript_model_reads.tsv; the headers of the grouped TPM tables must equal those of the count tables; "
           "group names containing words of the headers; file:<table>:<read column>; the files of a file_name experiment "
           "given in a YAML file with relative paths.",
    "C10": "Dimensions: repeated / numeric / NA-like names and ids, ids with quotes, numeric labels, per-experiment "
           "short-read files (YAML key illumina bam); 35% of the joint runs keep their saved read assignments and "
           "one more run is restarted from all of them (--read_assignments): its ungrouped tables, assignments and "
           "models per experiment must equal those of the joint run; --high_memory (30%).",
    "C11": "Stage corners holds parametrised noise-free templates (event order, micro-introns, threaded ends, adjacent "
           "clusters, similar novel isoforms, overlapping unspliced transcripts, ragged polyA ends, introns on both "
           "sides of a single-exon gene, a read-through tip, unspliced tailed reads that begin inside the last intron of "
           "a spliced transcript, reads of a novel isoform that stop at two places inside the terminal exon it shares with "
           "an annotated isoform); stage contig_start has reads aligned from the first bases "
           "of a contig.",
    "C12": "Further variants: per-contig BAM files with pruned headers, placed unmapped records, the reference as a "
           "soft-masked copy; history steps that replace the annotation by a file with an earlier time stamp; stage "
           "tie_weights puts fractional weights at rounding borders.",
    "C13": "Explicit --delta values (0, 3, 9) on top of the matching-strategy presets; exons wholly inside the read's "
           "first or last block are not skipped (statement), only exons straddling their inner borders stay unspecified.",
    "C14": "Tails aligned as terminal exons of their own; the short reads given as one file or split into two files in "
           "another order must give the same result; explicit --delta values; an intron of the read that comes back with "
           "an end moved stays within delta (strategies without intron-shift correction).",
    "C16": "Hard clips outside the soft clips must not change anything; the tail position may lie beyond the retained "
           "exon by the transcript bases of the removed exons only; chains of 1-4 exons of a few A/T bases between a "
           "T-rich head and an A-rich tail; an internal tail position on a retained exon names a tail base of the read.",
    "C17": "Templates: the extended annotation file itself (with CDS records) as reference of a second run, "
           "GENCODE-style per-transcript ids, a gene copied to another contig at identical coordinates, a gene with two "
           "read clusters and a nested gene.",
    "C19": "Stage gene_info builds GeneInfo from an in-memory annotation database with the pipeline's tolerance "
           "(delta 0..12) for genes whose isoforms differ by splice-site shifts around that tolerance, and compares "
           "the intron / exon / split-exon profiles of every isoform with the definition; stage profiles_mid takes the "
           "known features from two near-identical isoforms.",
    "C20": "The smoke stage also starts runs that share --genedb_output and use annotations of one file name in "
           "different folders; its runs are started behind a barrier (vlib/barrier_launch.py) so that they begin within "
           "the same millisecond.",
    "C18": "Annotations that carry Canonical attributes of their own (every occurrence is checked); clause for the "
           "reporting level only_canonical; contigs masked as a whole; unstranded rows flagged True need every intron "
           "canonical on one strand at least.",
}


def reg(pid, category, text, note, technique, design_ref):
    note = note.rstrip() + _findings(pid)
    if EXTRA.get(pid):
        text = text.rstrip() + " " + EXTRA[pid]
    CHECKS[pid] = {
        "property_id": pid,
        "quick_cmd": "./check %s --tier quick" % pid,
        "thorough_cmd": "./check %s --tier thorough" % pid,
        "evidence_file": "evidence/%s.json" % pid,
        "replay_cmd_template": "./check %s --replay {path}" % pid,
        "engine": "vlib",
        "level_claimed": {"category": category, "text": text, "design_ref": design_ref},
        "level_note": note,
        "technique": technique,
    }


reg("C17", "exploration",
    "Hypothesis-generated multi-chromosome discovery scenarios run through the real pipeline; an output-only oracle "
    "checks id uniqueness, reference-id collisions and that exon_id is an injective function of (chr,start,end,strand) "
    "across both GTFs, including a two-run history that feeds IsoQuant's own annotation back as --genedb; the id "
    "distributors are also driven in isolation (Hypothesis and coverage-guided through atheris) over generated "
    "reference id strings in a real in-memory gffutils database with a string-level collision oracle. Held on "
    "everything explored; not a proof.",
    "Trusts pysam for writing BAMs and the GTF parser of the harness; reads are synthetic alignments.",
    "property-based testing (Hypothesis) with output-recount oracle; stateful two-step history; coverage-guided "
    "fuzzing (atheris) of the id distributors", "DESIGN.md section 4 C17")

reg("C19", "exploration",
    "Exhaustive enumeration of every sorted interval list (and pair of lists) over a small universe plus Hypothesis "
    "random large instances, each compared with a set-of-positions reference model; profile constructors checked "
    "three-valued (MUST present / MUST absent / unspecified), a generated mid-size stage (features of 1..delta+2 "
    "bases, deltas 0-6) and a mirror-image relation for the split-exon profile. Exhaustive for the bounded universe, "
    "sampled beyond it.",
    "Semantics taken from docstrings and callers; features no longer than delta and read gaps no longer than delta are "
    "outside the domain (see DESIGN.md section 8).",
    "exhaustive small-universe enumeration + property-based testing (Hypothesis) + coverage-guided fuzzing (atheris/libFuzzer driving the same strategies) against a reference model",
    "DESIGN.md section 4 C19")

reg("C03", "exploration",
    "Hypothesis-generated scenarios (with/without annotation, noise, all model strategies and data types) run through "
    "the real pipeline; a validity predicate over transcript_models.gtf and extended_annotation.gtf (exon order, "
    "overlap, bounds, transcript/gene records, reference transcripts verbatim, extended = reference + novel); a second "
    "stage runs loci that are processed in several regions with a reference gene lying across a split point.",
    "Trusts the harness GTF parser and pysam-written BAMs.",
    "property-based testing (Hypothesis) with validity-predicate oracle over outputs", "DESIGN.md section 4 C03")
reg("C04", "exploration",
    "Hypothesis-generated discovery scenarios with intron-graph noise; recount oracle: every novel intron occurs in a "
    "corrected read of that chromosome, supporting reads exist, .nic/.nnic labels match the annotation, intron chains "
    "are unique per strand, annotation-free runs report only novel_gene_* genes; a second stage puts an unannotated "
    "gene across a split point of a locus processed in several regions.",
    "Known findings: mono-intron models differing only in polyA site; models built per processing region.",
    "property-based testing (Hypothesis) with recount oracle over outputs and inputs", "DESIGN.md section 4 C04")

reg("C13", "exploration",
    "Hypothesis-generated annotations (shared, contained, multi-gene features) and read sets run with --count_exons; "
    "an independent three-valued recount from read_assignments.tsv + the input GTF bounds every include/exclude "
    "cell (exact where the statement is definite), checks one row per (feature, group), row attributes against the "
    "annotation and that grouped rows partition the ungrouped ones.",
    "Features contested between several annotated features within delta and partial overlaps are UNSPECIFIED (grey, "
    "counted in the evidence).",
    "property-based testing (Hypothesis) with independent recount oracle", "DESIGN.md section 4 C13")
reg("C14", "exploration",
    "Hypothesis-generated reads with alignment artefacts under all six splice-correction strategies (and an "
    "annotation-free stage with generated short-read BAMs); BED12 validity predicate plus a provenance oracle for "
    "every corrected splice site and read end (ends may move only as the terminal corrections enabled by the "
    "strategy allow: to a boundary of the read's own blocks when only fake-terminal-exon removal is enabled).",
    "Original alignment = exons column of read_assignments.tsv (after polyA-exon trimming, which C16 checks).",
    "property-based testing (Hypothesis) with validity predicate + provenance oracle", "DESIGN.md section 4 C14")

reg("C02", "exploration",
    "Hypothesis-generated mixed read sets run under all 5x5 quantification strategies and both normalisations; every "
    "cell of gene/transcript/transcript-model count tables is recounted from read_assignments.tsv / "
    "transcript_model_reads.tsv with the documented weights (zero-or-exact-sum rule, never-zeroed rule, special "
    "lines, TPM rescaling).",
    "Known findings: reads kept on several loci are counted fully at every locus; the "
    "__ambiguous/__no_feature unit (read vs record) is accepted either way for multi-locus reads.",
    "property-based testing (Hypothesis) with independent recount oracle", "DESIGN.md section 4 C02")

reg("C09", "exploration",
    "Hypothesis-generated group assignments under all four --read_group modes, three counts formats, 1-3 threads and "
    "16 interpreter hash seeds per run; the run must finish, every grouped cell equals a per-group recount with the "
    "documented weights, groups sum to the ungrouped table, matrix and linear renderings carry identical triples, "
    "grouped TPM columns rescale their own column.",
    "Group of a read derived from docs/cmd.md; shares the C02 weighting model.",
    
    "property-based testing (Hypothesis) with recount oracle + matrix/linear differential across hash seeds",
    "DESIGN.md section 4 C09")

reg("C05", "exploration",
    "Hypothesis-generated coverage templates aimed at the region-splitting arithmetic (32-kb / 1024-read thresholds, "
    "256-bp bins, valleys, last-bin valleys, short reads at sub-region edges, sparse genes longer than two splitting "
    "windows whose reads are processed in >= 3 regions) in both memory modes, plus flag/MAPQ "
    "mixtures; a three-valued accounting oracle computed from BAM flags only (MUST / MUST-NOT / MAY be reported), "
    "identical-record detection and log statistics versus BAM record counts.",
    "Filters as documented in docs/cmd.md; reads with other alignments are MAY; known finding: a bridging read "
    "assigned to different genes in two regions keeps two identical BED records.",
    "property-based testing (Hypothesis) with structure-aimed generators and accounting oracle",
    "DESIGN.md section 4 C05")

reg("C18", "exploration",
    "Hypothesis-generated genomes with every splice-dinucleotide class, antisense twin genes sharing intron "
    "coordinates, soft-masked segments and reads of both orientations; a FASTA-only oracle recomputes the Canonical "
    "flag of every stranded row and model and the strand of novel spliced models, and a metamorphic relation compares "
    "each read's flag between the full run and a run on a random subset of the reads.",
    "Rows without strand are compared between runs only; model-strand oracle is three-valued.",
    "property-based testing (Hypothesis) with FASTA-only oracle + metamorphic read-subset relation",
    "DESIGN.md section 4 C18")

reg("C16", "exploration",
    "Every SAM-valid CIGAR up to 5 (quick) / 6 (thorough) operations with lengths 1-3 is enumerated and its exon and "
    "read blocks compared with an independent CIGAR walk (cross-checked against pysam); Hypothesis adds long random "
    "CIGARs through pysam + AlignmentInfo and alignments with aligned polyA/polyT tail exons through the real "
    "PolyAFinder/PolyAFixer with validity + projection oracle for the trimmed exon list and tail positions.",
    "Segments without an aligned base are UNSPECIFIED; cigar-operation index blocks are outside the statement and not "
    "checked.",
    "exhaustive bounded enumeration + property-based testing (Hypothesis) + coverage-guided fuzzing (atheris/libFuzzer driving the same strategies) against a reference model",
    "DESIGN.md section 4 C16")

reg("C15", "exploration",
    "Hypothesis-generated assignment objects over the documented field domains are written and read back with the "
    "full reader and the abridged reader (byte alignment, field-wise equality, agreement with the in-memory "
    "abridged object, pickled state); a rule-based state machine builds streams of gene-info/assignment records "
    "through the real TmpFileAssignmentPrinter and both loaders; pipeline runs saved with --keep_tmp are re-run "
    "from --read_assignments and all outputs compared.",
    "Readers are driven through a strict byte stream that refuses short reads (a misaligned reader stops instead of "
    "looping).",
    "property-based testing (Hypothesis) incl. stateful rule-based machine, coverage-guided fuzzing (atheris/libFuzzer) of the object round-trip; round-trip + differential oracles",
    "DESIGN.md section 4 C15")

reg("C08", "exploration",
    "Hypothesis-generated lists of per-locus assignments with a permutation are resolved by the real "
    "MultimapResolver and compared with a reference model of the documented priority order (class dominance, ties "
    "kept and flagged ambiguous, duplicates identified, order independence); pipeline-level paralogous loci check "
    "suppression of losers in TSV/BED/count tables, default vs --high_memory and permuted chromosome / record order.",
    "Within the inconsistent and uninformative classes only order-independence and non-emptiness are required; "
    "known findings share their root cause with C02.",
    "property-based testing (Hypothesis) with reference model + permutation (metamorphic) relation",
    "DESIGN.md section 4 C08")

reg("C01", "exploration",
    "Hypothesis-generated well-separated annotations and reads derived from isoforms by explicit recipes (the "
    "generator carries the ground truth: source isoform, truncations, junction shifts, indels, tails); W reads must "
    "be consistent, never reported with a surely incompatible isoform, include their source isoform when full "
    "length and be unique to it when nothing else is compatible; F reads (wide-margin structural changes verified by "
    "the reference model before the run) must never be consistent. All four matching strategies and three data types.",
    "Three-valued structural oracle (vlib/refmodel/compat.py) with wide margins; grey cases are counted, never judged; "
    "known findings: terminal_exon_misalignment without size bound; genomic A-run at the 3' end taken for a tail.",
    "property-based testing (Hypothesis) with generator-carried ground truth and three-valued structural oracle",
    "DESIGN.md section 4 C01")

reg("C06", "exploration",
    "Hypothesis-generated multi-chromosome scenarios (groups, multi-mappers, shared exons, novel isoforms) are run "
    "twice as separate `python isoquant.py` processes whose configurations differ in --threads, PYTHONHASHSEED, "
    "--high_memory, --keep_tmp or nothing; every output file must be byte-identical modulo the command-line header. "
    "Stage deep_pairs does the same for loci cut into several processing regions (with/without --high_memory); stage "
    "workers replaces the process pool by a harness-owned one in which the assignment of per-chromosome tasks to "
    "persistent worker processes is a generated value and compares every assignment with the --threads 1 run.",
    "The harness-owned pool executes one task at a time (per-chromosome tasks write disjoint files); one repaired "
    "defect (hash-order of gene ids) listed as fixed.",
    "property-based testing (Hypothesis) with differential (metamorphic) oracle over configuration pairs",
    "DESIGN.md section 4 C06")

reg("C12", "exploration",
    "Each Hypothesis-generated scenario is run as baseline and in a drawn equivalent representation: annotation as "
    ".gtf / .gtf.gz / pre-built .db, --complete_genedb or inferred, fresh / reused / --clean_start conversion cache "
    "(all outputs must be identical modulo header), or the same records partitioned into 2-4 BAM files (read "
    "assignments, corrected reads and ungrouped reference-based tables equal as multisets). Stage history runs 3-6 "
    "invocations that share one HOME over two different annotations with the same file name, reused output folders, "
    "in-place swaps and --clean_start; every run must equal a fresh-HOME run of the same content.",
    "Pre-built databases are made with the repository's own src/gtf2db.py; BAM partition compares only the files the "
    "statement lists.",
    "property-based testing (Hypothesis) with differential (metamorphic) oracle over input representations",
    "DESIGN.md section 4 C12")

reg("C10", "exploration",
    "Hypothesis-generated sequences of 2-4 experiments (shared, disjoint and overlapping data; 1-2 files each) are run "
    "jointly from a YAML or list file in a drawn order with 1/2/4 threads (experiments differ in reads, number of "
    "unaligned reads and polyA content); every experiment is also run alone; the "
    "per-experiment directories must contain the same files with the same bytes (modulo header) and the combined_* "
    "tables must carry exactly the per-experiment columns.",
    "Stand-alone reference = one-experiment YAML/list with the same name and options.",
    "property-based testing (Hypothesis) over operation sequences with differential oracle (joint vs stand-alone)",
    "DESIGN.md section 4 C10")

reg("C11", "exploration",
    "Every Hypothesis-generated scenario is run as generated and after a transform of genome, annotation and "
    "alignments: translation by k bases (every output file must equal the original with k added to every coordinate, "
    "including event payloads) or reverse complement (per read: type, isoform set, mirrored exons, flipped strand and "
    "left/right-swapped event names; reference-based tables; exon/intron tables; for noise-free inputs with "
    "well-separated junctions the mirrored set of transcript models with counts). Stage split_shift translates loci "
    "above the region-splitting thresholds by multiples of the 256-bp bin.",
    "Reads whose tail lies within 2 bp of a tail-distance threshold are compared separately (known finding: polyT "
    "position convention, pinned by the repository's tests); inherent ties (both terminal blocks shorter than the "
    "fake-exon bound) and near-identical junctions are UNSPECIFIED.",
    "property-based testing (Hypothesis) with metamorphic relations (translation, reflection)",
    "DESIGN.md section 4 C11")

reg("C07", "fault_enumeration",
    "For every Hypothesis-generated scenario and option set the harness lists all file-system mutation points of the "
    "main process after .params is saved (file creation, append-open, removal, directory and database creation; "
    "70-300 points per scenario) and, for every point, kills the run once before and once after "
    "the mutation, resumes it with --resume and compares every final output with an uninterrupted run: the resumed "
    "run must exit 0 with identical files. Exhaustive per scenario for single kills; on top of that histories with "
    "two kills (the resumed run is killed at generated points of its own, incl. the rewriting of .params, and resumed "
    "again) and stage shared_saves (two runs restarted from the same saved assignments, one killed and abandoned, "
    "the other killed and resumed). Scenario dimensions: read groups by tag/table (names with blanks), --keep_tmp, "
    "gzip, plain-gzipped reference, re-used output folder of an earlier run (same or uncorrected reference, folder "
    "names with glob characters), YAML input, relative input names with --resume from another directory.",
    "Crash model: os._exit at Python-level mutations of the main process with --threads 1 (unflushed buffers lost); "
    "crashes inside sqlite/htslib are one point each.",
    "fault injection with exhaustive crash-point enumeration over generated scenarios; differential oracle",
    "DESIGN.md section 4 C07")
reg("C20", "exploration",
    "2-4 logical processes (threads) run the real per-user cache code of isoquant.py / gtf2db.py / read_mapper.py "
    "against one HOME under a cooperative scheduler owned by the harness that switches at every open, read, write "
    "chunk, close and rename of the shared JSON files and around the real gffutils conversion; the schedule is a "
    "Hypothesis-drawn sequence (replayable); every process must finish and use a database built from its own "
    "annotation. Stage reference_index does the same for the index files (.fai/.gzi) next to a shared plain or "
    "bgzip-compressed reference; stage mapper_cache runs the real index/alignment cache logic under generated "
    "options (data type, aligner, --stranded) around stand-ins for the two external programs that record the options "
    "they ran under. A smoke stage starts 2-6 real processes together (plain or bgzip-compressed reference) and "
    "compares each with a solo run.",
    "Assumes the file system is the only channel between runs and that rename(2)/a single write(2) are atomic; no "
    "aligner is installed: minimap2/STAR are represented by stand-ins, only IsoQuant's decisions are checked.",
    "property-based testing over harness-owned schedules (cooperative scheduler) + differential smoke runs",
    "DESIGN.md section 4 C20")

NOT_YET = "check not built yet in this session (see DESIGN.md section 6a build order)"


def main():
    man = {
        "version": 1,
        "setup_cmd": "sh setup.sh",
        "hooks": {
            "guard": "ABLAB_ISOQUANT_VERIF",
            "enable": "no source hooks: wrappers under /verif monkey-patch the interpreter before isoquant.main when "
                      "ABLAB_ISOQUANT_VERIF=1 (set by ./check)",
            "baseline_off_cmd": "cd /repo && env -u ABLAB_ISOQUANT_VERIF /venv/bin/python -m pytest -ra -q -p "
                                "no:cacheprovider --timeout=900 --continue-on-collection-errors",
            "source_commits": [],
            "add_only": True,
        },
        "engines": [{"name": "vlib", "path": "vlib/", "serves_properties": sorted(CHECKS),
                     "kind_free_text": "Hypothesis-driven scenario generators + fork runner of the real pipeline + "
                                       "independent reference models; 16-way sharded"}],
        "checks": [CHECKS[k] for k in sorted(CHECKS)],
        "notes": "All checks: ./check <ID> [--tier quick|thorough] [--replay FILE]; VERIF_SEED honoured; exit 2 = "
                 "harness error. Genuine defects repaired in /repo are listed in known_findings.jsonl (status fixed).",
        "not_applicable": [{"property_id": p, "reason": NOT_YET} for p in ALL if p not in CHECKS],
    }
    with open(os.path.join(HERE, "MANIFEST.json"), "w") as f:
        json.dump(man, f, indent=1)


if __name__ == "__main__":
    main()
