#!/bin/sh
# usage: tools/intake_mutant.sh <ID> <suffix> [check ids...]  -- confirm a sub-agent change in /tmp/mut/<ID>, store it as seeded/<ID><suffix>, evaluate
ID="$1"; SUF="$2"; shift 2
cd /verif || exit 2
tools/confirm_mutant.sh "$ID" > /tmp/mut/${ID}_confirm${SUF}.log 2>&1
cat /tmp/mut/${ID}_confirm${SUF}.log | grep -A1 "^---" | grep -v "^--$" | cut -c1-200
D=seeded/${ID}${SUF}; mkdir -p "$D"
cp /tmp/mut/${ID}.patch "$D/patch.diff"
cp /tmp/mut/$ID/demo_$ID.py "$D/" 2>/dev/null
cp /tmp/mut/$ID/NOTES_$ID.md "$D/NOTES.md" 2>/dev/null
tools/eval_mutant_wt.sh "$D/patch.diff" ${@:-$ID}
