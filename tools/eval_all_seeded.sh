#!/bin/sh
cd /verif
for d in seeded/*/; do
  id=$(basename $d); pid=$(echo $id | cut -c1-3)
  det=$(python3 -c "import json;print(json.load(open('$d/meta.json')).get('detected_by','$pid').split(',')[0].split()[0])")
  echo "##### $id (check $det)"
  tools/eval_mutant_wt.sh $d/patch.diff $det 2>&1 | grep "quick seed\|check_exit\|does not apply" | cut -c1-200
done
echo ALLDONE
