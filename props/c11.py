"""C11 - results are equivariant under coordinate translation and strand reflection."""
import os
from collections import Counter, defaultdict

from hypothesis import strategies as st

from vlib import build, compare, parse, pipeline, scenario as S, reads as R
from vlib.refmodel import gtfcheck, transform as T
from vlib.shard import Stage, case_hash

ID = "C11"
LEVEL = "exploration"
TECHNIQUE = "property-based testing (Hypothesis) with metamorphic relations: every scenario is run as generated and " \
            "after translation by k bases / after reverse-complementing genome, annotation and alignments; outputs of " \
            "the first run are transformed and compared with the second run"
RULE = ("Hypothesis-generated scenarios below the region-splitting thresholds (1-3 chromosomes, overlapping and "
        "antisense genes, reads with truncations, polyA/polyT, junction noise, novel isoforms) x transform: shift k in "
        "[1, 5000] (including non-multiples of 256) - every output file must equal the transformed original - or "
        "reflection - per read type / isoform set / left-right-swapped event names, reference-based tables, and for "
        "noise-free inputs the mirrored set of transcript models with their counts. Non-trivial = >= 1 read with a "
        "left/right-specific event and >= 1 novel model; distinct by scenario hash. Stage split_shift: loci above the "
        "splitting thresholds (pile-ups, plateaus, long sparse genes, gene across a split point; with/without "
        "annotation, both memory modes) translated by a multiple of 256: every output file must equal the translated "
        "original; every case is non-trivial.")
ASSUMPTIONS = ["payload grammar of assignment_events: '<event>:a-b,c-d' intron lists and '<event>:<pos>' for "
               "tss/polyA position events are coordinates, all other integer payloads are offsets",
               "under reflection event payloads and numeric model ids are not compared (representatives are chosen "
               "by coordinate order)"]


@st.composite
def scenarios(draw):
    src = S.DrawSrc(draw)
    noise_free = src.bool(0.5)
    sc = S.gen_discovery(src, n_chroms=(1, 3), genes_per_chrom=(1, 3), novel_per_gene=(0, 2), reads_known=(1, 5),
                         reads_novel=(3, 7), intergenic_p=0.3, max_exons=5, exact=noise_free, delta=4,
                         overlap_p=0.35, canon_classes=("canon", "canon", "canon", "non"),
                         novel_edits=("skip", "alt_donor", "alt_acceptor", "alt_first", "alt_last",
                                      "start_in_intron", "end_in_intron", "start_in_intron", "end_in_intron"))
    sc.pop("truth", None)
    lens = {c[0]: c[1] for c in sc["chroms"]}
    reads = [r for r in sc["reads"] if R.cigar_blocks(r["p"], r["cg"])[-1][1] + 45 < lens[r["c"]]]
    if not noise_free:
        k = len(reads)
        for g, t in S.transcripts_of(sc):
            if src.bool(0.4):
                k += 1
                r = S.noisy_read(src, "x%d" % k, g["chr"], g["strand"], t["exons"],
                                 src.choice(["shift", "faketerm", "skipmicro", "mmjunction", "termmis"]))
                if r is not None and R.cigar_blocks(r["p"], r["cg"])[-1][1] + 45 < lens[g["chr"]] and r["p"] > 5:
                    reads.append(r)
    # isoforms with a short 3'-terminal exon that the reads fail to align (tail soft-clipped right after the
    # preceding exon): exercises the mirrored polyA / polyT rescue paths
    k = len(reads) + 1000
    for g in sc["genes"]:
        if not src.bool(0.35):
            continue
        cand = [t for t in g["transcripts"] if len(t["exons"]) >= 2]
        if not cand:
            continue
        t = src.choice(cand)
        orig = [list(e) for e in t["exons"]]
        ln, gap = src.int(8, 38), src.int(150, 500)
        if g["strand"] == "+":
            new = orig + [[orig[-1][1] + gap + 1, orig[-1][1] + gap + ln]]
            if new[-1][1] + 100 >= lens[g["chr"]]:
                continue
        else:
            if orig[0][0] - gap - ln < 60:
                continue
            new = [[orig[0][0] - gap - ln, orig[0][0] - gap - 1]] + orig
        if any(o is not g and o["chr"] == g["chr"] and
               min(x["exons"][0][0] for x in o["transcripts"]) <= new[-1][1] + 50 and
               max(x["exons"][-1][1] for x in o["transcripts"]) >= new[0][0] - 50 for o in sc["genes"]):
            continue
        t["exons"] = new
        sc["overrides"] += build.splice_overrides(g["chr"], new, g["strand"])
        for _ in range(src.int(2, 4)):
            k += 1
            reads.append(S.exact_read("q%d" % k, g["chr"], g["strand"], orig, polya=src.int(20, 32)))
    sc["reads"] = reads
    sc["opts"] = ["--data_type", src.choice(["nanopore", "pacbio_ccs"]), "--no_gzip", "--threads",
                  str(src.choice([1, 2]))]
    if src.bool(0.5):
        sc["opts"] += ["--count_exons"]
    if src.bool(0.3):
        sc["opts"] += ["--check_canonical"]
    if src.bool(0.3):
        sc["opts"] += ["--matching_strategy", src.choice(["exact", "precise", "default", "loose"])]
    sc["noise_free"] = noise_free
    if src.bool(0.5):
        sc["transform"] = {"kind": "shift", "k": src.choice([1, 7, 100, 255, 256, 257, 1000, 3333, src.int(1, 5000)])}
    else:
        sc["transform"] = {"kind": "reflect"}
    return sc


def tail_sensitive_reads(sc):
    """Reads whose polyA/polyT tail lies at a distance from some annotated transcript end that is within 2 bp of a
    threshold applied to tail positions (delta, 20, 40, 50): the recorded polyT position is 2 bp further from the read than
    the polyA position (known finding, pinned by tests/test_polya_cage_finder.py), so these reads may legitimately
    fall on different sides of the threshold after reflection."""
    opts = sc["opts"]
    dt = opts[opts.index("--data_type") + 1]
    ms = opts[opts.index("--matching_strategy") + 1] if "--matching_strategy" in opts else \
        S.DATA_DEFAULT_STRATEGY[dt]
    delta = S.DELTAS[ms]
    out = set()
    ends = defaultdict(list)
    for g in sc["genes"]:
        for t in g["transcripts"]:
            ends[g["chr"]].append((t["exons"][0][0], t["exons"][-1][1]))
            for e in t["exons"]:
                ends[g["chr"]].append((e[0], e[1]))
    for r in sc["reads"]:
        tail_l = r.get("sl", "").startswith("TTTT")
        tail_r = r.get("sr", "").startswith("AAAA")
        if not (tail_l or tail_r):
            continue
        b = R.cigar_blocks(r["p"], r["cg"])
        for s_, e_ in ends[r["c"]]:
            for has, pos, ref in ((tail_l, b[0][0], s_), (tail_r, b[-1][1], e_)):
                if not has:
                    continue
                d = abs(pos - ref)
                if any(abs(d - t) <= 2 for t in (delta, 50, 20, 40)):
                    out.add(r["n"])
        # "missed terminal exons" (PolyAVerifier.detect_reference_exons_before_polyt / _beyond_polya): the total length L
        # of the isoform's exons beyond the tail is compared with the distance d from the tail to the next exon,
        # |L - d| <= delta - one more threshold applied to a tail position
        for g in sc["genes"]:
            if g["chr"] != r["c"]:
                continue
            for t in g["transcripts"]:
                ex = t["exons"]
                for k in range(1, len(ex)):
                    if tail_l:
                        L = sum(e[1] - e[0] + 1 for e in ex[:k])
                        if abs(abs(L - abs(ex[k][0] - b[0][0])) - delta) <= 2:
                            out.add(r["n"])
                    if tail_r:
                        L = sum(e[1] - e[0] + 1 for e in ex[-k:])
                        if abs(abs(L - abs(ex[-k - 1][1] - b[-1][1])) - delta) <= 2:
                            out.add(r["n"])
    return out


def junctions_well_separated(sc, sep=40):
    """no two distinct splice sites (of reads or annotation, same chromosome) closer than sep: near-identical
    junctions are clustered by the intron graph and their representative is chosen by coordinate order, which the
    statement exempts from the reflected model comparison"""
    sites = defaultdict(set)
    support = Counter()
    annotated = set()
    for r in sc["reads"]:
        b = R.cigar_blocks(r["p"], r["cg"])
        for i in range(len(b) - 1):
            for x in (b[i][1], b[i + 1][0]):
                sites[r["c"]].add(x)
                support[(r["c"], x)] += 1
    for g in sc["genes"]:
        for t in g["transcripts"]:
            e = t["exons"]
            for i in range(len(e) - 1):
                for x in (e[i][1], e[i + 1][0]):
                    sites[g["chr"]].add(x)
                    annotated.add((g["chr"], x))
    for c, ss in sites.items():
        ss = sorted(ss)
        for a, b in zip(ss, ss[1:]):
            if b - a >= sep:
                continue
            # in noise-free data two close unannotated sites with different read support are two real sites and there
            # is no tie to break: the better supported one has an orientation-free meaning
            if sc.get("noise_free") and (c, a) not in annotated and (c, b) not in annotated and \
                    support[(c, a)] != support[(c, b)] and b - a > 12:
                continue
            return False
    return True


def run_explicit(sc, genome, ctx, d, name):
    ind = os.path.join(d, "in_" + name)
    os.makedirs(ind, exist_ok=True)
    fa = os.path.join(ind, "genome.fa")
    build.write_fasta(genome, fa, [c[0] for c in sc["chroms"]])
    gp = os.path.join(ind, "annot.gtf")
    build.write_gtf(sc, gp)
    bams = build.write_bams(sc, genome, ind)
    paths = {"fasta": fa, "gtf": gp, "bams": bams, "genome": genome}
    return pipeline.run_case(sc, ctx, d=d, paths=paths, out_name="out_" + name, home=os.path.join(d, "home_" + name))


def evaluate(case, ctx):
    sc = case
    genome = build.make_genome(sc)
    d = ctx.scratch()
    tr = sc["transform"]
    try:
        a = run_explicit(sc, genome, ctx, d, "a")
        if tr["kind"] == "shift":
            sc2, g2 = T.shift_inputs(sc, genome, tr["k"])
        else:
            sc2, g2 = T.reflect_inputs(sc, genome)
        b = run_explicit(sc2, g2, ctx, d, "b")
        if a.code != 0 or b.code != 0:
            if a.code != b.code:
                ctx.violation("C11:transformed-input-changes-exit-status:" + tr["kind"],
                              {"exit": [a.code, b.code], "log": (a if a.code else b).log_tail(10)}, case)
            else:
                ctx.note("both_failed")
            return
        fa, fb = compare.file_map(a.out, "OUT"), compare.file_map(b.out, "OUT")
        lr_event = False
        novel = 0
        if tr["kind"] == "shift":
            k = tr["k"]
            # known finding: the polyT position (first aligned base - 2) of a read aligned from base 1 or 2 of a contig
            # is clamped to 1, which no translated copy of the read reproduces
            clamped = set(r_["n"] for r_ in sc["reads"] if r_.get("c") is not None and r_["p"] <= 1 and
                          r_["cg"] and r_["cg"][0][0] == 4 and r_.get("sl", "").endswith("TTTT"))
            confined = False
            if clamped and "read_assignments.tsv" in fa and "read_assignments.tsv" in fb:
                xa = [T.shift_line("read_assignments.tsv", l, k) for l in parse.strip_header(fa["read_assignments.tsv"])]
                xb = parse.strip_header(fb["read_assignments.tsv"])
                diff = set(xa) ^ set(xb)
                confined = bool(diff) and all(l.split("\t")[0] in clamped for l in diff)
            for key in sorted(set(fa) | set(fb)):
                if key not in fa or key not in fb:
                    ctx.violation("C11:shift:file-set-differs", {"file": key, "k": k}, case)
                    continue
                la = [T.shift_line(key, l, k) for l in parse.strip_header(fa[key])]
                lb = parse.strip_header(fb[key])
                if la != lb:
                    i = next((i for i, (x, y) in enumerate(zip(la, lb)) if x != y), min(len(la), len(lb)))
                    ctx.violation("C11:shift:%s-differs:%s%s" % (
                        key, "multiple-of-256" if k % 256 == 0 else "non-multiple-of-256",
                        ":polyT-head-on-a-read-aligned-from-the-first-two-bases-of-a-contig" if confined else ""),
                                  {"file": key, "k": k, "line": i,
                                   "expected": la[i].rstrip()[:300] if i < len(la) else None,
                                   "got": lb[i].rstrip()[:300] if i < len(lb) else None}, case)
            rows = parse.read_assignments(fa["read_assignments.tsv"])
        else:
            L = {c[0]: c[1] for c in sc["chroms"]}
            rows = parse.read_assignments(fa["read_assignments.tsv"])
            rows_b = parse.read_assignments(fb["read_assignments.tsv"])

            def summarize(rs, mirror):
                per = defaultdict(lambda: {"types": set(), "isos": set(), "events": Counter(), "strands": set(),
                                           "exons": set()})
                for r in rs:
                    p = per[(r["read_id"], r["chr"])]
                    p["types"].add(r["type"])
                    p["isos"].add(r["isoform"])
                    p["strands"].add(T.flip(r["strand"]) if mirror else r["strand"])
                    ex = tuple(T.mirror_exons(r["exons"], L[r["chr"]])) if mirror else tuple(r["exons"])
                    p["exons"].add(ex)
                    for e in r["events"]:
                        n = e.split(":")[0]
                        p["events"][(r["isoform"], T.swap_lr(n) if mirror else n)] += 1
                return per
            pa, pb = summarize(rows, True), summarize(rows_b, False)
            sensitive = tail_sensitive_reads(sc)
            tiny_both_ends = set()
            for r_ in sc["reads"]:
                b_ = R.cigar_blocks(r_["p"], r_["cg"])
                if len(b_) > 1 and b_[0][1] - b_[0][0] + 1 <= 40 and b_[-1][1] - b_[-1][0] + 1 <= 40:
                    tiny_both_ends.add((r_["n"], r_["c"]))
            n_viol_before = len(ctx.violations)
            sig_before = dict(ctx.sig_counts)
            for key in sorted(set(pa) | set(pb)):
                if key[0] in sensitive:
                    x, y = pa.get(key), pb.get(key)
                    if x is None or y is None or x["types"] != y["types"] or x["isos"] != y["isos"] or \
                            x["events"] != y["events"]:
                        ctx.violation("C11:reflect:polyT-position-convention",
                                      {"read": key, "original": x and [sorted(x["types"]), sorted(x["isos"])],
                                       "reflected": y and [sorted(y["types"]), sorted(y["isos"])]}, case)
                    ctx.grey += 1
                    continue
                if key not in pa or key not in pb:
                    ctx.violation("C11:reflect:read-reported-in-one-orientation-only", {"read": key}, case)
                    continue
                x, y = pa[key], pb[key]
                if x["types"] != y["types"] or x["isos"] != y["isos"]:
                    kind_ = "noisy-read" if key[0].startswith("x") or not sc["noise_free"] else "exact-read"
                    ctx.violation("C11:reflect:assignment-differs:%s:%s->%s" % (
                        kind_, "+".join(sorted(x["types"])), "+".join(sorted(y["types"]))),
                                  {"read": key, "original": [sorted(x["types"]), sorted(x["isos"])],
                                   "reflected": [sorted(y["types"]), sorted(y["isos"])]}, case)
                elif x["exons"] != y["exons"]:
                    ctx.violation("C11:reflect:read-exons-not-mirrored", {"read": key, "original": sorted(x["exons"]),
                                                                          "reflected": sorted(y["exons"])}, case)
                elif x["strands"] != y["strands"]:
                    ctx.violation("C11:reflect:strand-not-flipped", {"read": key, "original_flipped": sorted(x["strands"]),
                                                                     "reflected": sorted(y["strands"])}, case)
                elif x["events"] != y["events"] and key in tiny_both_ends:
                    # both terminal blocks are shorter than the fake-terminal-exon bound: which end is called fake is
                    # an inherent tie that no deterministic rule can break symmetrically
                    ctx.grey += 1
                elif x["events"] != y["events"]:
                    dx = sorted((x["events"] - y["events"]).keys())
                    dy = sorted((y["events"] - x["events"]).keys())
                    names = sorted(set(n for _, n in dx + dy))
                    ctx.violation("C11:reflect:events-not-mirrored:" + "+".join(names)[:80],
                                  {"read": key, "only_original(swapped)": dx, "only_reflected": dy}, case)
            for key in ("gene_counts.tsv", "transcript_counts.tsv", "gene_tpm.tsv", "transcript_tpm.tsv"):
                if parse.strip_header(fa[key]) != parse.strip_header(fb[key]):
                    if sensitive:
                        ctx.violation("C11:reflect:polyT-position-convention", {"table": key}, case)
                    else:
                        ctx.violation("C11:reflect:%s-differs" % key, {}, case)
            for key in ("exon_counts.tsv", "intron_counts.tsv"):
                if key in fa and key in fb:
                    def norm(p, mirror):
                        out = Counter()
                        for r in parse.feature_counts(p):
                            if mirror:
                                s, e = L[r["chr"]] + 1 - r["end"], L[r["chr"]] + 1 - r["start"]
                                st_ = "".join(sorted(T.flip(c) for c in r["strand"]))
                            else:
                                s, e, st_ = r["start"], r["end"], "".join(sorted(r["strand"]))
                            out[(r["chr"], s, e, st_, r["genes"], r["inc"], r["exc"])] += 1
                        return out
                    if norm(fa[key], True) != norm(fb[key], False):
                        diff = list((norm(fa[key], True) - norm(fb[key], False)).keys())[:2]
                        ctx.violation("C11:reflect:%s-not-mirrored" % key, {"only_original(mirrored)": diff}, case)
            separated = junctions_well_separated(sc)
            if sc["noise_free"] and not separated:
                ctx.grey += 1
            if sc["noise_free"] and separated and not sensitive and "transcript_models.gtf" in fa and \
                    "transcript_models.gtf" in fb:
                def models(p, cp, mirror):
                    tt = gtfcheck.transcript_table(parse.gtf(p))
                    counts = parse.counts_simple(cp)
                    out = Counter()
                    for tid, t in tt.items():
                        ex = T.mirror_exons(t["exons"], L[t["chr"]]) if mirror else sorted(t["exons"])
                        out[(t["chr"], T.flip(t["strand"]) if mirror else t["strand"], tuple(ex),
                             counts.get(tid, 0.0))] += 1
                    return out
                ma = models(fa["transcript_models.gtf"], fa["transcript_model_counts.tsv"], True)
                mb = models(fb["transcript_models.gtf"], fb["transcript_model_counts.tsv"], False)
                if ma != mb:
                    # root-cause class: same set of model structures in both orientations, only the read support
                    # (counts) of *reference* transcripts differs: full-length paths are matched to known isoforms
                    # in coordinate order and only the first path that matches an isoform brings its reads along
                    # (known finding); anything else (a model present in one orientation only, a novel model with
                    # different support) keeps the plain signature
                    ref_structs = set()
                    for g_ in sc["genes"]:
                        for t_ in g_["transcripts"]:
                            n_ = L[g_["chr"]]
                            ref_structs.add((g_["chr"], tuple(sorted((n_ + 1 - b_, n_ + 1 - a_)
                                                                     for a_, b_ in t_["exons"]))))
                    sa = set(k_[:3] for k_ in ma)
                    sb = set(k_[:3] for k_ in mb)
                    diff_keys = list((ma - mb).keys()) + list((mb - ma).keys())
                    only_counts = sa == sb and all((k_[0], tuple(k_[2])) in ref_structs for k_ in diff_keys)
                    suffix = ":known-isoform-read-support-depends-on-path-order" if only_counts else ""
                    # known finding (polyT convention): the 3' end of an unspliced novel model is the recorded tail
                    # position; the polyT search looks at 3 aligned bases next to the head, the polyA search at 2 next to
                    # the tail, so that a read whose aligned part ends in A's gets tail positions that are not mirror
                    # images (same root as the reflection finding polyT-position-convention)
                    da, db = list((ma - mb).keys()), list((mb - ma).keys())
                    if not suffix and da and len(da) == len(db) and all(len(k_[2]) == 1 for k_ in da + db) and all(
                            any(y[0] == x[0] and y[1] == x[1] and y[3] == x[3] and
                                (y[2][0][0] == x[2][0][0] or y[2][0][1] == x[2][0][1]) and
                                1 <= abs(y[2][0][0] - x[2][0][0]) + abs(y[2][0][1] - x[2][0][1]) <= 3 for y in db)
                            for x in da):
                        suffix = ":end-of-an-unspliced-model-follows-the-recorded-tail-position"
                    ctx.violation("C11:reflect:transcript-models-not-mirrored" + suffix,
                                  {"only_original(mirrored)": [list(x) for x in (ma - mb).keys()][:2],
                                   "only_reflected": [list(x) for x in (mb - ma).keys()][:2]}, case)
        for r in rows:
            if any(e.split(":")[0].rsplit("_", 1)[-1] in ("left", "right", "3", "5") for e in r["events"]):
                lr_event = True
                break
        if "transcript_models.gtf" in fa:
            novel = sum(1 for l in parse.data_lines(fa["transcript_models.gtf"]) if "\ttranscript\t" in l and 'nic";' in l)
        ctx.cls("transform=" + tr["kind"], "noise_free" if sc["noise_free"] else "noisy")
        if tr["kind"] == "reflect" and sc["noise_free"]:
            ctx.cls("models_compared" if (junctions_well_separated(sc) and not tail_sensitive_reads(sc))
                    else "models_not_compared")
        if lr_event and novel:
            ctx.mark_nontrivial(case_hash(case))
            ctx.sample(pipeline.summarize(sc, {"transform": tr, "novel": novel}), limit=2)
    finally:
        import shutil
        shutil.rmtree(d, ignore_errors=True)


@st.composite
def corner_scenarios(draw):
    """Parametrised corner templates for left/right symmetric code paths (structures suggested by the leads in
    hunt/C11, coordinates and counts generated): every case is noise-free and compared under reflection."""
    src = S.DrawSrc(draw)
    kind = src.choice(["event_order", "micro_intron_blocks", "threaded_ends", "adjacent_cluster", "corner_start",
                       "similar_novel", "monoexon_overlap", "ragged_polya", "flanking_introns", "readthrough_tip",
                       "intronic_tail_fragment", "intronic_tail_fragment", "short_novel_ends"])
    extra_opts = []
    force_dt = None
    if os.environ.get("VERIF_C11_KIND"):
        kind = os.environ["VERIF_C11_KIND"]         # debugging aid: one template only
    strand = src.choice(["+", "-"])
    base = src.int(600, 1500)
    reads, novel = [], []
    k = 0

    def chain(lengths, gaps, start):
        out, p_ = [], start
        for i, ln in enumerate(lengths):
            out.append([p_, p_ + ln - 1])
            if i < len(gaps):
                p_ += ln + gaps[i]
        return out

    def add(chain_, n, tail=True, prefix="r"):
        nonlocal k
        for _ in range(n):
            k += 1
            reads.append(S.exact_read("%s%d" % (prefix, k), "chr1", strand, chain_, polya=src.int(22, 32) if tail else 0))
    if kind == "event_order":
        # A: first exon cut by n small introns, then an alternative donor; B: an alternative acceptor, then the last
        # exon cut by n small introns; the read has the long first and last exon and its own middle exon
        n = src.int(2, 3)
        piece, small = src.int(150, 220), src.int(90, 120)
        first_len = (n + 1) * piece + n * small
        gap1, mid, gap2 = src.int(400, 600), src.int(180, 260), src.int(400, 600)
        d = src.int(45, 70)
        f0 = base
        f1 = f0 + first_len - 1
        m0 = f1 + gap1 + 1
        m1 = m0 + mid - 1
        l0 = m1 + gap2 + 1
        l1 = l0 + first_len - 1
        a_first = chain([piece] * (n + 1), [small] * n, f0)
        b_last = chain([piece] * (n + 1), [small] * n, l0)
        A = a_first + [[m0, m1 + d]] + [[l0, l1]]
        B = [[f0, f1]] + [[m0 - d, m1]] + b_last
        trs = [{"id": "A", "exons": A}, {"id": "B", "exons": B}]
        add([[f0, f1], [m0, m1], [l0, l1]], src.int(1, 3), tail=False)
        novel.append([[f0, f1], [m0, m1], [l0, l1]])
    elif kind == "micro_intron_blocks":
        mi = src.int(42, 50)
        T = chain([src.int(150, 220), src.int(150, 220), src.int(180, 240), src.int(150, 220), src.int(150, 220)],
                  [mi, src.int(300, 500), src.int(300, 500), mi], base)
        trs = [{"id": "T", "exons": T}]
        add([[T[0][0], T[1][1]]] + T[2:], src.int(3, 5), prefix="f")
        add(T[:3] + [[T[3][0], T[4][1]]], src.int(3, 5), prefix="l")
    elif kind == "threaded_ends":
        T = chain([src.int(180, 240)] * 3, [src.int(280, 400)] * 2, base)
        trs = [{"id": "T", "exons": T}]
        cut = src.int(60, 120)
        g4 = src.int(300, 450)
        e4 = [T[2][0] + cut + g4, T[2][0] + cut + g4 + src.int(250, 320)]
        N = T[:2] + [[T[2][0], T[2][0] + cut - 1], e4]
        novel.append(N)
        dlt = src.int(8, 45)
        side = src.choice(["end", "start"])
        add(N, src.int(2, 4), tail=True, prefix="p")
        if side == "end":
            N2 = N[:-1] + [[N[-1][0], N[-1][1] + dlt]] if strand == "+" else [[N[0][0] - dlt, N[0][1]]] + N[1:]
        else:
            N2 = [[N[0][0] - dlt, N[0][1]]] + N[1:] if strand == "+" else N[:-1] + [[N[-1][0], N[-1][1] + dlt]]
        add(N2, src.int(2, 4), tail=False, prefix="u")
    elif kind == "adjacent_cluster":
        T = chain([src.int(180, 240)] * 3, [src.int(280, 400)] * 2, base)
        trs = [{"id": "T", "exons": T}]
        gap = src.choice([-1, 0, 0, 1])
        if src.bool(0.5):
            c0 = T[-1][1] + 1 + gap
            C = chain([src.int(180, 240)] * 3, [src.int(280, 400)] * 2, c0)
        else:
            ln = [src.int(180, 240)] * 3
            gp = [src.int(280, 400)] * 2
            c1 = T[0][0] - 1 - gap
            C = chain(ln, gp, c1 - (sum(ln) + sum(gp)) + 1)
        novel.append(C)
        add(C, src.int(3, 6), prefix="p")
    elif kind == "similar_novel":
        # two unannotated isoforms that differ by an alternative donor/acceptor a little beyond delta, unequal support
        T = chain([src.int(180, 240)] * 3, [src.int(280, 400)] * 2, base)
        trs = [{"id": "T", "exons": T}]
        s0 = T[-1][1] + src.int(1500, 2500)
        A = chain([src.int(250, 350), src.int(180, 240), src.int(300, 450)], [src.int(600, 800), src.int(700, 900)], s0)
        dd = src.int(13, 25)
        if src.bool(0.5):
            B = [A[0], [A[1][0], A[1][1] + dd], A[2]]
        else:
            B = [A[0], [A[1][0] - dd, A[1][1]], A[2]]
        novel += [A, B]
        na = src.int(5, 8)
        add(A, na, prefix="a")
        add(B, src.int(3, na - 1), prefix="b")
    elif kind == "ragged_polya":
        # one novel chain whose noise-free polyA reads end at three places: E (most reads), E+d2 and E+d3 with
        # d2 < apa_delta (50) < d3 and d3 - d2 < apa_delta: the middle reads are nearer to the far end
        T = chain([src.int(180, 240)] * 3, [src.int(280, 400)] * 2, base)
        trs = [{"id": "T", "exons": T}]
        s0 = T[-1][1] + src.int(1500, 2500)
        N = chain([src.int(250, 350), src.int(180, 240), src.int(400, 500)], [src.int(600, 800), src.int(700, 900)], s0)
        novel.append(N)
        d2, d3 = src.int(34, 46), src.int(56, 66)

        def shifted(d):
            if strand == "+":
                return N[:-1] + [[N[-1][0], N[-1][1] + d]]
            return [[N[0][0] - d, N[0][1]]] + N[1:]
        add(N, src.int(4, 6), prefix="a")
        add(shifted(d2), 2, prefix="b")
        add(shifted(d3), src.int(2, 3), prefix="c")
    elif kind == "flanking_introns":
        # a read whose middle block covers a single-exon gene, with an intron of the read on either side of the gene
        g0 = base + src.int(900, 1400)
        G = [[g0, g0 + src.int(300, 500)]]
        trs = [{"id": "T", "exons": G}]
        left = [g0 - src.int(900, 1100), g0 - src.int(700, 850)]
        mid = [g0 - src.int(60, 120), G[0][1] + src.int(60, 120)]
        right = [G[0][1] + src.int(500, 700), G[0][1] + src.int(800, 1000)]
        add([left, mid, right], src.int(1, 3), tail=src.bool(0.5), prefix="f")
        if src.bool(0.5):
            add([left, mid], src.int(1, 2), tail=False, prefix="l")
        if src.bool(0.5):
            add([mid, right], src.int(1, 2), tail=False, prefix="r")
    elif kind == "readthrough_tip":
        # tail-less reads (PacBio defaults): many reads of a 2-exon transcript X, many of a 3-exon transcript Y behind
        # it, and a single read-through read joining the (prolonged) last exon of X to the first exon of Y
        T = chain([src.int(180, 240)] * 3, [src.int(280, 400)] * 2, base)
        trs = [{"id": "T", "exons": T}]
        s0 = T[-1][1] + src.int(1500, 2500)
        X = chain([src.int(250, 350), src.int(300, 400)], [src.int(500, 700)], s0)
        Y = chain([src.int(250, 350), src.int(180, 240), src.int(300, 400)], [src.int(500, 700), src.int(500, 700)],
                  X[-1][1] + src.int(900, 1300))
        novel += [X, Y]
        nx = src.int(101, 110)
        add(X, nx, tail=False, prefix="x")
        add(Y, nx, tail=False, prefix="y")
        add([X[0], [X[1][0], X[1][1] + 50], [Y[0][0] + src.choice([0, 50]), Y[0][1]], Y[1], Y[2]], 1, tail=False,
            prefix="t")
        force_dt = "pacbio_ccs"
    elif kind == "short_novel_ends":
        # an annotated 4-exon isoform with full-length reads and an unannotated exon-skipping isoform that shares its
        # last (or first) intron; the reads of the novel isoform stop at two places well inside the shared terminal
        # exon, none of them near the end of the annotated isoform
        lens = [src.int(200, 300), src.int(150, 220), src.int(150, 220), src.int(200, 300)]
        side = src.choice(["right", "left"])
        lens[-1 if side == "right" else 0] = src.int(480, 650)
        T = chain(lens, [src.int(400, 700) for _ in range(3)], base)
        trs = [{"id": "T", "exons": T}]
        add(T, src.int(4, 6), tail=src.bool(0.5), prefix="f")
        d1, d2 = src.int(70, 150), src.int(220, 380)
        n1, n2 = src.int(2, 4), src.int(2, 4)
        if side == "right":
            N = [T[0], T[2], T[3]]
            for d, n in ((d1, n1), (d2, n2)):
                add(N[:-1] + [[N[-1][0], N[-1][1] - d]], n, tail=False, prefix="n")
        else:
            N = [T[0], T[1], T[3]]
            for d, n in ((d1, n1), (d2, n2)):
                add([[N[0][0] + d, N[0][1]]] + N[1:], n, tail=False, prefix="n")
        novel.append(N)
    elif kind == "intronic_tail_fragment":
        # full-length tailed reads of a spliced transcript and unspliced tailed reads that end at its polyA site and
        # begin inside its last intron (intron retention / an unspliced transcript of its own)
        T = chain([src.int(180, 260), src.int(150, 220), src.int(300, 420)], [src.int(500, 800), src.int(500, 800)],
                  base)
        trs = [{"id": "T", "exons": T}]
        add(T, src.int(6, 10), prefix="f")
        if strand == "+":
            frag = [[T[-1][0] - src.int(40, 400), T[-1][1]]]
        else:
            frag = [[T[0][0], T[0][1] + src.int(40, 400)]]
        add(frag, src.int(4, 7), prefix="u")
        if src.bool(0.5):
            trs = [{"id": "T", "exons": [T[0], [T[1][0], T[1][1] + src.int(300, 500)]]}]     # T itself is novel
            novel.append(T)
        extra_opts = ["--report_novel_unspliced", "true"]
    elif kind == "monoexon_overlap":
        # overlapping unspliced transcripts on opposite strands (polyA tails vs polyT heads), unequal support
        T = chain([src.int(180, 240)] * 3, [src.int(280, 400)] * 2, base)
        trs = [{"id": "T", "exons": T}]
        s0 = T[-1][1] + src.int(1500, 2500)
        ln = src.int(500, 800)
        ov = src.int(ln // 3, ln - 50)
        X, Y = [[s0, s0 + ln - 1]], [[s0 + ln - ov, s0 + 2 * ln - ov - 1]]
        nx = src.int(5, 8)
        first = src.choice(["+", "-"])
        for _ in range(nx):
            k += 1
            reads.append(S.exact_read("x%d" % k, "chr1", first, X, polya=src.int(22, 32)))
        for _ in range(src.int(3, nx - 1)):
            k += 1
            reads.append(S.exact_read("y%d" % k, "chr1", "-" if first == "+" else "+", Y, polya=src.int(22, 32)))
        extra_opts = ["--report_novel_unspliced", "true"]
    else:
        e1 = src.int(160, 220)
        T = chain([e1, src.int(260, 320)], [src.int(700, 900)], base)
        trs = [{"id": "T", "exons": T}]
        mid0 = T[0][1] + src.int(250, 350)
        midx = [mid0, mid0 + src.int(180, 220)]
        A = [T[0], midx, T[1]]
        tiny0 = T[0][1] + src.int(4, 9)
        Bc = [[tiny0, tiny0 + src.int(7, 12)], midx, [T[1][0], T[1][1] + src.int(200, 320)]]
        novel += [A, Bc]
        add(A, src.int(8, 11), prefix="a")
        add(Bc, src.int(3, 4), prefix="b")
    allx = [e for t in trs for e in t["exons"]] + [e for c_ in novel for e in c_] + \
        [b for r in reads for b in R.cigar_blocks(r["p"], r["cg"])]
    if min(e[0] for e in allx) < 60:
        off = 100 - min(e[0] for e in allx)
        for t in trs:
            t["exons"] = [[a + off, b + off] for a, b in t["exons"]]
        novel = [[[a + off, b + off] for a, b in c_] for c_ in novel]
        for r in reads:
            r["p"] += off
        allx = [[a + off, b + off] for a, b in allx]
    length = max(e[1] for e in allx) + src.int(900, 2000)
    overrides = []
    for t in trs:
        overrides += build.splice_overrides("chr1", t["exons"], strand)
    for c_ in novel:
        overrides += build.splice_overrides("chr1", c_, strand)
    sc = {"chroms": [["chr1", length, src.int(1, 10 ** 6)]],
          "genes": [{"id": "G1", "chr": "chr1", "strand": strand, "canon": "canon", "transcripts": trs}],
          "overrides": overrides, "reads": reads, "nfiles": 1,
          "gtf": {"gene_records": True, "transcript_records": True},
          "opts": ["--data_type", src.choice(["nanopore", "pacbio_ccs"]), "--no_gzip", "--threads", "1"],
          "noise_free": True, "corner": kind, "transform": {"kind": "reflect"}}
    sc["opts"] += extra_opts
    if force_dt:
        sc["opts"][sc["opts"].index("--data_type") + 1] = force_dt
    return sc


@st.composite
def contig_start_scenarios(draw):
    """Reads that begin at the first bases of a contig (chrM, short scaffolds), with and without a polyT head, under
    translation: inserting k bases in front of the contig must only add k."""
    src = S.DrawSrc(draw)
    strand = src.choice(["-", "-", "+"])
    first = src.int(20, 70)                       # annotated start of the isoform
    l1, gap, l2 = src.int(200, 400), src.int(200, 400), src.int(150, 300)
    iso = [[first, first + l1 - 1], [first + l1 + gap, first + l1 + gap + l2 - 1]]
    reads = []
    k = 0
    for start in (1, 2, 3, first):
        for _ in range(src.int(1, 3)):
            k += 1
            chain_ = [[start, iso[0][1]], list(iso[1])]
            reads.append(S.exact_read("r%d" % k, "chr1", strand, chain_, polya=src.int(22, 32) if src.bool(0.8) else 0))
    length = iso[1][1] + src.int(600, 1500)
    sc = {"chroms": [["chr1", length, src.int(1, 10 ** 6)]],
          "genes": [{"id": "G1", "chr": "chr1", "strand": strand, "canon": "canon",
                     "transcripts": [{"id": "G1.t1", "exons": iso}]}],
          "overrides": build.splice_overrides("chr1", iso, strand), "reads": reads, "nfiles": 1,
          "gtf": {"gene_records": True, "transcript_records": True},
          "opts": ["--data_type", src.choice(["nanopore", "pacbio_ccs"]), "--no_gzip", "--threads", "1"],
          "noise_free": True, "corner": "contig_start",
          "transform": {"kind": "shift", "k": src.choice([1, 2, 7, 100, 256, 1000])}}
    if src.bool(0.3):
        sc["opts"] += ["--report_novel_unspliced", "true"]
    return sc


def evaluate_corner(case, ctx):
    evaluate(case, ctx)
    ctx.cls("corner=" + case["corner"])
    ctx.mark_nontrivial(case_hash(case))


@st.composite
def split_scenarios(draw):
    """Loci above the region-splitting thresholds (templates of C05/C03) translated by a multiple of the 256-bp
    coverage bin: split points move with the locus, so every output must be the translated original."""
    rnd = draw(st.randoms(use_true_random=True))
    src = S.RndSrc(rnd)
    annotated = draw(st.sampled_from([True, True, False]))
    tmpl = draw(st.sampled_from(["pileups", "plateau", "long_gene", "straddle"]))
    if tmpl == "plateau":
        sc = S.gen_plateau_locus(src, with_annotation=annotated)
    elif tmpl == "pileups":
        sc = S.gen_deep_locus(src, with_annotation=annotated, max_reads=500, extra_chrom=False)
    else:
        sc = S.gen_long_gene_locus(src, with_annotation=annotated, straddle=tmpl == "straddle")
    sc["template"] = tmpl
    sc["opts"] = ["--data_type", draw(st.sampled_from(["nanopore", "pacbio_ccs"])), "--no_gzip", "--threads",
                  str(draw(st.sampled_from([1, 2])))]
    if draw(st.booleans()):
        sc["opts"] += ["--high_memory"]
    if draw(st.booleans()):
        sc["opts"] += ["--count_exons"]
    sc["noise_free"] = True
    sc["split_locus"] = True
    sc["transform"] = {"kind": "shift", "k": 256 * draw(st.sampled_from([1, 2, 3, 7, 16, 127, 128, 129, 1000]))}
    return sc


def evaluate_split(case, ctx):
    evaluate(case, ctx)
    ctx.cls("template=" + case["template"])
    # every case of this stage has a locus that is processed in >= 2 regions by construction of the templates
    ctx.mark_nontrivial(case_hash(case))


def stages(tier):
    q = tier == "quick"
    return [Stage("equivariance", "hyp", evaluate, n=160 if q else 3000, strategy=scenarios),
            Stage("split_shift", "hyp", evaluate_split, n=32 if q else 500, strategy=split_scenarios),
            Stage("corners", "hyp", evaluate_corner, n=112 if q else 2000, strategy=corner_scenarios),
            Stage("contig_start", "hyp", evaluate_corner, n=32 if q else 600, strategy=contig_start_scenarios)]
