"""C10 - experiments processed in one invocation are independent of each other."""
import copy
import json
import os

from hypothesis import strategies as st

from vlib import build, compare, parse, pipeline, run, scenario as S, reads as R
from vlib.shard import Stage, case_hash

ID = "C10"
LEVEL = "exploration"
TECHNIQUE = "property-based testing (Hypothesis): sequences of 2-4 generated experiments run jointly (YAML or list " \
            "file, permuted order, 1/2/4 threads) versus stand-alone single-experiment runs; directory-level differential"
RULE = ("Hypothesis-generated experiment sequences over one reference/annotation: same data, disjoint data, "
        "overlapping loci, experiments with 1-2 files (replicas), given by --yaml or --bam_list, in drawn order, with "
        "--threads 1/2/4; every experiment is also run alone from a one-experiment YAML of the same name. Non-trivial "
        "= >= 2 experiments that both report >= 1 known transcript of a shared gene; distinct by scenario hash.")
ASSUMPTIONS = ["stand-alone reference run = a one-experiment YAML with the same experiment name and the same options",
               "combined_* tables are compared numerically per column (pandas re-formats floats)"]


@st.composite
def scenarios(draw):
    src = S.DrawSrc(draw)
    sc = S.gen_discovery(src, n_chroms=(1, 3), genes_per_chrom=(1, 2), novel_per_gene=(0, 1), reads_known=(2, 5),
                         reads_novel=(3, 6), intergenic_p=0.2, max_exons=5, exact=True)
    sc.pop("truth", None)
    lens = {c[0]: c[1] for c in sc["chroms"]}
    allreads = [r for r in sc["reads"] if R.cigar_blocks(r["p"], r["cg"])[-1][1] + 45 < lens[r["c"]]]
    ne = src.int(2, 4)
    exps = []
    for i in range(ne):
        mode = src.choice(["all", "subset", "subset", "same_as_first"])
        if mode == "all" or (mode == "same_as_first" and not exps):
            idx = list(range(len(allreads)))
        elif mode == "same_as_first":
            idx = list(exps[0]["idx"])
        else:
            idx = [j for j in range(len(allreads)) if src.bool(0.6)]
            if not idx:
                idx = [0]
        nfiles = 2 if src.bool(0.35) and len(idx) >= 2 else 1
        exps.append({"name": src.choice(["E", "exp", "S", "sample"]) + str(i + 1), "idx": idx, "nfiles": nfiles,
                     "assign": [src.int(0, nfiles - 1) for _ in idx], "labels": src.bool(0.5),
                     # experiments differ in what IsoQuant derives from the data itself: number of unaligned reads and
                     # share of polyA-tailed reads (the `auto` polyA requirement is decided per experiment)
                     "unmapped": src.choice([0, 0, 1, 2, 5]), "tails": src.choice(["as_is", "as_is", "all", "none"]),
                     "numeric_labels": src.bool(0.2)})
    # experiment names as given by the user: usually distinct; sometimes repeated or of the form <prefix><index> that
    # IsoQuant itself uses when it renames a repeated name
    if src.bool(0.25):
        for e in exps:
            e["given"] = src.choice(["A", "A", "B", "OUT2", "OUT3"])
    elif src.bool(0.15):
        # names that YAML reads as numbers (time points, years)
        for i, e in enumerate(exps):
            e["given"] = 2024 + i
            e["numeric_name"] = True
    # feature ids that table readers like to take for missing values
    if src.bool(0.2):
        # ... or for quoted fields (an embedded double quote survives GTF parsing: gene_id "G"3"; gives G"3)
        ids = src.shuffle(["NA", "nan", "null", "None", "N/A", 'G"3', 'x"y"z'])
        for g in sc["genes"]:
            if ids and src.bool(0.5):
                g["id"] = ids.pop()
            for t in g["transcripts"]:
                if ids and src.bool(0.3):
                    t["id"] = ids.pop()
    # short reads of some experiments (YAML key "illumina bam"): a gene-free contig with long reads whose junctions are 4
    # bases off the junctions that the short reads support - corrected only in the experiments that have short reads
    if src.bool(0.4):
        L = src.int(3000, 5000)
        sc["chroms"].append(["chrS", L, src.int(1, 10 ** 6)])
        a = src.int(200, 400)
        chain = [[a, a + 199], [a + 500, a + 699], [a + 1000, a + 1306]]
        short = []
        for i in range(2):
            for _ in range(src.int(1, 3)):
                short.append(R.make_read("s%d" % len(short), "chrS", [[chain[i][1] - 30, chain[i][1]],
                                                                      [chain[i + 1][0], chain[i + 1][0] + 30]]))
        sc["short_reads"] = short
        for j in range(src.int(3, 6)):
            blocks = [list(e) for e in chain]
            if src.bool(0.7):
                blocks[2][0] -= 4
            else:
                blocks[0][1] += 4
            r = R.make_read("q%d" % j, "chrS", blocks, polya=25)
            allreads.append(r)
            for e in exps:
                if e is exps[0] or src.bool(0.7):
                    e["idx"].append(len(allreads) - 1)
                    e["assign"].append(src.int(0, e["nfiles"] - 1))
        for e in exps:
            e["short"] = src.bool(0.5)
    sc["reads"] = allreads
    sc["experiments"] = exps
    sc["order"] = src.shuffle(list(range(ne)))
    sc["input_kind"] = "yaml" if sc.get("short_reads") or any(e.get("numeric_name") for e in exps) else \
        src.choice(["yaml", "yaml", "bam_list"])
    sc["threads"] = src.choice([1, 1, 2, 4])
    sc["opts"] = ["--data_type", src.choice(["nanopore", "pacbio_ccs"]), "--no_gzip"]
    if src.bool(0.3):
        sc["opts"] += ["--count_exons"]
    # the joint run keeps its saved read assignments and one more run is restarted from all of them at once
    sc["restart"] = src.bool(0.35)
    # the in-memory path keeps per-read state of its own (read names repeat between experiments)
    if src.bool(0.3):
        sc["opts"] += ["--high_memory"]
    return sc


def retail(r, mode, strands):
    """copy of read r with its soft-clipped polyA/polyT tail kept, removed, or added (on the 3' side of its gene)"""
    r = dict(r)
    if mode == "as_is" or not r.get("cg"):
        return r
    cg = [list(x) for x in r["cg"]]
    if cg and cg[0][0] == 4:
        cg = cg[1:]
    if cg and cg[-1][0] == 4:
        cg = cg[:-1]
    r.pop("sl", None)
    r.pop("sr", None)
    if mode == "all":
        blocks = R.cigar_blocks(r["p"], r["cg"])
        strand = None
        for (c, gs, ge, st_) in strands:
            if c == r["c"] and gs <= blocks[-1][1] and blocks[0][0] <= ge:
                strand = st_
                break
        if strand is None:
            strand = "-" if r["f"] & 16 else "+"
        if strand == "+":
            cg = cg + [[4, 25]]
            r["sr"] = "A" * 25
        else:
            cg = [[4, 25]] + cg
            r["sl"] = "T" * 25
    r["cg"] = cg
    return r


def write_inputs(sc, d):
    ind = os.path.join(d, "in")
    os.makedirs(ind, exist_ok=True)
    genome = build.make_genome(sc)
    fa = os.path.join(ind, "genome.fa")
    build.write_fasta(genome, fa, [c[0] for c in sc["chroms"]])
    gtf = os.path.join(ind, "annot.gtf")
    build.write_gtf(sc, gtf)
    files = {}
    strands = [(g["chr"], min(t["exons"][0][0] for t in g["transcripts"]),
                max(t["exons"][-1][1] for t in g["transcripts"]), g["strand"]) for g in sc["genes"]]
    for e in sc["experiments"]:
        sub = {"chroms": sc["chroms"], "nfiles": e["nfiles"],
               "reads": []}
        for j, fi in zip(e["idx"], e["assign"]):
            r = retail(sc["reads"][j], e.get("tails", "as_is"), strands)
            r["file"] = fi
            sub["reads"].append(r)
        for u in range(e.get("unmapped", 0)):
            sub["reads"].append(S.unmapped_read("%s_u%d" % (e["name"], u), file=u % e["nfiles"]))
        files[e["name"]] = build.write_bams(sub, genome, ind, prefix=e["name"] + "_")
    if sc.get("short_reads"):
        files["__short__"] = build.write_bams({"chroms": sc["chroms"], "reads": sc["short_reads"], "nfiles": 1}, genome,
                                              ind, prefix="short")
    return fa, gtf, files


def yaml_for(exps, files, path):
    doc = [{"data format": "bam"}]
    for e in exps:
        ent = {"name": e.get("given", e["name"]), "long read files": files[e["name"]]}
        if e.get("short") and files.get("__short__"):
            ent["illumina bam"] = list(files["__short__"])
        if e["labels"]:
            ent["labels"] = ["%s_rep%d" % (e["name"], i) for i in range(len(files[e["name"]]))]
            if e.get("numeric_labels"):
                ent["labels"] = [10 * i + 3 for i in range(len(files[e["name"]]))]     # YAML integers (time points, ...)
        doc.append(ent)
    with open(path, "w") as f:
        json.dump(doc, f)          # JSON is YAML
    return path


def list_for(exps, files, path):
    with open(path, "w") as f:
        for e in exps:
            f.write("#%s\n" % e.get("given", e["name"]))
            for i, b in enumerate(files[e["name"]]):
                f.write(b + (":%s_rep%d" % (e["name"], i) if e["labels"] else "") + "\n")
            f.write("\n")
    return path


RESTART_FILES = {"gene_counts.tsv", "transcript_counts.tsv", "transcript_model_counts.tsv", "gene_tpm.tsv",
                 "transcript_tpm.tsv", "read_assignments.tsv", "transcript_models.gtf"}


def evaluate(case, ctx):
    sc = case
    d = ctx.scratch()
    try:
        fa, gtf, files = write_inputs(sc, d)
        exps = [sc["experiments"][i] for i in sc["order"]]
        common = ["--reference", fa, "--genedb", gtf, "--complete_genedb"] + list(sc["opts"])
        joint_out = os.path.join(d, "joint")
        if sc["input_kind"] == "yaml":
            inp = ["--yaml", yaml_for(exps, files, os.path.join(d, "in", "joint.yaml"))]
        else:
            inp = ["--bam_list", list_for(exps, files, os.path.join(d, "in", "joint.list"))]
        ctx.pipeline_runs += 1
        code = run.run_fork(common + inp + ["-o", joint_out, "--threads", str(sc["threads"])] +
                            (["--keep_tmp"] if sc.get("restart") else []),
                            os.path.join(d, "home_joint"), os.path.join(d, "joint.log"))
        if code != 0 and "Change experiment name" in open(os.path.join(d, "joint.log"), errors="replace").read():
            # repeated names that IsoQuant cannot replace are rejected with an explicit request to rename
            ctx.note("rejected:experiment-names")
            return
        if code != 0:
            r = pipeline.Result(d, code, joint_out, {}, os.path.join(d, "joint.log"))
            ctx.violation("C10:joint-run-fails:" + r.crash_signature().split("@")[0], {"log": r.log_tail(12)}, case)
            return
        # names of the experiment folders: a repeated name is replaced (IsoQuant logs the replacement)
        renames = [l.split("will change to ")[1].strip() for l in open(os.path.join(d, "joint.log"), errors="replace")
                   if "Duplicate folder prefix" in l and "will change to " in l]
        seen_names = set()
        for e in exps:
            nm = str(e.get("given", e["name"]))
            if nm in seen_names:
                if not renames:
                    ctx.violation("C10:repeated-experiment-name-not-renamed", {"name": nm}, case)
                    return
                nm = renames.pop(0)
            if nm in seen_names:
                ctx.violation("C10:two-experiments-share-one-output-folder", {
                    "folder": nm, "given_names": [x.get("given", x["name"]) for x in exps]}, case)
                return
            seen_names.add(nm)
            e["final"] = nm
        known_by_exp = {}
        for e in exps:
            e = dict(e)
            e["given"] = e["final"]
            solo_out = os.path.join(d, "solo_" + e["name"])
            if sc["input_kind"] == "yaml":
                sinp = ["--yaml", yaml_for([e], files, os.path.join(d, "in", "solo_%s.yaml" % e["name"]))]
            else:
                sinp = ["--bam_list", list_for([e], files, os.path.join(d, "in", "solo_%s.list" % e["name"]))]
            ctx.pipeline_runs += 1
            code = run.run_fork(common + sinp + ["-o", solo_out, "--threads", str(sc["threads"])],
                                os.path.join(d, "home_" + e["name"]), os.path.join(d, "solo_%s.log" % e["name"]))
            if code != 0:
                ctx.note("solo_run_failed")
                continue
            pos = [x["name"] for x in exps].index(e["name"])
            diffs = compare.diff_dirs(joint_out, e["final"], solo_out, e["final"])
            for kind, f, det in diffs:
                if kind == "only-in-first" and "grouped" in f:
                    sig = "C10:joint-run-writes-extra-grouped-files-for-single-file-experiment"
                elif kind == "content" and f.startswith("transcript_model") or f in ("transcript_models.gtf",
                                                                                     "extended_annotation.gtf"):
                    sig = "C10:transcript-models-differ:position%s:threads%s" % ("0" if pos == 0 else ">0",
                                                                                "1" if sc["threads"] == 1 else ">1")
                else:
                    sig = "C10:experiment-output-differs:%s:%s" % (kind, f)
                ctx.violation(sig, {"experiment": e["name"], "position": pos, "kind": kind, "file": f, "detail": det,
                                    "threads": sc["threads"], "nfiles": [x["nfiles"] for x in exps]}, case)
            tm = compare.file_map(solo_out, e["final"]).get("transcript_models.gtf")
            if tm:
                known_by_exp[e["name"]] = set(l.split('transcript_id "')[1].split('"')[0]
                                              for l in parse.data_lines(tm) if "\ttranscript\t" in l and
                                              not l.split('transcript_id "')[1].split('"')[0].startswith("transcript"))
        if sc.get("restart") and not sc.get("short_reads"):
            # experiments restarted together from their saved read assignments stay as separate as they were: the
            # ungrouped tables of every experiment equal those of the joint run (the restarted run names them OUT<i>)
            saves = [os.path.join(joint_out, e["final"], "aux", e["final"] + ".save") for e in exps]
            rout = os.path.join(d, "restarted")
            ctx.pipeline_runs += 1
            rlog = os.path.join(d, "restarted.log")
            code = run.run_fork(common + ["--read_assignments"] + saves + ["-o", rout, "--threads", str(sc["threads"])],
                                os.path.join(d, "home_restart"), rlog)
            if code != 0:
                r = pipeline.Result(d, code, rout, {}, rlog)
                ctx.violation("C10:restart-from-saved-assignments-fails:" + r.crash_signature().split("@")[0],
                              {"log": r.log_tail(10)}, case)
            else:
                for i, e in enumerate(exps):
                    for kind, f, det in compare.diff_dirs(joint_out, e["final"], rout, "OUT%d" % i, only=RESTART_FILES):
                        ctx.violation("C10:restarted-experiment-differs-from-the-joint-run:%s:%s" % (kind, f),
                                      {"experiment": e["final"], "position": i, "detail": det,
                                       "unmapped": [x.get("unmapped", 0) for x in exps]}, case)
                ctx.cls("restarted from %d saves" % len(exps))
        # combined tables
        import pandas as pd
        for level in ("gene", "transcript"):
            for kind, col in (("counts", "count"), ("tpm", "TPM")):
                cp = os.path.join(joint_out, "combined_%s_%s.tsv" % (level, kind))
                if not os.path.exists(cp):
                    ctx.violation("C10:combined-table-missing", {"file": os.path.basename(cp)}, case)
                    continue
                # read like the individual tables: tab-separated text, a double quote is a character like any other
                import csv
                comb = pd.read_csv(cp, sep="\t", dtype={"#feature_id": str}, keep_default_na=False, na_values=[""],
                                   quoting=csv.QUOTE_NONE)
                names = [e["final"] for e in exps]
                if list(comb.columns) != ["#feature_id"] + names:
                    ctx.violation("C10:combined-table-columns-differ", {"file": os.path.basename(cp),
                                                                       "columns": list(comb.columns),
                                                                       "expected": names}, case)
                    continue
                for e in exps:
                    ind = parse.counts_simple(os.path.join(joint_out, e["final"], "%s.%s_%s.tsv" % (e["final"], level,
                                                                                                     kind)))
                    if kind == "counts":
                        ind = {k: v for k, v in ind.items() if not k.startswith("__")}
                    got = {}
                    for f_, v_ in zip(comb["#feature_id"], comb[e["final"]]):
                        if v_ == v_:
                            got[f_] = float(v_)
                    if set(got) != set(ind) or any(abs(got[k] - ind[k]) > 1e-6 for k in ind):
                        bad = [k for k in set(got) | set(ind) if abs(got.get(k, -1) - ind.get(k, -1)) > 1e-6][:3]
                        ctx.violation("C10:combined-column-differs-from-experiment-table",
                                      {"file": os.path.basename(cp), "experiment": e["final"], "features": bad,
                                       "combined": [got.get(k) for k in bad], "individual": [ind.get(k) for k in bad]},
                                      case)
        ctx.cls("threads=%d" % sc["threads"], "input=" + sc["input_kind"], "experiments=%d" % len(exps),
                "replicas" if any(e["nfiles"] > 1 for e in exps) else "no_replicas")
        ks = list(known_by_exp.values())
        if len(ks) >= 2 and any(a & b for i, a in enumerate(ks) for b in ks[i + 1:]):
            ctx.mark_nontrivial(case_hash(case))
            ctx.sample(pipeline.summarize(sc, {"experiments": [{k: v for k, v in e.items() if k not in ("idx", "assign")}
                                                               for e in exps], "threads": sc["threads"],
                                               "input": sc["input_kind"]}), limit=2)
    finally:
        import shutil
        shutil.rmtree(d, ignore_errors=True)


def stages(tier):
    q = tier == "quick"
    return [Stage("experiments", "hyp", evaluate, n=64 if q else 600, strategy=scenarios)]
