"""C06 - outputs do not depend on threads, hash seed, memory mode or repetition."""
import os

from hypothesis import strategies as st

from vlib import compare, pipeline, scenario as S, reads as R, parse
from vlib.shard import Stage, case_hash

ID = "C06"
LEVEL = "exploration"
TECHNIQUE = "property-based testing (Hypothesis): differential runs of the real CLI in fresh interpreters that differ " \
            "in --threads, PYTHONHASHSEED, --high_memory, --keep_tmp or nothing; plus a harness-owned process pool " \
            "(generated assignment of per-chromosome tasks to persistent worker processes) compared with the " \
            "single-process run; byte-level comparison of all outputs"
RULE = ("Hypothesis-generated scenarios with 2-6 chromosomes, read groups (tag), multi-mappers on paralogous loci, "
        "overlapping genes sharing exons, novel isoforms; a configuration pair (A, B) differing in any of --threads "
        "{1,2,3,5,16}, PYTHONHASHSEED (drawn 32-bit values), --high_memory, --keep_tmp, or plain repetition; both "
        "runs are separate `python isoquant.py` processes. Non-trivial = pair differs in >= 1 dimension and the "
        "outputs contain >= 1 novel transcript and >= 2 groups; distinct by scenario hash. Stage deep_pairs: loci cut into >= 2 processing regions "
        "(templates of C05/C03) run with and without --high_memory (plus threads / hash seed); every pair is "
        "non-trivial. Stage workers: the same "
        "scenarios, 2-3 generated task->worker assignments per pool (all on one worker, all distinct, pairs, random; "
        "2-16 workers) executed by vlib/schedpool.py in place of ProcessPoolExecutor, each compared with --threads 1; "
        "non-trivial = two assignments differ in which chromosomes share a worker and >= 1 novel transcript.")
ASSUMPTIONS = ["only the '# Command line' / '# IsoQuant version' header lines are run-specific",
               "gzipped outputs are compared after decompression (gzip headers carry a time stamp)"]


@st.composite
def scenarios(draw):
    src = S.DrawSrc(draw)
    sc = S.gen_discovery(src, n_chroms=(2, 5), genes_per_chrom=(1, 2), novel_per_gene=(0, 2), reads_known=(1, 4),
                         reads_novel=(3, 6), intergenic_p=0.4, max_exons=5, exact=src.bool(0.5), delta=4,
                         overlap_p=0.4, noise_p=src.choice([0.0, 0.2]))
    sc.pop("truth", None)
    # genes sharing exons (multi-gene features)
    for g in list(sc["genes"]):
        if src.bool(0.3):
            t = src.choice(g["transcripts"])
            if len(t["exons"]) >= 2:
                sc["genes"].append({"id": g["id"] + "b", "chr": g["chr"], "strand": g["strand"], "canon": "canon",
                                    "transcripts": [{"id": t["id"] + "b",
                                                     "exons": [list(e) for e in t["exons"][:-1]] +
                                                     [[t["exons"][-1][0], t["exons"][-1][1] + 77]]}]})
    if src.bool(0.6):
        g = src.choice([g for g in sc["genes"]])
        p = S.add_paralog(src, sc, g)
        k = 0
        for r in list(sc["reads"]):
            if r["c"] == g["chr"] and src.bool(0.4):
                blocks = R.cigar_blocks(r["p"], r["cg"])
                gs = min(t["exons"][0][0] for t in g["transcripts"])
                ge = max(t["exons"][-1][1] for t in g["transcripts"])
                if gs <= blocks[0][0] and blocks[-1][1] <= ge:
                    sc["reads"].append(S.shift_read(r, p["chr"], p["offset"], flag_or=256, mapq=0))
    if src.bool(0.35):
        cand = [g for g in sc["genes"] if not g["id"].endswith("b") and not g.get("paralog_of")]
        if cand:
            S.add_mirror_strand_clone(src, sc, src.choice(cand))
    # reads with a second, worse alignment inside an intron of some gene (a secondary record with MAPQ >= 5 - below
    # that alignments matching no isoform are dropped): the alignment that is kept may match several isoforms
    introns = [(g["chr"], t["exons"][i][1] + 1, t["exons"][i + 1][0] - 1) for g, t in S.transcripts_of(sc)
               for i in range(len(t["exons"]) - 1) if t["exons"][i + 1][0] - t["exons"][i][1] > 90]
    genic = [r for r in sc["reads"] if r.get("c") is not None and not r["f"] & 256]
    for _ in range(src.int(0, 4)):
        if not genic or not introns:
            break
        r = src.choice(genic)
        c, a, b = src.choice(introns)
        x = src.int(a + 5, b - 65)
        sc["reads"].append(R.make_read(r["n"], c, [[x, min(b - 5, x + src.int(55, 200))]], flag=256 | (r["f"] & 16),
                                       mapq=src.choice([10, 30])))
    grouped = src.bool(0.7)
    if grouped:
        for r in sc["reads"]:
            if src.bool(0.9):
                r["tags"] = {"RG": src.choice(["b", "a", "zeta", "Alpha", "10", "9"])}
    lens = {c[0]: c[1] for c in sc["chroms"]}
    sc["reads"] = [r for r in sc["reads"] if R.cigar_blocks(r["p"], r["cg"])[-1][1] + 45 < lens[r["c"]]]
    opts = ["--data_type", src.choice(["nanopore", "pacbio_ccs"])]
    if grouped:
        opts += ["--read_group", "tag:RG"]
    if src.bool(0.5):
        opts += ["--no_gzip"]
    if src.bool(0.5):
        opts += ["--count_exons"]
    if src.bool(0.3):
        opts += ["--sqanti_output"]
    if src.bool(0.3):
        opts += ["--check_canonical"]
    if src.bool(0.3):
        opts += ["--model_construction_strategy", src.choice(["all", "sensitive_pacbio", "default_ont"])]
    if src.bool(0.3):
        opts += ["--transcript_quantification", "with_ambiguous", "--gene_quantification", "all"]
    sc["opts"] = opts

    def config():
        return {"threads": src.choice([1, 2, 3, 5, 16]), "hashseed": src.int(0, 4294967295),
                "high_memory": src.bool(0.3), "keep_tmp": src.bool(0.2)}
    a = config()
    b = dict(a)
    dims = src.shuffle(["threads", "hashseed", "high_memory", "keep_tmp", "repeat"])[:src.int(1, 3)]
    for d in dims:
        if d == "threads":
            b["threads"] = src.choice([t for t in [1, 2, 3, 5, 16] if t != a["threads"]])
        elif d == "hashseed":
            b["hashseed"] = src.int(0, 4294967295)
        elif d in ("high_memory", "keep_tmp"):
            b[d] = not a[d]
    sc["A"], sc["B"], sc["dims"] = a, b, dims
    sc["grouped"] = grouped
    return sc


def extra(cfg):
    e = ["--threads", str(cfg["threads"])]
    if cfg["high_memory"]:
        e.append("--high_memory")
    if cfg["keep_tmp"]:
        e.append("--keep_tmp")
    return e


def evaluate(case, ctx):
    sc = case
    ra = pipeline.run_case(sc, ctx, extra=extra(sc["A"]), runner="spawn", hashseed=sc["A"]["hashseed"])
    try:
        rb = pipeline.run_case(sc, ctx, extra=extra(sc["B"]), runner="spawn", hashseed=sc["B"]["hashseed"], d=ra.dir,
                               paths=ra.paths, out_name="outB", home=os.path.join(ra.dir, "homeB"))
        if ra.code != 0 or rb.code != 0:
            if ra.code != rb.code:
                ctx.violation("C06:one-configuration-fails:" + (ra if ra.code else rb).crash_signature().split("@")[0],
                              {"A": sc["A"], "B": sc["B"], "exit": [ra.code, rb.code],
                               "log": (ra if ra.code else rb).log_tail(10)}, case)
            else:
                ctx.note("both_failed:" + ra.crash_signature())
            return
        diffs = compare.diff_dirs(ra.out, "OUT", rb.out, "OUT")
        dimkey = "+".join(sorted(d for d in sc["dims"] if sc["A"].get(d) != sc["B"].get(d))) or "repeat"
        for kind, f, det in diffs:
            if kind == "content" and f.split("_")[0] in ("exon", "intron") and det["first"] and det["second"]:
                fa, fb = det["first"].split("\t"), det["second"].split("\t")
                if len(fa) == len(fb) > 5 and fa[:5] == fb[:5] and fa[6:] == fb[6:] and \
                        sorted(fa[5].split(",")) == sorted(fb[5].split(",")):
                    ctx.violation("C06:gene-id-order-of-shared-feature-differs", {"file": f, "detail": det,
                                                                                  "A": sc["A"], "B": sc["B"]}, case)
                    continue
            ctx.violation("C06:output-differs:%s:%s" % (f, dimkey),
                          {"kind": kind, "file": f, "detail": det, "A": sc["A"], "B": sc["B"]}, case)
        ctx.cls(*["dim=" + d for d in sc["dims"]])
        files = compare.file_map(ra.out, "OUT")
        novel = 0
        if "transcript_models.gtf" in files:
            novel = sum(1 for l in parse.data_lines(files["transcript_models.gtf"])
                        if "\ttranscript\t" in l and ('nic";' in l))
        groups = len(set((r.get("tags") or {}).get("RG", "NA") for r in sc["reads"])) if sc["grouped"] else 1
        if sc.get("deep"):
            ctx.cls("template=" + sc["template"])
            ctx.mark_nontrivial(case_hash(case))
        elif novel and groups >= 2:
            ctx.mark_nontrivial(case_hash(case))
            ctx.sample(pipeline.summarize(sc, {"A": sc["A"], "B": sc["B"], "novel": novel, "groups": groups}), limit=2)
    finally:
        ra.cleanup()


@st.composite
def deep_scenarios(draw):
    """Loci that are cut into several processing regions (pile-ups, plateaus, long sparse genes, see C05); the memory
    modes take different code paths for exactly these (region fetch from BAM vs in-memory alignment index)."""
    rnd = draw(st.randoms(use_true_random=True))
    src = S.RndSrc(rnd)
    annotated = draw(st.sampled_from([True, True, False]))
    tmpl = draw(st.sampled_from(["pileups", "plateau", "long_gene", "straddle"]))
    if tmpl == "plateau":
        sc = S.gen_plateau_locus(src, with_annotation=annotated)
    elif tmpl == "pileups":
        sc = S.gen_deep_locus(src, with_annotation=annotated, max_reads=600)
    else:
        sc = S.gen_long_gene_locus(src, with_annotation=annotated, straddle=tmpl == "straddle")
    sc["template"] = tmpl
    opts = ["--data_type", draw(st.sampled_from(["nanopore", "pacbio_ccs"])), "--no_gzip"]
    if draw(st.booleans()):
        opts += ["--count_exons"]
    if annotated and draw(st.booleans()):
        opts += ["--sqanti_output"]
    sc["opts"] = opts
    a = {"threads": draw(st.sampled_from([1, 2, 3])), "hashseed": draw(st.integers(0, 4294967295)),
         "high_memory": draw(st.booleans()), "keep_tmp": False}
    b = dict(a)
    b["high_memory"] = not a["high_memory"]
    dims = ["high_memory"]
    if draw(st.booleans()):
        b["threads"] = draw(st.sampled_from([t for t in [1, 2, 3] if t != a["threads"]]))
        dims.append("threads")
    if draw(st.booleans()):
        b["hashseed"] = draw(st.integers(0, 4294967295))
        dims.append("hashseed")
    sc["A"], sc["B"], sc["dims"] = a, b, dims
    sc["grouped"] = False
    sc["deep"] = True
    return sc


@st.composite
def worker_scenarios(draw):
    """The same scenarios, with generated assignments of the per-chromosome tasks to worker processes."""
    sc = draw(scenarios())
    for k in ("A", "B", "dims"):
        sc.pop(k, None)
    src = S.DrawSrc(draw)
    n = len(sc["chroms"])
    plans = []
    for _ in range(src.int(2, 3)):
        t = src.choice([2, 3, 5, 16])
        kind = src.choice(["one", "distinct", "random", "random", "pairs"])
        pools = []
        for _p in range(2):
            if kind == "one":
                pools.append([0] * n)
            elif kind == "distinct":
                pools.append(src.shuffle(list(range(n))))
            elif kind == "pairs":
                pools.append([i // 2 for i in src.shuffle(list(range(n)))])
            else:
                pools.append([src.int(0, t - 1) for _i in range(n)])
        plans.append({"threads": t, "assign": pools, "high_memory": src.bool(0.25)})
    sc["plans"] = plans
    return sc


def colocation(plan, n):
    """set of task pairs that share a worker, per pool"""
    out = set()
    for j, pool in enumerate(plan["assign"]):
        w = [pool[i % len(pool)] % plan["threads"] for i in range(n)]
        out |= {(j, a, b) for a in range(n) for b in range(a + 1, n) if w[a] == w[b]}
    return out


def evaluate_workers(case, ctx):
    from vlib import schedpool
    sc = case
    ref = pipeline.run_case(sc, ctx, extra=["--threads", "1"])
    try:
        if ref.code != 0:
            ctx.note("reference_failed:" + ref.crash_signature())
        n = len(sc["chroms"])
        colos = []
        for k, plan in enumerate(sc["plans"]):
            ex = ["--threads", str(plan["threads"])] + (["--high_memory"] if plan.get("high_memory") else [])
            trace = os.path.join(ref.dir, "trace%d.txt" % k)
            r = pipeline.run_case(sc, ctx, extra=ex, d=ref.dir, paths=ref.paths, out_name="out%d" % k,
                                  home=os.path.join(ref.dir, "home%d" % k),
                                  pre=lambda plan=plan, trace=trace: schedpool.install(plan["assign"], trace))
            if r.code != 0 or ref.code != 0:
                if r.code != ref.code:
                    ctx.violation("C06:one-worker-assignment-fails:" + (r if r.code else ref).crash_signature().split("@")[0],
                                  {"plan": plan, "exit": [ref.code, r.code], "log": (r if r.code else ref).log_tail(10)},
                                  case)
                continue
            if not os.path.exists(trace) or len(open(trace).readlines()) < 2:
                ctx.harness_errors.append("scheduled pool was not used twice by the run")
                continue
            colos.append(colocation(plan, n))
            for kind, f, det in compare.diff_dirs(ref.out, "OUT", r.out, "OUT"):
                ctx.violation("C06:output-depends-on-worker-assignment:%s" % f,
                              {"kind": kind, "file": f, "detail": det, "plan": plan,
                               "trace": open(trace).read().splitlines()}, case)
            ctx.cls("workers=%d" % len(set(w % plan["threads"] for w in plan["assign"][1][:n])))
        if ref.code == 0 and len(colos) >= 2 and any(a != b for a in colos for b in colos):
            files = compare.file_map(ref.out, "OUT")
            novel = 0
            if "transcript_models.gtf" in files:
                novel = sum(1 for l in parse.data_lines(files["transcript_models.gtf"])
                            if "\ttranscript\t" in l and ('nic";' in l))
            if novel:
                ctx.mark_nontrivial(case_hash(case))
                ctx.sample(pipeline.summarize(sc, {"plans": sc["plans"], "novel": novel}), limit=2)
    finally:
        ref.cleanup()


def stages(tier):
    q = tier == "quick"
    return [Stage("pairs", "hyp", evaluate, n=64 if q else 1200, strategy=scenarios),
            Stage("deep_pairs", "hyp", evaluate, n=48 if q else 600, strategy=deep_scenarios),
            Stage("workers", "hyp", evaluate_workers, n=96 if q else 1500, strategy=worker_scenarios)]
