"""C20 - concurrent runs under one user account do not interfere."""
import json
import os
import shutil
import sys
import threading

from hypothesis import strategies as st

from vlib import REPO, build, compare, pipeline, run, scenario as S
from vlib.shard import Stage, case_hash

ID = "C20"
LEVEL = "exploration"
TECHNIQUE = "property-based testing over schedules: N logical processes (threads) execute the real per-user cache " \
            "code (set_configs_directory, convert_gtf_to_db, read_mapper.store_*/find_stored_*) under a cooperative " \
            "scheduler owned by the harness that switches at every file-system step; the schedule is a " \
            "Hypothesis-drawn sequence; plus a smoke stage with real simultaneous processes"
RULE = ("Hypothesis-drawn schedules for 2-4 (thorough: 2-8) logical processes sharing one HOME, each with its own output folder and a "
        "tiny GTF (equal or different annotations, equal or different GTF paths); context switches at open(r), "
        "open(w) (= truncate), every write chunk of json.dump, read, close and around the database conversion; two "
        "visibility models (data visible at close / after every write). Non-trivial = a process opened a config "
        "file between another process's truncate and close, or two read-modify-write cycles overlapped; distinct by "
        "schedule hash. Stage reference_index does the same for 2-4 (2-8) logical processes that open one shared "
        "reference (bgzip-compressed or plain; no index / .fai only / both / both outdated next to it) through "
        "open_indexed_fasta and the workers' direct Fasta(): switches at every open/read/write/close/rename of "
        "<reference>.fai/.gzi; every process must read the true sequences; non-trivial = an index file was opened "
        "while another process was writing one. Stage mapper_cache runs the real index/alignment cache logic of "
        "src/read_mapper.py for 2-4 (2-8) logical processes with generated options (data type, aligner, --stranded, "
        "reads, reference, junction file) and 0-2 finished earlier runs, around stand-ins for the two external "
        "conversions that record the options they ran under: what a run uses must have been made under its own "
        "options; non-trivial = a run used a file made by another run. The smoke stage starts 2-6 real `isoquant.py` processes together and compares each result "
        "with a solo run.")
ASSUMPTIONS = ["the channels between concurrent runs are the files under $HOME/.config/IsoQuant and the index files "
               "(.fai, .gzi) next to a shared reference",
               "CPython buffered text I/O: open(...,'w') truncates at once, small JSON becomes visible at close; the "
               "second model flushes after every write call (configs larger than the buffer)",
               "kernel-level atomicity of a single write(2) / rename(2) is trusted"]

_mods = None


def mods():
    global _mods
    if _mods is None:
        if REPO not in sys.path:
            sys.path.insert(0, REPO)
        import isoquant
        import src.gtf2db as g
        import src.read_mapper as rm
        _mods = (isoquant, g, rm)
    return _mods


class Abort(Exception):
    pass


class Sched:
    def __init__(self, n, choices):
        self.cv = threading.Condition()
        self.alive = set(range(n))
        self.choices = list(choices)
        self.pos = 0
        self.rr = 0
        self.current = None
        self.trace = []
        self.steps = 0
        self.dead = False

    def pick(self):
        runnable = sorted(self.alive)
        if not runnable:
            return None
        if self.pos < len(self.choices):
            c = runnable[self.choices[self.pos] % len(runnable)]
            self.pos += 1
        else:
            c = runnable[self.rr % len(runnable)]
            self.rr += 1
        return c

    def start_all(self):
        with self.cv:
            self.current = self.pick()
            self.cv.notify_all()

    def wait_turn(self, tid):
        with self.cv:
            while self.current != tid:
                if self.dead:
                    raise Abort()
                self.cv.wait(timeout=30)
                if self.current != tid and self.dead:
                    raise Abort()

    def yield_(self, tid, what):
        with self.cv:
            self.steps += 1
            self.trace.append((tid, what))
            if self.steps > 20000:
                self.dead = True
                self.cv.notify_all()
                raise Abort()
            self.current = self.pick()
            self.cv.notify_all()
            while self.current != tid:
                if self.dead:
                    raise Abort()
                self.cv.wait(timeout=30)

    def finish(self, tid):
        with self.cv:
            self.alive.discard(tid)
            self.current = self.pick()
            self.cv.notify_all()


class FileProxy:
    def __init__(self, f, sched, tid, path, mode, flush_each):
        self.f, self.sched, self.tid, self.path, self.mode, self.flush_each = f, sched, tid, path, mode, flush_each

    def write(self, s):
        self.sched.yield_(self.tid, "write:" + os.path.basename(self.path))
        r = self.f.write(s)
        if self.flush_each:
            self.f.flush()
        return r

    def read(self, *a):
        self.sched.yield_(self.tid, "read:" + os.path.basename(self.path))
        return self.f.read(*a)

    def close(self):
        self.sched.yield_(self.tid, "close:" + os.path.basename(self.path))
        return self.f.close()

    def __enter__(self):
        return self

    def __exit__(self, *a):
        self.close()
        return False

    def __iter__(self):
        return iter(self.f)

    def __getattr__(self, k):
        return getattr(self.f, k)


def run_schedule(case, ctx, workdir):
    """returns list of per-process outcomes"""
    isoquant, g, rm = mods()
    n = case["n"]
    sched = Sched(n, case["schedule"])
    tls = threading.local()
    home = os.path.join(workdir, "home")
    os.makedirs(home, exist_ok=True)
    real_open = open
    tid_of = {}

    def proxy_open(path, mode="r", *a, **kw):
        tid = tid_of.get(threading.get_ident())
        p = str(path)
        if tid is None or not p.endswith(".json"):
            return real_open(path, mode, *a, **kw)
        sched.yield_(tid, "open:%s:%s" % (mode, os.path.basename(p)))
        f = real_open(path, mode, *a, **kw)
        return FileProxy(f, sched, tid, p, mode, case["flush_each"])

    class Args:
        pass
    outcomes = [None] * n
    gtfs = case["gtfs"]
    # materialise GTFs: process i uses file gtf_path[i] with content index content[i]
    paths = {}
    for k_ in sorted(set(case["gtf_file"]) | set(case.get("history", []))):
        # the annotations have the same file name in different folders (v0/ann.gtf, v1/ann.gtf, ...)
        gp = os.path.join(workdir, "v%d" % k_, "ann.gtf")
        os.makedirs(os.path.dirname(gp), exist_ok=True)
        with real_open(gp, "w") as f:
            f.write(gtfs[k_])
        paths[gp] = k_

    def make_args(out, k_):
        args = Args()
        os.makedirs(out, exist_ok=True)
        args.output = out
        args.genedb = os.path.join(workdir, "v%d" % k_, "ann.gtf")
        args.genedb_filename = os.path.join(out, "ann.db")
        args.clean_start = False
        args.complete_genedb = True
        args.gtf_check = True
        return args

    def body(i):
        tid_of[threading.get_ident()] = i
        try:
            sched.wait_turn(i)
            reuse = (case.get("reuse") or [None] * n)[i]
            out = os.path.join(workdir, "hist_%d" % reuse) if reuse is not None else \
                os.path.join(workdir, "out_%d" % i)
            args = make_args(out, case["gtf_file"][i])
            isoquant.set_configs_directory(args)
            sched.yield_(i, "before-conversion")
            db = g.convert_gtf_to_db(args)
            sched.yield_(i, "after-conversion")
            # the run now uses `db`: it must describe this process's own annotation
            import gffutils
            d = gffutils.FeatureDB(db)
            got = sorted(t.id for t in d.features_of_type("transcript"))
            outcomes[i] = {"ok": True, "db": db, "transcripts": got,
                           "foreign_db": not os.path.abspath(db).startswith(os.path.abspath(out) + os.sep)}
        except Abort:
            outcomes[i] = {"ok": False, "error": "Abort", "msg": "scheduler aborted"}
        except BaseException as e:
            import traceback
            fr = traceback.extract_tb(e.__traceback__)
            where = [f for f in fr if "/src/" in f.filename or f.filename.endswith("isoquant.py")]
            outcomes[i] = {"ok": False, "error": type(e).__name__, "msg": str(e)[:200],
                           "where": "%s:%s" % (os.path.basename(where[-1].filename), where[-1].name) if where else "?"}
        finally:
            sched.finish(i)

    real_replace = os.replace

    def replace_hook(src, dst, *a, **kw):
        tid = tid_of.get(threading.get_ident())
        if tid is not None and str(dst).endswith(".json"):
            sched.yield_(tid, "replace:" + os.path.basename(str(dst)))
            r = real_replace(src, dst, *a, **kw)
            # the new name is visible now, whatever the writer still holds in its buffers
            sched.yield_(tid, "replaced:" + os.path.basename(str(dst)))
            return r
        return real_replace(src, dst, *a, **kw)
    os.replace = replace_hook
    old_env = os.environ.get("HOME")
    os.environ["HOME"] = home
    old = (getattr(g, "open", None), getattr(isoquant, "open", None), getattr(rm, "open", None))
    g.open = proxy_open
    isoquant.open = proxy_open
    rm.open = proxy_open
    import logging
    logging.getLogger("IsoQuant").setLevel(logging.CRITICAL)
    try:
        # earlier, finished runs under the same HOME (they fill the cache); not scheduled
        hf = case.get("history_folder") or list(range(len(case.get("history", []))))
        for j, k_ in enumerate(case.get("history", [])):
            hargs = make_args(os.path.join(workdir, "hist_%d" % hf[j]), k_)
            isoquant.set_configs_directory(hargs)
            g.convert_gtf_to_db(hargs)
        threads = [threading.Thread(target=body, args=(i,), daemon=True) for i in range(n)]
        for t in threads:
            t.start()
        sched.start_all()
        for t in threads:
            t.join(timeout=120)
        if any(t.is_alive() for t in threads):
            sched.dead = True
            with sched.cv:
                sched.cv.notify_all()
            ctx.harness_errors.append("schedule harness: thread did not finish")
    finally:
        for m, o in zip((g, isoquant, rm), old):
            if o is None:
                try:
                    del m.open
                except AttributeError:
                    pass
            else:
                m.open = o
        os.replace = real_replace
        if old_env is not None:
            os.environ["HOME"] = old_env
    return outcomes, sched.trace


def tiny_gtf(k):
    """k-th tiny annotation: one gene with k+1 transcripts"""
    lines = ['chr1\tv\tgene\t100\t900\t.\t+\t.\tgene_id "G%d";' % k]
    for j in range(k + 1):
        tid = "A%d_T%d" % (k, j)
        lines.append('chr1\tv\ttranscript\t100\t900\t.\t+\t.\tgene_id "G%d"; transcript_id "%s";' % (k, tid))
        lines.append('chr1\tv\texon\t100\t300\t.\t+\t.\tgene_id "G%d"; transcript_id "%s";' % (k, tid))
        lines.append('chr1\tv\texon\t%d\t900\t.\t+\t.\tgene_id "G%d"; transcript_id "%s";' % (600 + 10 * j, k, tid))
    return "\n".join(lines) + "\n"


@st.composite
def schedules(draw, max_n=4):
    n = draw(st.integers(2, max_n))
    n_ann = draw(st.integers(1, n))
    gtf_file = [draw(st.integers(0, n_ann - 1)) for _ in range(n)]
    sched = draw(st.lists(st.integers(0, max_n - 1), min_size=0, max_size=120 if max_n <= 4 else 240))
    # history: 0-2 finished runs; one concurrent run may write into the folder of a finished run (its own output
    # folder, separate from the folders of the other concurrent runs)
    history = [draw(st.integers(0, n_ann - 1)) for _ in range(draw(st.sampled_from([0, 0, 1, 2, 3])))]
    # a finished run may have written into the folder of an earlier finished run (another annotation of the same file
    # name): the database that the cache entry of the earlier run points to was rewritten long ago
    history_folder = [j if j == 0 or draw(st.integers(0, 2)) else draw(st.integers(0, j - 1))
                      for j in range(len(history))]
    reuse = [None] * n
    free = list(range(len(history)))
    for i in range(n):
        if free and draw(st.integers(0, 2)) == 0:
            reuse[i] = free.pop(draw(st.integers(0, len(free) - 1)))
    return {"n": n, "gtfs": [tiny_gtf(k) for k in range(n_ann)], "gtf_file": gtf_file, "schedule": sched,
            "flush_each": draw(st.booleans()), "history": history, "reuse": reuse, "history_folder": history_folder}


def eval_schedule(case, ctx):
    d = ctx.scratch()
    try:
        outcomes, trace = run_schedule(case, ctx, d)
        expected = {}
        for i in range(case["n"]):
            k = case["gtf_file"][i]
            expected[i] = sorted("A%d_T%d" % (k, j) for j in range(k + 1))
        # non-triviality: while one process is inside a read-modify-write cycle on a config file (from its open for
        # reading, or its truncating open, up to the close / rename that publishes the new content) another process
        # touches the same file
        cycle = {}
        overlap = False
        for tid, what in trace:
            p = what.split(":")
            if p[0] == "open":
                fname = p[2]
                if any(f == fname and t != tid for (t, f) in cycle):
                    overlap = True
                cycle[(tid, fname)] = True
            elif p[0] == "replace":
                if any(f == p[1] and t != tid for (t, f) in cycle):
                    overlap = True
                cycle.pop((tid, p[1]), None)
            elif p[0] == "close":
                # a close after a write publishes (pre-fix code path); a close after a read keeps the cycle open
                pass
            elif p[0] == "after-conversion":
                for key in [k for k in cycle if k[0] == tid]:
                    cycle.pop(key, None)
        if overlap:
            ctx.mark_nontrivial(case_hash({"s": case["schedule"], "n": case["n"], "g": case["gtf_file"],
                                           "f": case["flush_each"]}))
            ctx.sample({"n": case["n"], "gtf_file": case["gtf_file"], "flush_each": case["flush_each"],
                        "schedule_head": case["schedule"][:30], "trace_head": [list(x) for x in trace[:25]]}, limit=3)
        ctx.cls("n=%d" % case["n"], "overlap" if overlap else "no_overlap",
                "flush_each" if case["flush_each"] else "visible_at_close")
        for i, o in enumerate(outcomes):
            if o is None:
                continue
            if not o["ok"]:
                if o["error"] == "Abort":
                    continue
                ctx.violation("C20:concurrent-run-fails:%s:%s" % (o["error"], o.get("where", "?")),
                              {"process": i, "error": o["error"], "msg": o["msg"], "n": case["n"],
                               "trace_tail": [list(x) for x in trace[-12:]]}, case)
            elif o["transcripts"] != expected[i]:
                suffix = ""
                if o.get("foreign_db"):
                    # known finding: the database in another run's folder is rewritten *while* this run relies on it
                    # (between its cache lookup and its use).  A rewrite that was finished before this run even looked
                    # the entry up is something else: the stored modification time no longer matches and the entry
                    # must be rejected.
                    folder = os.path.dirname(os.path.abspath(o["db"]))
                    reuse = case.get("reuse") or [None] * case["n"]
                    writers = [j for j in range(case["n"]) if j != i and reuse[j] is not None and
                               os.path.basename(folder) == "hist_%d" % reuse[j]]
                    pos = {}
                    for idx_, (t_, w_) in enumerate(trace):
                        if w_ in ("before-conversion", "after-conversion"):
                            pos[(t_, w_)] = idx_
                    mine = pos.get((i, "before-conversion"), -1)
                    hf = case.get("history_folder") or []
                    rewritten_in_history = any(f_ != j_ and os.path.basename(folder) == "hist_%d" % f_
                                               for j_, f_ in enumerate(hf))
                    finished_before = (writers or rewritten_in_history) and all(
                        pos.get((j, "after-conversion"), 10 ** 9) < mine for j in writers)
                    suffix = ":database-in-another-runs-output-folder" + (
                        ":rewritten-before-this-run-looked-it-up" if finished_before else "")
                ctx.violation("C20:run-uses-conversion-of-another-annotation" + suffix,
                              {"process": i, "db": o["db"], "got": o["transcripts"], "expected": expected[i]}, case)
    finally:
        shutil.rmtree(d, ignore_errors=True)


# ------------------------------------------------------------------------- index files next to a shared reference

def _reference_text(n_contigs, seed):
    import random
    rnd = random.Random(seed)           # content only, not a choice of the search: derived from the drawn case
    out, truth = [], {}
    for i in range(n_contigs):
        name = "ctg%d" % i
        seq = "".join(rnd.choice("ACGT") for _ in range(70 * (3 + i) + 13))
        truth[name] = seq
        out.append(">" + name)
        out.extend(seq[j:j + 70] for j in range(0, len(seq), 70))
    return "\n".join(out) + "\n", truth


@st.composite
def index_schedules(draw, max_n=4):
    n = draw(st.integers(2, max_n))
    return {"n": n, "schedule": draw(st.lists(st.integers(0, max_n - 1), min_size=0, max_size=160)),
            "flush_each": draw(st.booleans()), "compressed": draw(st.sampled_from([True, True, False])),
            # what earlier runs (or the user) left next to the reference
            "initial": draw(st.sampled_from(["none", "none", "fai_only", "both", "stale_both"])),
            # runs in containers (each in its own PID namespace, the reference on a shared volume) all have the same pid
            "same_pid": draw(st.sampled_from([False, False, True])),
            "n_contigs": draw(st.integers(1, 3)), "content": draw(st.integers(0, 5))}


def eval_index_schedule(case, ctx):
    """N logical processes open the same (bgzip-compressed or plain) reference through the real
    open_indexed_fasta + the direct Fasta() call of the workers; every file operation on <reference>.fai / .gzi is a
    context switch."""
    isoquant, g, rm = mods()
    import pyfaidx
    import pysam
    import src.dataset_processor as dp
    d = ctx.scratch()
    n = case["n"]
    real_open = open
    real_replace = os.replace
    real_getpid = os.getpid
    tid_of = {}
    try:
        text, truth = _reference_text(case["n_contigs"], case["content"])
        plain = os.path.join(d, "genome.fa")
        with real_open(plain, "w") as f:
            f.write(text)
        ref = plain
        if case["compressed"]:
            ref = plain + ".gz"
            pysam.tabix_compress(plain, ref, force=True)
            os.remove(plain)
        fai = ref + ".fai"
        if case["initial"] != "none":
            pyfaidx.Fasta(ref)
            if case["initial"] == "fai_only" and os.path.exists(ref + ".gzi"):
                os.remove(ref + ".gzi")
            if case["initial"] == "stale_both":
                for x in (fai, ref + ".gzi"):
                    if os.path.exists(x):
                        os.utime(x, (1, 1))
        sched = Sched(n, case["schedule"])
        outcomes = [None] * n

        def watched(p):
            return ".fai" in os.path.basename(p) or ".gzi" in os.path.basename(p)

        def proxy_open(path, mode="r", *a, **kw):
            tid = tid_of.get(threading.get_ident())
            p = str(path)
            if tid is None or not watched(p):
                return real_open(path, mode, *a, **kw)
            sched.yield_(tid, "open:%s:%s" % (mode, os.path.basename(p)))
            return FileProxy(real_open(path, mode, *a, **kw), sched, tid, p, mode, case["flush_each"])

        def replace_hook(src, dst, *a, **kw):
            tid = tid_of.get(threading.get_ident())
            if tid is not None and watched(str(dst)):
                sched.yield_(tid, "replace:" + os.path.basename(str(dst)))
                r = real_replace(src, dst, *a, **kw)
                sched.yield_(tid, "replaced:" + os.path.basename(str(dst)))
                return r
            return real_replace(src, dst, *a, **kw)

        def body(i):
            tid_of[threading.get_ident()] = i
            try:
                sched.wait_turn(i)
                fa = dp.open_indexed_fasta(ref, fai)
                got = {k: str(fa[k][:]) for k in fa.keys()}
                sched.yield_(i, "main-opened")
                # a worker process of the run opens the reference directly (collect_reads_in_parallel)
                fa2 = pyfaidx.Fasta(ref, indexname=fai)
                got2 = {k: str(fa2[k][:]) for k in fa2.keys()}
                outcomes[i] = {"ok": True, "main": got == truth, "worker": got2 == truth,
                               "contigs": [sorted(got), sorted(got2)]}
            except Abort:
                outcomes[i] = {"ok": False, "error": "Abort", "msg": ""}
            except BaseException as e:
                outcomes[i] = {"ok": False, "error": type(e).__name__, "msg": str(e)[:200]}
            finally:
                sched.finish(i)

        os.replace = replace_hook
        os.getpid = lambda: (1 if case.get("same_pid") else 100000 + tid_of.get(threading.get_ident(), 0)) \
            if threading.get_ident() in tid_of else real_getpid()
        old_open = getattr(pyfaidx, "open", None)
        pyfaidx.open = proxy_open
        try:
            threads = [threading.Thread(target=body, args=(i,), daemon=True) for i in range(n)]
            for t in threads:
                t.start()
            sched.start_all()
            for t in threads:
                t.join(timeout=120)
            if any(t.is_alive() for t in threads):
                sched.dead = True
                with sched.cv:
                    sched.cv.notify_all()
                ctx.harness_errors.append("index schedule harness: thread did not finish")
        finally:
            os.replace = real_replace
            os.getpid = real_getpid
            if old_open is None:
                del pyfaidx.open
            else:
                pyfaidx.open = old_open
        trace = sched.trace
        writers = set(t for t, w in trace if w.startswith("open:w"))
        # non-trivial: a process opened an index file while another one was between its truncating open and the close
        busy, overlap = {}, False
        for t, w in trace:
            p_ = w.split(":")
            if p_[0] == "open":
                if any(f == p_[2] and o != t for (o, f) in busy):
                    overlap = True
                if p_[1].startswith("w"):
                    busy[(t, p_[2])] = True
            elif p_[0] == "close":
                busy.pop((t, p_[1]), None)
        ctx.cls("index:n=%d" % n, "index:" + case["initial"], "index:compressed" if case["compressed"] else "index:plain",
                "index:overlap" if overlap else "index:no_overlap")
        if len(writers) >= 1 and (overlap or len(writers) >= 2):
            ctx.mark_nontrivial(case_hash(case))
            ctx.sample({"n": n, "initial": case["initial"], "compressed": case["compressed"],
                        "trace_head": [list(x) for x in trace[:20]]}, limit=2)
        for i, o in enumerate(outcomes):
            if o is None or o.get("error") == "Abort":
                continue
            if not o["ok"]:
                ctx.violation("C20:reference-index:concurrent-run-fails:" + o["error"],
                              {"process": i, "msg": o["msg"], "trace_tail": [list(x) for x in trace[-14:]]}, case)
            elif not (o["main"] and o["worker"]):
                ctx.violation("C20:reference-index:run-reads-a-wrong-or-empty-reference",
                              {"process": i, "contigs_seen": o["contigs"], "expected": sorted(truth),
                               "trace_tail": [list(x) for x in trace[-14:]]}, case)
        # whatever is left next to the reference serves a later run
        try:
            fa = pyfaidx.Fasta(ref)
            if {k: str(fa[k][:]) for k in fa.keys()} != truth:
                ctx.violation("C20:reference-index:index-left-behind-is-wrong", {"initial": case["initial"]}, case)
        except Exception as e:
            ctx.violation("C20:reference-index:index-left-behind-is-unreadable:" + type(e).__name__,
                          {"msg": str(e)[:200]}, case)
    finally:
        shutil.rmtree(d, ignore_errors=True)


# --------------------------------------------------------------------------- caches of indices and alignments

@st.composite
def mapper_cases(draw, max_n=4):
    n = draw(st.integers(2, max_n))
    procs = []
    for i in range(n):
        procs.append({"data_type": draw(st.sampled_from(["nanopore", "pacbio_ccs", "assembly"])),
                      "aligner": draw(st.sampled_from([None, None, "minimap2", "starlong"])),
                      "stranded": draw(st.sampled_from(["none", "none", "forward"])),
                      "fastq": draw(st.integers(0, 1)), "junc_bed": draw(st.sampled_from([None, None, 0, 1])),
                      "reference": draw(st.integers(0, 1) if draw(st.booleans()) else st.just(0))})
    return {"n": n, "procs": procs, "schedule": draw(st.lists(st.integers(0, max_n - 1), max_size=80)),
            "flush_each": draw(st.booleans()),
            # runs that finished before the concurrent ones start (they fill the caches); indices into procs
            "history": draw(st.lists(st.integers(0, n - 1), max_size=2))}


def eval_mapper(case, ctx):
    """The real cache logic of src/read_mapper.py (DataSetReadMapper.create_index / map_reads, find_stored_* /
    store_*) around stand-ins for the two external conversions (indexing, alignment) that record under which options
    they ran: what a run ends up using must have been made under its own options."""
    isoquant, g, rm = mods()
    from src.input_data_storage import SampleData
    d = ctx.scratch()
    n = case["n"]
    real_open = open
    real_replace = os.replace
    tid_of = {}
    try:
        ind = os.path.join(d, "in")
        os.makedirs(ind)
        for k in (0, 1):
            for name in ("ref%d.fa" % k, "reads%d.fq" % k, "junc%d.bed" % k):
                with real_open(os.path.join(ind, name), "w") as f:
                    f.write("x\n")
        home = os.path.join(d, "home")
        os.makedirs(home)

        def expected_tag(pr):
            aligner = pr["aligner"] or rm.DATATYPE_TO_ALIGNER[pr["data_type"]]
            tag = {"aligner": aligner, "fastq": "reads%d.fq" % pr["fastq"], "reference": "ref%d.fa" % pr["reference"],
                   "annotation": None if pr["junc_bed"] is None else "junc%d.bed" % pr["junc_bed"],
                   "k": rm.KMER_SIZE[pr["data_type"]]}
            if aligner == "minimap2":
                tag["preset"] = rm.MINIMAP_PRESET[pr["data_type"]]
                tag["stranded"] = pr["stranded"] == "forward"
            return tag

        def fake_index_reference(aligner, args):
            ref_name = os.path.splitext(os.path.basename(args.reference))[0]
            index_name = os.path.join(os.path.abspath(args.output), "%s_k%s_idx" % (ref_name, rm.KMER_SIZE[args.data_type]))
            tag = {"aligner": aligner, "k": rm.KMER_SIZE[args.data_type], "reference": os.path.basename(args.reference)}
            if aligner == "starlong":
                os.makedirs(index_name, exist_ok=True)
                with real_open(os.path.join(index_name, "genomeParameters.txt"), "w") as f:
                    json.dump(tag, f)
            else:
                with real_open(index_name, "w") as f:
                    json.dump(tag, f)
            return index_name

        def fake_align_fasta(aligner, fastq_file, annotation_file, args, label, out_dir):
            ip = os.path.join(args.index, "genomeParameters.txt") if os.path.isdir(args.index) else args.index
            itag = json.load(real_open(ip))
            tag = {"aligner": aligner, "fastq": os.path.basename(fastq_file), "reference": itag["reference"],
                   "annotation": os.path.basename(annotation_file) if annotation_file else None, "k": itag["k"],
                   "index_aligner": itag["aligner"]}
            if aligner == "minimap2":
                tag["preset"] = rm.MINIMAP_PRESET[args.data_type]
                tag["stranded"] = args.stranded == "forward"
            os.makedirs(out_dir, exist_ok=True)
            bam = os.path.join(out_dir, "%s_%s.bam" % (label, os.path.basename(fastq_file)))
            with real_open(bam, "w") as f:
                json.dump(tag, f)
            return bam

        class Args:
            pass

        def one_run(pr, out):
            args = Args()
            os.makedirs(out, exist_ok=True)
            args.output = out
            args.reference = os.path.join(ind, "ref%d.fa" % pr["reference"])
            args.data_type, args.aligner, args.stranded = pr["data_type"], pr["aligner"], pr["stranded"]
            args.index, args.clean_start, args.threads = None, False, 1
            args.no_junc_bed = pr["junc_bed"] is None
            args.junc_bed_file = None if pr["junc_bed"] is None else os.path.join(ind, "junc%d.bed" % pr["junc_bed"])
            args.genedb = args.junc_bed_file          # STAR takes the annotation itself
            isoquant.set_configs_directory(args)
            sample = SampleData([[os.path.join(ind, "reads%d.fq" % pr["fastq"])]], "OUT", os.path.join(out, "OUT"), {},
                                None)

            class Input:
                samples = [sample]
                input_type = "fastq"
            args.input_data = Input()
            mapper = rm.DataSetReadMapper(args)
            args.index = mapper.index_fname
            data = mapper.map_reads(args)
            bam = data.samples[0].file_list[0][0]
            return bam, json.load(real_open(bam))

        sched = Sched(n, case["schedule"])
        outcomes = [None] * n

        def proxy_open(path, mode="r", *a, **kw):
            tid = tid_of.get(threading.get_ident())
            p = str(path)
            if tid is None or not p.endswith(".json"):
                return real_open(path, mode, *a, **kw)
            sched.yield_(tid, "open:%s:%s" % (mode, os.path.basename(p)))
            return FileProxy(real_open(path, mode, *a, **kw), sched, tid, p, mode, case["flush_each"])

        def replace_hook(src, dst, *a, **kw):
            tid = tid_of.get(threading.get_ident())
            if tid is not None and str(dst).endswith(".json"):
                sched.yield_(tid, "replace:" + os.path.basename(str(dst)))
            return real_replace(src, dst, *a, **kw)

        def body(i):
            tid_of[threading.get_ident()] = i
            try:
                sched.wait_turn(i)
                bam, tag = one_run(case["procs"][i], os.path.join(d, "out_%d" % i))
                outcomes[i] = {"ok": True, "bam": bam, "tag": tag}
            except Abort:
                outcomes[i] = {"ok": False, "error": "Abort", "msg": ""}
            except BaseException as e:
                outcomes[i] = {"ok": False, "error": type(e).__name__, "msg": str(e)[:200]}
            finally:
                sched.finish(i)

        old_env = os.environ.get("HOME")
        os.environ["HOME"] = home
        saved = (rm.index_reference, rm.align_fasta, getattr(rm, "open", None), getattr(g, "open", None),
                 getattr(isoquant, "open", None))
        rm.index_reference, rm.align_fasta = fake_index_reference, fake_align_fasta
        rm.open = g.open = isoquant.open = proxy_open
        os.replace = replace_hook
        import logging
        logging.getLogger("IsoQuant").setLevel(logging.CRITICAL)
        try:
            for j, i in enumerate(case["history"]):
                try:
                    one_run(case["procs"][i], os.path.join(d, "hist_%d" % j))
                except BaseException:
                    pass
            threads = [threading.Thread(target=body, args=(i,), daemon=True) for i in range(n)]
            for t in threads:
                t.start()
            sched.start_all()
            for t in threads:
                t.join(timeout=120)
            if any(t.is_alive() for t in threads):
                sched.dead = True
                with sched.cv:
                    sched.cv.notify_all()
                ctx.harness_errors.append("mapper schedule harness: thread did not finish")
        finally:
            rm.index_reference, rm.align_fasta = saved[0], saved[1]
            for m, o in zip((rm, g, isoquant), saved[2:]):
                if o is None:
                    try:
                        del m.open
                    except AttributeError:
                        pass
                else:
                    m.open = o
            os.replace = real_replace
            if old_env is not None:
                os.environ["HOME"] = old_env
        shared = False
        for i, o in enumerate(outcomes):
            if o is None or o.get("error") == "Abort":
                continue
            pr = case["procs"][i]
            if not o["ok"]:
                ctx.violation("C20:mapper-cache:concurrent-run-fails:" + o["error"], {"process": i, "options": pr,
                                                                                      "msg": o["msg"]}, case)
                continue
            own = os.path.abspath(o["bam"]).startswith(os.path.join(d, "out_%d" % i) + os.sep)
            shared = shared or not own
            exp = expected_tag(pr)
            got = {k: o["tag"].get(k) for k in exp}
            if got != exp or o["tag"].get("index_aligner") != exp["aligner"]:
                what = sorted(k for k in exp if got.get(k) != exp[k]) or ["index_aligner"]
                ctx.violation("C20:mapper-cache:run-uses-a-conversion-made-under-other-options:" + "+".join(what),
                              {"process": i, "options": pr, "uses": o["bam"].replace(d, ""), "made_with": o["tag"],
                               "own_options_give": exp}, case)
        ctx.cls("mapper:n=%d" % n, "mapper:cache_hit" if shared else "mapper:no_cache_hit")
        if shared:
            ctx.mark_nontrivial(case_hash(case))
            ctx.sample({"procs": case["procs"], "history": case["history"]}, limit=2)
    finally:
        shutil.rmtree(d, ignore_errors=True)


# ------------------------------------------------------------------------------------------------ real processes

@st.composite
def smoke_cases(draw):
    src = S.DrawSrc(draw)
    sc = S.gen_discovery(src, n_chroms=(1, 2), genes_per_chrom=(1, 2), novel_per_gene=(0, 1), reads_known=(1, 3),
                         reads_novel=(3, 4), intergenic_p=0.0, max_exons=4, exact=True)
    sc.pop("truth", None)
    sc["opts"] = ["--data_type", "nanopore", "--no_gzip", "--threads", "1"]
    sc["n_procs"] = src.int(2, 6)
    sc["same_gtf"] = src.bool(0.5)
    sc["bgzip_reference"] = src.bool(0.5)
    # one folder for the converted annotations of all runs (--genedb_output), and copies of the annotation that have
    # the same file name in different folders
    sc["shared_genedb_output"] = src.bool(0.65)
    sc["same_basename"] = src.bool(0.5)
    if sc["shared_genedb_output"]:
        sc["n_procs"] = max(sc["n_procs"], 4)      # a collision needs runs that start within the same instant
    return sc


def eval_smoke(case, ctx):
    import subprocess
    from vlib import PYTHON
    sc = case
    d = ctx.scratch()
    try:
        paths = build.materialise(sc, os.path.join(d, "in"))
        if sc.get("bgzip_reference"):
            import pysam
            pysam.tabix_compress(paths["fasta"], paths["fasta"] + ".gz", force=True)
            os.remove(paths["fasta"])
            paths["fasta"] += ".gz"
        solo = pipeline.run_case(sc, ctx, d=d, paths=paths, out_name="solo", home=os.path.join(d, "home_solo"))
        if solo.code != 0:
            ctx.note("solo_failed")
            return
        # the concurrent runs find the reference without index files, as the solo run did
        for suf in (".fai", ".gzi"):
            if os.path.exists(paths["fasta"] + suf):
                os.remove(paths["fasta"] + suf)
        home = os.path.join(d, "home_shared")
        os.makedirs(home, exist_ok=True)
        procs = []
        flag = os.path.join(d, "start.flag")
        for i in range(sc["n_procs"]):
            p2 = dict(paths)
            if not sc["same_gtf"]:
                if sc.get("same_basename"):
                    os.makedirs(os.path.join(d, "in", "copy_%d" % i), exist_ok=True)
                    gp = os.path.join(d, "in", "copy_%d" % i, "annot.gtf")
                else:
                    gp = os.path.join(d, "in", "annot_%d.gtf" % i)
                shutil.copy(paths["gtf"], gp)
                p2["gtf"] = gp
            out = os.path.join(d, "par_%d" % i)
            argv = build.base_argv(sc, p2, out)
            if sc.get("shared_genedb_output"):
                argv += ["--genedb_output", os.path.join(d, "genedb_shared")]
            env = dict(os.environ)
            env["HOME"] = home
            log = open(os.path.join(d, "par_%d.log" % i), "wb")
            ctx.pipeline_runs += 1
            procs.append((subprocess.Popen([PYTHON, os.path.join(os.path.dirname(os.path.abspath(build.__file__)),
                                                                "barrier_launch.py"), REPO, flag] + argv, env=env,
                                           stdout=log, stderr=subprocess.STDOUT, stdin=subprocess.DEVNULL), out, log))
        # every interpreter has imported the repository by now (or does so within the next moments): go
        import time
        time.sleep(1.5)
        open(flag, "w").close()
        for i, (p, out, log) in enumerate(procs):
            p.wait()
            log.close()
            if p.returncode != 0:
                r = pipeline.Result(d, p.returncode, out, paths, log.name)
                ctx.violation("C20:smoke:concurrent-run-fails:" + r.crash_signature().split("@")[0],
                              {"process": i, "of": sc["n_procs"], "log": r.log_tail(8)}, case)
                continue
            for kind, f, det in compare.diff_dirs(solo.out, "OUT", out, "OUT"):
                ctx.violation("C20:smoke:concurrent-run-output-differs:" + f, {"process": i, "detail": det}, case)
        ctx.cls("smoke_procs=%d" % sc["n_procs"], "shared --genedb_output" if sc.get("shared_genedb_output") else
                "no --genedb_output")
        ctx.mark_nontrivial(case_hash(case))
        ctx.sample({"n_procs": sc["n_procs"], "same_gtf": sc["same_gtf"]}, limit=1)
    finally:
        shutil.rmtree(d, ignore_errors=True)


def stages(tier):
    q = tier == "quick"
    return [Stage("schedules", "hyp", eval_schedule, n=1600 if q else 100000,
                  strategy=(lambda: schedules(4)) if q else (lambda: schedules(8))),
            Stage("reference_index", "hyp", eval_index_schedule, n=800 if q else 40000,
                  strategy=(lambda: index_schedules(4)) if q else (lambda: index_schedules(8))),
            Stage("mapper_cache", "hyp", eval_mapper, n=800 if q else 40000,
                  strategy=(lambda: mapper_cases(4)) if q else (lambda: mapper_cases(8))),
            Stage("smoke", "hyp", eval_smoke, n=8 if q else 64, strategy=smoke_cases, shards=4)]
