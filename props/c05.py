"""C05 - every aligned read is accounted for; region splitting loses or duplicates none."""
import copy
from collections import Counter, defaultdict

from hypothesis import strategies as st

from vlib import parse, pipeline, scenario as S, reads as R
from vlib.shard import Stage, case_hash

ID = "C05"
LEVEL = "exploration"
TECHNIQUE = "property-based testing (Hypothesis): coverage-template generators aimed at the 256-bp bin / 32-kb / " \
            "1024-read splitting logic, both memory modes; three-valued accounting oracle from BAM flags only"
RULE = ("Hypothesis-generated deep loci (pile-ups joined by bridge reads, valleys of depth 1-3, unspliced tails ending "
        "on bin boundaries, short reads wholly inside the first/last bin of a sub-region; sparsely covered genes longer "
        "than two splitting windows whose full-length reads are processed in >= 3 regions; >= 1024 reads confined to "
        "one 256-bp bin) and ordinary multi-locus "
        "scenarios with all flag/MAPQ combinations x {default, --high_memory} x {annotation, none} x --no_secondary / "
        "--min_mapq. Non-trivial = the cluster was processed in >= 2 regions (from --debug log, used only to "
        "classify) and a read lies within 256 bp of a region edge, or a one-bin pile-up of >= 1024 reads, or the flag stage contains secondary + "
        "supplementary + unmapped + low-MAPQ records; distinct by scenario hash. Templates added later: front_cluster "
        "(a small cluster ending in the bin in which the split cluster begins with short reads), placed unmapped "
        "records, multi-mapped reads outside genes, one-base alignments. Relation of the flag stage (annotated runs): "
        "the records are run again with every MAPQ < 5 raised to 60; a singly-aligned primary read that the second "
        "run calls unique / unique_minor_difference / ambiguous must be reported by the first run with the same lines.")
ASSUMPTIONS = ["documented filters: unmapped, supplementary, --min_mapq, --no_secondary, inconsistent MAPQ < 5 "
               "(annotated), <=2-exon alignments with MAPQ < 1 or secondary in gene-free regions",
               "reads with another alignment may be suppressed by multi-mapper resolution (MAY, not MUST)"]


def classify(sc, min_mapq, no_secondary, annotated):
    """MUST / MUSTNOT / MAY per read name (a read MUST be reported if it has a MUST alignment)."""
    per = {}
    counts = Counter()
    for r in sc["reads"]:
        if r.get("c") is None or r["f"] & 4:
            counts["unaligned"] += 1
            per.setdefault(r["n"], []).append("MUSTNOT")
            continue
        if r["f"] & 256:
            counts["secondary"] += 1
        elif r["f"] & 2048:
            counts["supplementary"] += 1
        else:
            counts["primary"] += 1
        if r["f"] & 2048 or (min_mapq and r.get("q", 60) < min_mapq) or (no_secondary and r["f"] & 256):
            per.setdefault(r["n"], []).append("MUSTNOT")
        elif r["f"] & 256 or r.get("q", 60) < max(5, min_mapq or 0):
            per.setdefault(r["n"], []).append("MAY")
        else:
            per.setdefault(r["n"], []).append("MUST")
    verdict = {}
    for n, lst in per.items():
        reportable = [x for x in lst if x != "MUSTNOT"]
        if "MUST" in reportable:
            verdict[n] = "MUST"
        elif not reportable:
            verdict[n] = "MUSTNOT"
        else:
            verdict[n] = "MAY"
    return verdict, counts


def outs_tsv_lines(tsvp):
    return parse.data_lines(tsvp)


def check_accounting(sc, res, ctx, case, annotated, min_mapq=None, no_secondary=False):
    bedp = res.path("corrected_reads.bed")
    tsvp = res.path("read_assignments.tsv")
    if res.code != 0 or not bedp or (annotated and not tsvp):
        ctx.violation("C05:run-failed:" + res.crash_signature().split("@")[0], {"exit": res.code,
                                                                                  "log": res.log_tail(10)}, case)
        return None
    verdict, counts = classify(sc, min_mapq, no_secondary, annotated)
    must = set(n for n, v in verdict.items() if v == "MUST")
    mustnot = set(n for n, v in verdict.items() if v == "MUSTNOT")
    bed_lines = parse.data_lines(bedp)
    bed_names = set(l.split("\t")[3] for l in bed_lines)
    outs = [("corrected_reads.bed", bed_names, bed_lines)]
    if annotated:
        tl = parse.data_lines(tsvp)
        outs.append(("read_assignments.tsv", set(l.split("\t")[0] for l in tl), tl))
    special = set(sc.get("special") or [])
    if not annotated:
        # without an annotation no alignment of a read says more than another: the record of a read that has a primary
        # alignment passing the filters is the record of that alignment
        where = defaultdict(list)
        for l in bed_lines:
            t = l.split("\t")
            where[t[3]].append((t[0], int(t[1]), int(t[2])))
        for r in sc["reads"]:
            if r.get("c") is None or r["f"] & (4 | 256 | 2048) or verdict.get(r["n"]) != "MUST" or \
                    r.get("q", 60) < max(5, min_mapq or 0):
                continue
            a, b = r["p"], R.ref_end_of(r)
            if r["n"] in where and not any(c == r["c"] and s < b and a < e for c, s, e in where[r["n"]]):
                ctx.violation("C05:primary-alignment-replaced-by-another-alignment-of-the-read",
                              {"read": r["n"], "primary": [r["c"], a, b, r.get("q", 60)], "reported": where[r["n"]],
                               "other_records": [[x["c"], x["p"], R.ref_end_of(x), x["f"], x.get("q", 60)]
                                                 for x in sc["reads"] if x["n"] == r["n"] and x is not r]}, case)
    for fname, names, lines in outs:
        missing = must - names
        if missing:
            tailish = missing & special
            sig = "C05:read-missing-from-" + fname
            if tailish:
                sig += ":short-read-at-region-edge:" + ("high_memory" if "--high_memory" in sc["opts"] else
                                                        "low_memory")
            ex = sorted(missing)[:5]
            det = {"missing": ex, "n_missing": len(missing),
                   "records": [[r["n"], r["c"], r["p"], R.ref_end_of(r), r["f"], r.get("q")] for r in sc["reads"]
                               if r["n"] in ex][:5]}
            ctx.violation(sig, det, case)
        extra = names & mustnot
        if extra:
            ctx.violation("C05:filtered-read-reported-in-" + fname, {"reads": sorted(extra)[:5]}, case)
        unknown = names - set(verdict)
        if unknown:
            ctx.violation("C05:unknown-read-in-" + fname, {"reads": sorted(unknown)[:5]}, case)
        dup = [l for l, c in Counter(lines).items() if c > 1]
        if dup:
            sig = "C05:identical-records-in-" + fname
            if fname.endswith(".bed") and annotated:
                # the same alignment assigned to different genes in two processing regions keeps both records
                nm = dup[0].split("\t")[3]
                isos = set(l.split("\t")[3] for l in outs_tsv_lines(tsvp) if l.split("\t")[0] == nm)
                if len(isos) > 1:
                    sig += ":read-assigned-to-different-genes-in-two-regions"
            ctx.violation(sig, {"line": dup[0][:300], "n": len(dup)}, case)
        n = len(names)
        lo = len(must)
        hi = len([1 for v in verdict.values() if v != "MUSTNOT"])
        if not (lo <= n <= hi) and not missing and not extra and not unknown:
            ctx.violation("C05:distinct-read-count-out-of-bounds:" + fname, {"reported": n, "must": lo, "may": hi}, case)
    # log statistics
    import os
    stats = {}
    for name, v in parse.log_stats(os.path.join(res.out, "isoquant.log")):
        if name in ("primary", "secondary", "supplementary", "unaligned") and name not in stats:
            stats[name] = v
    for name in ("primary", "secondary", "supplementary", "unaligned"):
        if stats.get(name, 0) != counts.get(name, 0):
            ctx.violation("C05:log-alignment-statistics-differ:" + name,
                          {"log": stats.get(name, 0), "bam": counts.get(name, 0)}, case)
    return verdict


@st.composite
def deep_scenarios(draw):
    rnd = draw(st.randoms(use_true_random=True))
    src = S.RndSrc(rnd)
    annotated = draw(st.booleans())
    tmpl = draw(st.sampled_from(["pileups", "pileups", "pileups", "plateau", "plateau", "long_gene", "long_gene",
                                 "one_bin", "front_cluster", "front_cluster", "front_cluster"]))
    if tmpl == "plateau":
        sc = S.gen_plateau_locus(src, with_annotation=annotated)
        sc["template"] = "plateau"
    elif tmpl == "one_bin":
        sc = S.gen_one_bin_pileup(src, with_annotation=annotated)
        sc["template"] = "one_bin"
    elif tmpl == "long_gene":
        sc = S.gen_long_gene_locus(src, with_annotation=annotated)
        sc["template"] = "long_gene"
    elif tmpl == "front_cluster":
        # a small cluster that ends in the bin in which the big (split) cluster begins with short reads
        sc = S.gen_deep_locus(src, with_annotation=annotated, front_cluster=True)
        sc["template"] = "front_cluster"
    else:
        sc = S.gen_deep_locus(src, with_annotation=annotated)
        sc["template"] = "pileups"
    sc["opts"] = ["--data_type", draw(st.sampled_from(["nanopore", "pacbio_ccs"])), "--no_gzip", "--threads",
                  str(draw(st.sampled_from([1, 2]))), "--no_model_construction", "--debug"]
    if draw(st.booleans()):
        sc["opts"] += ["--high_memory"]
    sc["annotated"] = annotated
    return sc


def evaluate_deep(case, ctx):
    import os
    sc = case
    res = pipeline.run_case(sc, ctx)
    try:
        v = check_accounting(sc, res, ctx, case, sc["annotated"])
        if v is None:
            return
        regions = [r for r in parse.log_regions(os.path.join(res.out, "isoquant.log"))]
        hm = "--high_memory" in sc["opts"]
        ctx.cls("regions=%s" % (len(regions) if len(regions) < 4 else ">=4"), "high_memory" if hm else "low_memory",
                "template=" + sc.get("template", "?"),
                "annotated" if sc["annotated"] else "annotation-free")
        edges = set()
        for a, b in regions:
            edges.add(a)
            edges.add(b)
        near = any(min(abs(r["p"] - e) for e in edges) < 256 or min(abs(R.ref_end_of(r) - e) for e in edges) < 256
                   for r in sc["reads"] if r["n"] in set(sc["special"])) if edges else False
        if (len(regions) >= 2 and near) or sc.get("template") == "one_bin":
            ctx.mark_nontrivial(case_hash(case))
            ctx.sample({"n_reads": len(sc["reads"]), "chroms": sc["chroms"], "regions": regions[:6],
                        "special_reads": [[r["n"], r["p"], R.ref_end_of(r)] for r in sc["reads"]
                                          if r["n"] in set(sc["special"])], "opts": sc["opts"]}, limit=3)
    finally:
        res.cleanup()


@st.composite
def flag_scenarios(draw):
    src = S.DrawSrc(draw)
    annotated = src.bool(0.7)
    sc = S.gen_annotation(src, n_chroms=(1, 3), genes_per_chrom=(1, 3), iso_per_gene=(1, 3), sep=40, max_exons=5)
    par = S.add_paralog(src, sc, src.choice(sc["genes"])) if src.bool(0.5) else None
    k = 0
    reads = []
    for g, t in S.transcripts_of(sc):
        if g.get("paralog_of"):
            continue
        for _ in range(src.int(1, 5)):
            k += 1
            r, _t = S.read_from_chain(src, "r%d" % k, g["chr"], g["strand"], t["exons"], delta=4, trunc_p=0.4,
                                      mapq=(0, 60))
            r["q"] = src.choice([0, 1, 2, 4, 5, 6, 10, 20, 60, 60])
            kind = src.choice(["p", "p", "p", "sec", "sup", "multi"])
            if kind == "sec":
                r["f"] |= 256
            elif kind == "sup":
                r["f"] |= 2048
            reads.append(r)
            if kind == "multi" and par is not None and par["paralog_of"] == g["id"]:
                reads.append(S.shift_read(r, par["chr"], par["offset"], flag_or=256, mapq=0))
    for _ in range(src.int(0, 4)):
        k += 1
        r = S.intergenic_read(src, sc, "r%d" % k)
        if r is not None:
            r["q"] = src.choice([0, 1, 5, 60])
            reads.append(r)
    # multi-mapped reads outside genes: a primary alignment and a secondary one (MAPQ 0) that is longer, equally long or
    # shorter, upstream or downstream of it, on the same or on another contig
    for _ in range(src.int(0, 3)):
        k += 1
        r = S.intergenic_read(src, sc, "r%d" % k)
        if r is None:
            continue
        r["q"] = 60
        reads.append(r)
        for j in range(src.int(1, 2)):
            s2 = S.intergenic_read(src, sc, "r%d" % k)
            if s2 is None:
                continue
            blocks = R.cigar_blocks(s2["p"], s2["cg"])
            a, b = blocks[0][0], blocks[-1][1]
            if b - a > 120 and src.bool(0.7):
                # a spliced secondary alignment of three blocks
                third = (b - a) // 3
                s2 = R.make_read("r%d" % k, s2["c"], [[a, a + third - 12], [a + third + 8, a + 2 * third - 10],
                                                      [a + 2 * third + 10, b]], flag=s2["f"], mapq=0)
            s2["f"] |= 256
            s2["q"] = 0
            reads.append(s2)
    for _ in range(src.int(0, 3)):
        k += 1
        reads.append(S.unmapped_read("r%d" % k))
        if src.bool(0.4) and reads[:-1]:
            # a "placed" unmapped record: flag 4 with the position of some mapped record (+- a few bases)
            m = src.choice([r for r in reads if r.get("c") is not None] or [None])
            if m is not None:
                reads[-1]["placed"] = [m["c"], max(0, m["p"] + src.choice([0, 0, 1, -1, 50, 300]))]
    # read names with characters that the SAM specification allows and that mean something elsewhere (comment
    # sign, separators); a read keeps its name in all its records
    if src.bool(0.25):
        ren = {}
        for r in reads:
            if r["n"] not in ren:
                ren[r["n"]] = src.choice(["#", "#", "@", "", "", "", "="]) + r["n"] + src.choice(["", "", "/1", ";x", "|a"])
            r["n"] = ren[r["n"]]
    lens = {c[0]: c[1] for c in sc["chroms"]}
    sc["reads"] = [r for r in reads if r.get("c") is None or R.cigar_blocks(r["p"], r["cg"])[-1][1] + 45 < lens[r["c"]]]
    sc["opts"] = ["--data_type", src.choice(S.DATA_TYPES), "--no_gzip", "--threads", str(src.choice([1, 2])),
                  "--no_model_construction"]
    mm = src.choice([None, None, 1, 5, 10, 30])
    if mm is not None:
        sc["opts"] += ["--min_mapq", str(mm)]
    ns = src.bool(0.3)
    if ns:
        sc["opts"] += ["--no_secondary"]
    if src.bool(0.3):
        sc["opts"] += ["--high_memory"]
    if not annotated:
        sc["hidden_genes"] = sc["genes"]
        sc["genes"] = []
    sc["annotated"], sc["min_mapq"], sc["no_secondary"] = annotated, mm, ns
    return sc


CONSISTENT_TYPES = ("unique", "unique_minor_difference", "ambiguous")


def _low_mapq_relation(sc, res, ctx, case):
    """The documented low-MAPQ filter of annotated runs concerns alignments that are inconsistent with the annotation.
    The kind of an alignment does not depend on its MAPQ, so it is taken from a second run of the same records with
    the low MAPQ values raised to 60: a read that is the only record of its name, primary, with --min_mapq <= MAPQ < 5,
    and that the second run reports as unique / unique_minor_difference / ambiguous has to be reported by the first
    run as well (and with the same lines)."""
    if not sc["annotated"]:
        return
    n_rec = Counter(r["n"] for r in sc["reads"])
    low = [r for r in sc["reads"] if r.get("c") is not None and not r["f"] & (4 | 256 | 2048) and n_rec[r["n"]] == 1
           and r.get("q", 60) < 5 and r.get("q", 60) >= (sc["min_mapq"] or 0)]
    if not low:
        return
    sc2 = copy.deepcopy(sc)
    names = set(r["n"] for r in low)
    for r in sc2["reads"]:
        if r["n"] in names:
            r["q"] = 60
    res2 = pipeline.run_case(sc2, ctx)
    try:
        if res2.code != 0 or not res2.path("read_assignments.tsv"):
            ctx.note("raised_mapq_run_failed")
            return
        lines1, lines2 = defaultdict(list), defaultdict(list)
        for dst, rr in ((lines1, res), (lines2, res2)):
            for l in parse.data_lines(rr.path("read_assignments.tsv")):
                dst[l.split("\t")[0]].append(l)
        n_consistent = 0
        for n in sorted(names):
            types = set(l.split("\t")[5] for l in lines2.get(n, []))
            if not types or not types <= set(CONSISTENT_TYPES):
                continue
            n_consistent += 1
            if n not in lines1:
                ctx.violation("C05:consistent-read-with-low-mapq-is-not-reported:" + sorted(types)[0],
                              {"read": n, "mapq": [r.get("q") for r in low if r["n"] == n],
                               "with_mapq_60": lines2[n][:3]}, case)
            elif sorted(lines1[n]) != sorted(lines2[n]):
                ctx.violation("C05:assignment-of-a-consistent-read-depends-on-its-mapq",
                              {"read": n, "low": lines1[n][:3], "with_mapq_60": lines2[n][:3]}, case)
        ctx.cls("low-mapq consistent reads: %s" % ("0" if not n_consistent else "1+"))
    finally:
        res2.cleanup()


def evaluate_flags(case, ctx):
    sc = case
    res = pipeline.run_case(sc, ctx)
    try:
        v = check_accounting(sc, res, ctx, case, sc["annotated"], sc["min_mapq"], sc["no_secondary"])
        if v is None:
            return
        kinds = set()
        for r in sc["reads"]:
            if r.get("c") is None:
                kinds.add("unmapped")
            elif r["f"] & 256:
                kinds.add("secondary")
            elif r["f"] & 2048:
                kinds.add("supplementary")
            elif r.get("q", 60) < 5:
                kinds.add("lowmapq")
        ctx.cls("annotated" if sc["annotated"] else "annotation-free", "min_mapq=%s" % sc["min_mapq"])
        _low_mapq_relation(sc, res, ctx, case)
        if len(kinds) == 4:
            ctx.mark_nontrivial(case_hash(case))
            ctx.sample(pipeline.summarize(sc, {"verdicts": dict(Counter(v.values()))}), limit=2)
    finally:
        res.cleanup()


def stages(tier):
    q = tier == "quick"
    return [Stage("deep", "hyp", evaluate_deep, n=96 if q else 1500, strategy=deep_scenarios),
            Stage("flags", "hyp", evaluate_flags, n=192 if q else 3000, strategy=flag_scenarios)]
