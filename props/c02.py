"""C02 - expression tables equal the documented weighting of reported read assignments."""
import os
from collections import Counter, defaultdict, OrderedDict

from hypothesis import strategies as st

from vlib import parse, pipeline, scenario as S, reads as R
from vlib.refmodel import counting
from vlib.shard import Stage, case_hash

ID = "C02"
LEVEL = "exploration"
TECHNIQUE = "property-based testing (Hypothesis): mixed read sets (unique, ambiguous, inconsistent, intergenic, " \
            "unmapped, multi-locus) through the pipeline under all 5x5 quantification strategies; recount of every " \
            "table cell from read_assignments.tsv with the documented weights"
RULE = ("Hypothesis-generated scenarios: multi-isoform genes (1-4 chromosomes, optional paralogous loci), reads that are "
        "unique, ambiguous (truncated), inconsistent (unannotated structure / alignment artefacts), intergenic, "
        "unmapped, and primary+secondary pairs; x 5 transcript x 5 gene strategies x 2 normalisations, with and "
        "without model construction. Non-trivial = the run reports >=1 ambiguous and >=1 inconsistent record and >=2 "
        "features with non-zero expectation; distinct by scenario hash. Added later: --high_memory (40%), reads with a "
        "worse secondary alignment inside an intron or between genes; clause: a read reported once and for one gene "
        "only must not carry an ambiguous gene-level type.")
ASSUMPTIONS = ["read_assignments.tsv lists exactly the records the counters saw (one record per (read, chr, exons))",
               "for reads kept on several loci the __ambiguous/__no_feature lines may count reads or records "
               "(statement ambiguous): any value in [reads, records] is accepted",
               "tables print %.2f: tolerance 0.005 per summed read plus 1e-9"]


@st.composite
def scenarios(draw):
    src = S.DrawSrc(draw)
    sc = S.gen_annotation(src, n_chroms=(1, 3), genes_per_chrom=(1, 3), iso_per_gene=(1, 4), sep=40, max_exons=6)
    dt = src.choice(S.DATA_TYPES)
    delta = S.DELTAS[S.DATA_DEFAULT_STRATEGY[dt]]
    par = None
    if src.bool(0.45):
        g = src.choice(sc["genes"])
        par = (g, S.add_paralog(src, sc, g))
    k = 0
    reads = []
    for g in list(sc["genes"]):
        if g.get("paralog_of"):
            continue
        novel = S.novel_chains(src, sc, g, k=src.int(0, 2))
        for t in g["transcripts"]:
            for _ in range(src.int(1, 5)):
                k += 1
                r, _t = S.read_from_chain(src, "r%d" % k, g["chr"], g["strand"], t["exons"], delta=delta,
                                          trunc_p=0.5, mapq=(10, 60))
                reads.append(r)
                if par and par[0] is g and src.bool(0.6):
                    # the same read aligned to the paralogous locus as a secondary (sometimes primary-flagged) record
                    reads.append(S.shift_read(r, par[1]["chr"], par[1]["offset"],
                                              flag_or=src.choice([256, 256, 0]), mapq=src.choice([0, 1, 30])))
        for ex in novel:
            for _ in range(src.int(1, 3)):
                k += 1
                r, _t = S.read_from_chain(src, "r%d" % k, g["chr"], g["strand"], ex, delta=delta, trunc_p=0.2,
                                          mapq=(5, 60))
                reads.append(r)
        for t in g["transcripts"]:
            if src.bool(0.3):
                k += 1
                r = S.noisy_read(src, "r%d" % k, g["chr"], g["strand"], t["exons"],
                                 src.choice(["shift", "faketerm", "skipmicro", "microir"]))
                if r is not None:
                    reads.append(r)
    for _ in range(src.int(0, 4)):
        k += 1
        r = S.intergenic_read(src, sc, "r%d" % k)
        if r is not None:
            reads.append(r)
    for _ in range(src.int(0, 3)):
        k += 1
        reads.append(S.unmapped_read("r%d" % k))
    # reads of a gene with a second, worse alignment (a secondary record, MAPQ 0) inside an intron of some gene or
    # between genes: the alignment that is kept may match several isoforms of the one gene
    genic = [r for r in reads if r.get("c") is not None and not r["f"] & 256]
    introns = [(g["chr"], t["exons"][i][1] + 1, t["exons"][i + 1][0] - 1) for g, t in S.transcripts_of(sc)
               for i in range(len(t["exons"]) - 1) if t["exons"][i + 1][0] - t["exons"][i][1] > 90]
    for _ in range(src.int(0, 4)):
        if not genic:
            break
        r = src.choice(genic)
        if introns and src.bool(0.75):
            c, a, b = src.choice(introns)
            x = src.int(a + 5, b - 65)
            s2 = R.make_read(r["n"], c, [[x, min(b - 5, x + src.int(55, 200))]], flag=r["f"] & 16, mapq=0)
        else:
            s2 = S.intergenic_read(src, sc, r["n"])
        if s2 is not None:
            s2["f"] |= 256
            # (alignments that are not consistent with an isoform are dropped when their MAPQ is below 5)
            s2["q"] = src.choice([0, 10, 30])
            reads.append(s2)
    lens = {c[0]: c[1] for c in sc["chroms"]}
    sc["reads"] = [r for r in reads if r.get("c") is None or
                   (r["p"] >= 0 and R.cigar_blocks(r["p"], r["cg"])[-1][1] + 45 < lens[r["c"]])]
    # feature ids that begin like the statistics lines at the end of the tables ("__ambiguous", ...)
    if src.bool(0.2):
        for g in sc["genes"]:
            pre = src.choice(["_", "_", "#"])
            if src.bool(0.4):
                g["id"] = pre + g["id"]
            for t in g["transcripts"]:
                if src.bool(0.3):
                    t["id"] = pre + t["id"]
    tq, gq = src.choice(counting.STRATEGIES), src.choice(counting.STRATEGIES)
    norm = src.choice(["simple", "usable_reads"])
    sc["opts"] = ["--data_type", dt, "--no_gzip", "--threads", str(src.choice([1, 2])),
                  "--transcript_quantification", tq, "--gene_quantification", gq, "--normalization_method", norm]
    models = src.bool(0.3)
    if not models:
        sc["opts"] += ["--no_model_construction"]
    sc["tq"], sc["gq"], sc["norm"], sc["models"] = tq, gq, norm, models
    # the in-memory summary of multi-mapped reads is another code path than the one read back from disk
    if src.bool(0.4):
        sc["opts"] += ["--high_memory"]
    return sc


def check_tpm(name, counts_path, tpm_path, norm, ctx, case):
    counts = parse.counts_simple(counts_path)
    tpm = parse.counts_simple(tpm_path)
    feats = [f for f in counts if not f.startswith("__")]
    total = sum(counts[f] for f in feats)
    for f in feats:
        if f not in tpm:
            if counts[f] != 0:
                ctx.violation("C02:tpm-row-missing", {"table": name, "feature": f}, case)
            continue
    tf = [f for f in tpm if not f.startswith("__")]
    s = sum(tpm[f] for f in tf)
    if total > 0:
        if norm == "simple":
            if abs(s - 1e6) > 1e-3 * max(1, len(tf)):
                ctx.violation("C02:tpm-does-not-sum-to-1e6", {"table": name, "sum": s}, case)
            for f in tf:
                e = 1e6 * counts.get(f, 0.0) / total
                if abs(tpm[f] - e) > 1e-5 * max(1.0, e):
                    ctx.violation("C02:tpm-not-a-rescaling-of-counts", {"table": name, "feature": f, "tpm": tpm[f],
                                                                       "expected": e}, case)
        else:
            nz = [(f, tpm[f] / counts[f]) for f in tf if counts.get(f, 0) > 0]
            if nz:
                r0 = nz[0][1]
                for f, r in nz:
                    if abs(r - r0) > 1e-6 * max(r0, 1.0) + 1e-4:
                        ctx.violation("C02:tpm-ratios-not-preserved", {"table": name, "feature": f, "ratio": r,
                                                                      "first_ratio": r0}, case)
            # usable_reads divides the *printed* counts (2 decimals, so up to 0.005 off per row) by the number of
            # usable reads: the sum may exceed 1e6 by that rounding only
            slack = 0.005 * len(tf)
            bound = 1e6 * total / max(total - slack, 1e-9) if total > slack else float("inf")
            if s > bound + 1e-3 * max(1, len(tf)):
                ctx.violation("C02:tpm-sum-exceeds-1e6", {"table": name, "sum": s}, case)


def evaluate(case, ctx):
    sc = case
    if sc.get("template") and "--debug" not in sc["opts"]:
        # cases of the split stage saved before the regions were read from the log
        sc = dict(sc, opts=list(sc["opts"]) + ["--debug"])
    res = pipeline.run_case(sc, ctx)
    try:
        tsvp, bedp = res.path("read_assignments.tsv"), res.path("corrected_reads.bed")
        tcp, gcp = res.path("transcript_counts.tsv"), res.path("gene_counts.tsv")
        if res.code != 0 or not (tsvp and bedp and tcp and gcp):
            ctx.note("crash:" + res.crash_signature())
            return
        rows = parse.read_assignments(tsvp)
        records = parse.records_of(rows)
        # a read that is reported once, for a single gene, is uniquely assigned at the gene level whatever happened to
        # its other alignments: its gene-level type (additional_info) must not call it ambiguous
        per_rid = Counter(k_[0] for k_ in records)
        for key_, rws_ in records.items():
            genes_ = set(x["gene"] for x in rws_ if x["gene"] != ".")
            if per_rid[key_[0]] == 1 and len(genes_) == 1 and len(set(x["isoform"] for x in rws_)) == len(rws_) and \
                    rws_[0]["info"].get("gene_assignment") in ("ambiguous", "inconsistent_ambiguous"):
                ctx.violation("C02:read-reported-for-one-gene-only-has-an-ambiguous-gene-level-type",
                              {"read": key_[0], "lines": [[x["isoform"], x["gene"], x["type"],
                                                           x["info"].get("gene_assignment")] for x in rws_][:4],
                               "opts": sc["opts"]}, case)
        nblocks = {}
        for b in parse.bed12(bedp):
            nblocks[(b["name"], b["chr"], b["start"] + 1, b["end"])] = b["count"]
        mono = set(t["id"] for g in sc["genes"] for t in g["transcripts"] if len(t["exons"]) == 1)
        ann_t = set(t["id"] for g in sc["genes"] for t in g["transcripts"])
        ann_g = set(g["id"] for g in sc["genes"])
        unmapped = sum(1 for r in sc["reads"] if r.get("c") is None)
        n_amb = n_inc = 0
        nz_feats = 0
        # reads that cross a split point of their cluster (regions are logged under --debug) and the features that their
        # merged multi-feature records name
        crossing_feats = {"transcript": set(), "gene": set()}
        if sc.get("template") and "--debug" in sc["opts"]:
            regions = parse.log_regions(os.path.join(res.out, "isoquant.log"))
            cuts = sorted(set(b for a, b in regions))
            cross = set()
            for r_ in sc["reads"]:
                if r_.get("c") is not None and any(r_["p"] + 1 <= c_ <= R.ref_end_of(r_) - 1 for c_ in cuts):
                    cross.add(r_["n"])
            for key_, rws_ in records.items():
                if key_[0] in cross:
                    for lv, col in (("transcript", "isoform"), ("gene", "gene")):
                        fs_ = set(x[col] for x in rws_ if x[col] != ".")
                        if len(fs_) >= 2:
                            crossing_feats[lv] |= fs_
        for level, path, strategy, ann in (("transcript", tcp, sc["tq"], ann_t), ("gene", gcp, sc["gq"], ann_g)):
            table = parse.counts_simple(path)
            exp, specials, contrib, multi = counting.expected_counts(records, level, strategy)
            # alternative: every record counted as if it were a separate read (what happens for multi-locus reads)
            alt = defaultdict(float)
            for key, rws in records.items():
                if level == "transcript":
                    feats = set(r["isoform"] for r in rws if r["isoform"] != ".")
                    at = rws[0]["type"]
                else:
                    feats = set(r["gene"] for r in rws if r["gene"] != ".")
                    at = rws[0]["info"].get("gene_assignment", rws[0]["type"])
                w = counting.weight(at, len(feats), strategy)
                for f in feats:
                    alt[f] += w
            # the same for one alignment reported with several features after it was processed in several regions of a
            # split cluster: every region counted it with the weight of a single-feature record
            alt_split = defaultdict(float)
            for key, rws in records.items():
                if level == "transcript":
                    feats = set(r["isoform"] for r in rws if r["isoform"] != ".")
                    at = rws[0]["type"]
                else:
                    feats = set(r["gene"] for r in rws if r["gene"] != ".")
                    at = rws[0]["info"].get("gene_assignment", rws[0]["type"])
                if len(feats) >= 2 and at in ("ambiguous", "inconsistent_ambiguous"):
                    w = counting.weight("inconsistent" if at.startswith("inconsistent") else "unique", 1, strategy)
                else:
                    w = counting.weight(at, len(feats), strategy)
                for f in feats:
                    alt_split[f] += w
            confirmed = set()
            nreads = defaultdict(int)
            for key, rws in records.items():
                at = rws[0]["type"]
                if level == "gene":
                    gat = rws[0]["info"].get("gene_assignment", at)
                else:
                    gat = at
                for r in rws:
                    f = r["isoform"] if level == "transcript" else r["gene"]
                    if f != ".":
                        nreads[f] += 1
                if at in counting.UNIQUE and gat in counting.UNIQUE and len(rws) == 1:
                    ex = rws[0]["exons"]
                    nb = None
                    for (n_, c_, s_, e_), cnt in nblocks.items():
                        if n_ == key[0] and c_ == key[1]:
                            nb = cnt if nb is None else max(nb, cnt)
                    f = rws[0]["isoform"] if level == "transcript" else rws[0]["gene"]
                    only_one_record = len([1 for k2 in records if k2[0] == key[0]]) == 1
                    if only_one_record and ((nb or 0) > 1 or (level == "transcript" and f in mono)):
                        confirmed.add(f)
            for f, v in table.items():
                if f.startswith("__"):
                    continue
                if f not in ann:
                    ctx.violation("C02:%s-table-has-unknown-feature" % level, {"feature": f}, case)
                    continue
                e = exp.get((f, "NA"), 0.0)
                tol = 0.005 + 1e-9
                if e > 0:
                    nz_feats += 1
                if v != 0 and abs(v - e) > tol:
                    if abs(v - alt.get(f, 0.0)) <= tol and any(f in contrib[r][1] for r in multi):
                        sig = "C02:multi-locus-read-counted-at-every-locus:" + level
                    elif sc.get("template") and e - tol <= v <= alt_split.get(f, 0.0) + tol and f in crossing_feats[level]:
                        # root cause of the recorded split-point findings (C13, C05, C04): one alignment that crosses a
                        # split point of its cluster is processed in both regions, against the genes of that region
                        # only; each region counts it as a read of its own before the two records are merged
                        sig = "C02:read-crossing-a-split-point-counted-in-every-region:" + level
                    else:
                        sig = "C02:%s-count-differs" % level
                    ctx.violation(sig, {"feature": f, "table": v, "expected": round(e, 4), "strategy": strategy,
                                        "records": [[k[0], k[1], rws[0]["type"], rws[0]["info"].get("gene_assignment")]
                                                    for k, rws in records.items()
                                                    if any((r["isoform"] if level == "transcript" else r["gene"]) == f
                                                           for r in rws)][:8]}, case)
                if v == 0 and e > tol and f in confirmed:
                    ctx.violation("C02:%s-confirmed-feature-zeroed" % level, {"feature": f, "expected": e}, case)
            for f, g_ in exp:
                if exp[(f, g_)] > 0.005 and f not in table and f in confirmed:
                    ctx.violation("C02:%s-confirmed-feature-missing" % level, {"feature": f}, case)
            # special lines
            a = table.get("__ambiguous")
            if a is None or not (specials["ambiguous_reads"] <= a <= specials["ambiguous_records"]):
                ctx.violation("C02:%s-__ambiguous-line-differs" % level,
                              {"table": a, "reads": specials["ambiguous_reads"],
                               "records": specials["ambiguous_records"]}, case)
            nf = table.get("__no_feature")
            if nf is None or not (specials["no_feature_reads"] <= nf <= specials["no_feature_records"]):
                ctx.violation("C02:%s-__no_feature-line-differs" % level,
                              {"table": nf, "reads": specials["no_feature_reads"],
                               "records": specials["no_feature_records"]}, case)
            na = table.get("__not_aligned")
            if na != unmapped:
                ctx.violation("C02:%s-__not_aligned-line-differs" % level, {"table": na, "unmapped_records": unmapped},
                              case)
            tp = res.path("%s_tpm.tsv" % level)
            if not tp:
                ctx.violation("C02:tpm-table-missing", {"level": level}, case)
            else:
                check_tpm(level, path, tp, sc["norm"], ctx, case)
            if level == "transcript":
                n_amb = specials["ambiguous_records"]
                n_inc = sum(1 for k_, rws in records.items() if rws[0]["type"].startswith("inconsistent"))
        if sc["models"]:
            check_model_counts(res, sc, ctx, case)
        ctx.cls("tq=" + sc["tq"], "gq=" + sc["gq"], "norm=" + sc["norm"], "models" if sc["models"] else "no_models",
                "ambiguous>0" if n_amb else "ambiguous=0", "inconsistent>0" if n_inc else "inconsistent=0")
        if n_amb and n_inc and nz_feats >= 2:
            ctx.mark_nontrivial(case_hash(case))
            ctx.sample(pipeline.summarize(sc, {"ambiguous_records": n_amb, "inconsistent_records": n_inc}))
    finally:
        res.cleanup()


def check_model_counts(res, sc, ctx, case):
    mc, mr = res.path("transcript_model_counts.tsv"), res.path("transcript_model_reads.tsv")
    if not mc or not mr:
        ctx.violation("C02:model-count-files-missing", {}, case)
        return
    table = parse.counts_simple(mc)
    per_read = defaultdict(set)
    unassigned = set()
    star_rows = 0
    for rid, tid in parse.model_reads(mr):
        if tid == "*":
            unassigned.add(rid)
            star_rows += 1
        else:
            per_read[rid].add(tid)
    exp = defaultdict(float)
    amb = 0
    for rid, ts in per_read.items():
        k = len(ts)
        if k > 1:
            amb += 1
        w = 1.0 if k == 1 else (1.0 / k if counting.admits_ambiguous(sc["tq"]) else 0.0)
        for t in ts:
            exp[t] += w
    for f, v in table.items():
        if f.startswith("__"):
            continue
        e = exp.get(f, 0.0)
        if v != 0 and abs(v - e) > 0.005 + 1e-9:
            ctx.violation("C02:model-count-differs", {"feature": f, "table": v, "expected": round(e, 4),
                                                      "strategy": sc["tq"]}, case)
    for f, e in exp.items():
        if e > 0.005 and f not in table:
            ctx.violation("C02:model-with-reads-missing-from-count-table", {"feature": f, "expected": e}, case)
    if table.get("__ambiguous") != amb:
        ctx.violation("C02:model-__ambiguous-line-differs", {"table": table.get("__ambiguous"), "expected": amb}, case)
    nf = table.get("__no_feature")
    if nf is None or not (len(unassigned - set(per_read)) <= nf <= star_rows):
        # a read kept on several loci has one '*' row per locus: reads or records, see ASSUMPTIONS
        ctx.violation("C02:model-__no_feature-line-differs",
                      {"table": nf, "reads": len(unassigned - set(per_read)), "rows": star_rows}, case)
    tp = res.path("transcript_model_tpm.tsv")
    if tp:
        check_tpm("transcript_model", mc, tp, sc["norm"], ctx, case)


@st.composite
def split_scenarios(draw):
    """Loci cut into several processing regions (templates of C05/C13), incl. reads that join a gene spanning the
    cut to a gene behind it: such a read is compared with a different gene set in each region."""
    rnd = draw(st.randoms(use_true_random=True))
    src = S.RndSrc(rnd)
    tmpl = draw(st.sampled_from(["pileups", "inner_bridge", "inner_bridge", "straddle"]))
    if tmpl == "pileups":
        sc = S.gen_deep_locus(src, with_annotation=True, max_reads=450, extra_chrom=False)
    else:
        sc = S.gen_long_gene_locus(src, with_annotation=True, straddle=tmpl == "straddle",
                                   inner_bridge=tmpl == "inner_bridge")
    tq, gq = draw(st.sampled_from(counting.STRATEGIES)), draw(st.sampled_from(counting.STRATEGIES))
    norm = draw(st.sampled_from(["simple", "usable_reads"]))
    sc["opts"] = ["--data_type", draw(st.sampled_from(["nanopore", "pacbio_ccs"])), "--no_gzip", "--threads", "1",
                  "--transcript_quantification", tq, "--gene_quantification", gq, "--normalization_method", norm,
                  "--no_model_construction", "--debug"]
    if draw(st.booleans()):
        sc["opts"] += ["--high_memory"]
    sc["tq"], sc["gq"], sc["norm"], sc["models"] = tq, gq, norm, False
    sc["template"] = tmpl
    return sc


def stages(tier):
    q = tier == "quick"
    return [Stage("tables", "hyp", evaluate, n=256 if q else 5000, strategy=scenarios),
            Stage("split", "hyp", evaluate, n=48 if q else 600, strategy=split_scenarios),
            Stage("counters", "hyp", eval_counters, n=4000 if q else 200000, strategy=counter_cases,
                  vary_hashseed=True)]


# ---------------------------------------------------------------------------------------------- counter level

_cm = None


def CM():
    global _cm
    if _cm is None:
        import sys
        from vlib import REPO
        if REPO not in sys.path:
            sys.path.insert(0, REPO)
        import src.long_read_counter as lrc
        import src.isoform_assignment as ia
        import src.file_utils as fu
        _cm = (lrc, ia, fu)
    return _cm


TYPES_T = ["unique", "unique_minor_difference", "ambiguous", "inconsistent", "inconsistent_non_intronic",
           "inconsistent_ambiguous", "noninformative", "intergenic"]


@st.composite
def counter_cases(draw):
    nchr = draw(st.integers(1, 3))
    chroms = ["c%d" % i for i in range(nchr)]
    feats = {c: {"g%s_%d" % (c, j): ["t%s_%d_%d" % (c, j, k) for k in range(draw(st.integers(1, 3)))]
                 for j in range(draw(st.integers(1, 3)))} for c in chroms}
    mono = draw(st.booleans())
    reads = []
    groups = draw(st.lists(st.sampled_from(["b", "a", "Z", "10", "9", "NA"]), min_size=1, max_size=4, unique=True))
    n = draw(st.integers(0, 25))
    for i in range(n):
        c = draw(st.sampled_from(chroms))
        t = draw(st.sampled_from(TYPES_T))
        genes = list(feats[c])
        if t in ("unique", "unique_minor_difference", "inconsistent", "inconsistent_non_intronic"):
            g = draw(st.sampled_from(genes))
            iso = [(g, draw(st.sampled_from(feats[c][g])))]
        elif t in ("ambiguous", "inconsistent_ambiguous"):
            pool = [(g, x) for g in genes for x in feats[c][g]]
            if len(pool) < 2:
                t = "unique"
                iso = [pool[0]]
            else:
                k = draw(st.integers(2, min(3, len(pool))))
                idx = draw(st.lists(st.integers(0, len(pool) - 1), min_size=k, max_size=k, unique=True))
                iso = [pool[j] for j in idx]
        else:
            iso = []
        gset = set(g for g, _ in iso)
        if t in ("ambiguous",):
            gt = "ambiguous" if len(gset) > 1 else "unique"
        elif t == "inconsistent_ambiguous":
            gt = "inconsistent_ambiguous" if len(gset) > 1 else "inconsistent"
        else:
            gt = t
        reads.append({"id": "r%d" % i, "chr": c, "type": t, "gtype": gt, "iso": iso,
                      "spliced": draw(st.booleans()), "group": draw(st.sampled_from(groups))})
    return {"chroms": chroms, "feats": feats, "reads": reads, "groups": groups,
            "tq": draw(st.sampled_from(counting.STRATEGIES)), "gq": draw(st.sampled_from(counting.STRATEGIES)),
            "norm": draw(st.sampled_from(["simple", "usable_reads"])), "unaligned": draw(st.integers(0, 3)),
            "mono_isoforms": mono, "fmt": draw(st.sampled_from(["matrix", "linear", "both"]))}


class _GI:
    def __init__(self, introns):
        self.all_isoforms_introns = introns


def eval_counters(case, ctx):
    import os
    lrc, ia, fu = CM()
    d = ctx.scratch()
    try:
        chroms = case["chroms"]
        label = "OUT"
        introns = {}
        for c in chroms:
            for g, ts in case["feats"][c].items():
                for t in ts:
                    introns[t] = [] if case["mono_isoforms"] else [(10, 20)]
        gi = _GI(introns)
        groups = set(case["groups"])

        def mk(level, prefix, strategy, feats, grouped):
            f = lrc.create_gene_counter if level == "gene" else lrc.create_transcript_counter
            if grouped:
                return f(prefix, strategy, complete_feature_list=feats, read_groups=groups,
                         grouped_format=lrc.GroupedOutputFormat[case["fmt"]])
            return f(prefix, strategy, complete_feature_list=feats, output_zeroes=True)
        mains = {}
        for level, strategy in (("gene", case["gq"]), ("transcript", case["tq"])):
            for grouped in (False, True):
                mains[(level, grouped)] = mk(level, os.path.join(d, "%s.%s%s" % (label, level, "_grouped" if grouped else "")),
                                             strategy, set(), grouped)
        for c in chroms:
            gf = set(case["feats"][c])
            tf = set(t for ts in case["feats"][c].values() for t in ts)
            cs = {}
            for level, strategy, ff in (("gene", case["gq"], gf), ("transcript", case["tq"], tf)):
                for grouped in (False, True):
                    cs[(level, grouped)] = mk(level, os.path.join(d, "%s_%s.%s%s" % (label, c, level,
                                                                                     "_grouped" if grouped else "")),
                                              strategy, ff, grouped)
            for r in case["reads"]:
                if r["chr"] != c:
                    continue
                ms = [ia.IsoformMatch(ia.MatchClassification.genic, g, t) for g, t in r["iso"]]
                a = ia.ReadAssignment(r["id"], ia.ReadAssignmentType[r["type"]], ms)
                a.gene_assignment_type = ia.ReadAssignmentType[r["gtype"]]
                a.read_group = r["group"]
                a.corrected_exons = [(1, 9), (21, 30)] if r["spliced"] else [(1, 30)]
                a.gene_info = gi
                for k in cs:
                    cs[k].add_read_info(a)
            for k in cs:
                cs[k].dump()
        for k, m in mains.items():
            fu.merge_counts(m, label, chroms, case["unaligned"])
            m.convert_counts_to_tpm(case["norm"])
        # expected
        for level, strategy in (("gene", case["gq"]), ("transcript", case["tq"])):
            exp = defaultdict(float)
            gexp = defaultdict(float)
            confirmed = set()
            n_amb = n_no = 0
            for r in case["reads"]:
                at = r["type"] if level == "transcript" else r["gtype"]
                feats = set(t for _, t in r["iso"]) if level == "transcript" else set(g for g, _ in r["iso"])
                if r["type"] in ("noninformative", "intergenic") or not r["iso"]:
                    n_no += 1
                    continue
                if at == "ambiguous":
                    n_amb += 1
                w = counting.weight(at, len(feats), strategy)
                for f in feats:
                    exp[f] += w
                    gexp[(f, r["group"])] += w
                if at in counting.UNIQUE:
                    if level == "gene" or (r["type"] in counting.UNIQUE and (case["mono_isoforms"] or r["spliced"])):
                        confirmed.add(list(feats)[0])
            table = parse.counts_simple(os.path.join(d, "%s.%s_counts.tsv" % (label, level)))
            universe = set()
            for c_ in chroms:
                universe |= set(case["feats"][c_]) if level == "gene" else \
                    set(t for ts in case["feats"][c_].values() for t in ts)
            for f in universe:
                if f not in table:
                    ctx.violation("C02:counter:%s-feature-missing-from-table" % level, {"feature": f}, case)
                    continue
                v, e = table[f], exp.get(f, 0.0)
                if f in confirmed:
                    if abs(v - e) > 0.005 + 1e-9:
                        ctx.violation("C02:counter:%s-confirmed-feature-count-differs" % level,
                                      {"feature": f, "table": v, "expected": round(e, 4), "strategy": strategy}, case)
                elif v != 0 and abs(v - e) > 0.005 + 1e-9:
                    ctx.violation("C02:counter:%s-count-neither-zero-nor-sum" % level,
                                  {"feature": f, "table": v, "expected": round(e, 4), "strategy": strategy}, case)
            if table.get("__ambiguous") != n_amb:
                ctx.violation("C02:counter:%s-__ambiguous-differs" % level, {"table": table.get("__ambiguous"),
                                                                             "expected": n_amb}, case)
            if table.get("__no_feature") != n_no:
                ctx.violation("C02:counter:%s-__no_feature-differs" % level, {"table": table.get("__no_feature"),
                                                                              "expected": n_no}, case)
            if case["unaligned"] and table.get("__not_aligned") != case["unaligned"]:
                ctx.violation("C02:counter:%s-__not_aligned-differs" % level, {"table": table.get("__not_aligned"),
                                                                               "expected": case["unaligned"]}, case)
            check_tpm("counter:" + level, os.path.join(d, "%s.%s_counts.tsv" % (label, level)),
                      os.path.join(d, "%s.%s_tpm.tsv" % (label, level)), case["norm"], ctx, case)
            # grouped renderings
            cells_m = cells_l = None
            mp = os.path.join(d, "%s.%s_grouped_counts.tsv" % (label, level))
            lp = os.path.join(d, "%s.%s_grouped_counts_linear.tsv" % (label, level))
            if case["fmt"] in ("matrix", "both"):
                gs, mat = parse.counts_matrix(mp)
                cells_m = {(f, g): v for f, vals in mat.items() for g, v in zip(gs or [], vals)}
            if case["fmt"] in ("linear", "both"):
                cells_l = {}
                for f, g, v in parse.counts_linear(lp):
                    cells_l[(f, g)] = cells_l.get((f, g), 0.0) + v
            for name, cells in (("matrix", cells_m), ("linear", cells_l)):
                if cells is None:
                    continue
                by = defaultdict(dict)
                for (f, g), v in cells.items():
                    by[f][g] = v
                for f in universe:
                    row = by.get(f, {})
                    if all(v == 0 for v in row.values()) and f not in confirmed:
                        continue
                    for g in set(row) | set(g_ for (f_, g_) in gexp if f_ == f):
                        if abs(row.get(g, 0.0) - gexp.get((f, g), 0.0)) > 0.005 + 1e-9:
                            ctx.violation("C02:counter:%s-grouped-%s-cell-differs" % (level, name),
                                          {"feature": f, "group": g, "table": row.get(g, 0.0),
                                           "expected": round(gexp.get((f, g), 0.0), 4)}, case)
            if cells_m is not None and cells_l is not None:
                for key in set(cells_m) | set(cells_l):
                    if abs(cells_m.get(key, 0.0) - cells_l.get(key, 0.0)) > 1e-9:
                        ctx.violation("C02:counter:%s-matrix-linear-disagree" % level, {"cell": key}, case)
        kinds = set(r["type"] for r in case["reads"])
        if "ambiguous" in kinds and any(k.startswith("inconsistent") for k in kinds) and len(chroms) >= 2:
            ctx.mark_nontrivial(case_hash(case))
            ctx.sample({"chroms": chroms, "reads": case["reads"][:4], "tq": case["tq"], "gq": case["gq"],
                        "norm": case["norm"], "fmt": case["fmt"]}, limit=2)
    finally:
        import shutil
        shutil.rmtree(d, ignore_errors=True)
