"""C12 - equivalent representations of the same input give identical results."""
import copy
import gzip
import os
import shutil
import subprocess

from hypothesis import strategies as st

from vlib import PYTHON, REPO, build, compare, pipeline, scenario as S, reads as R
from vlib.shard import Stage, case_hash

ID = "C12"
LEVEL = "exploration"
TECHNIQUE = "property-based testing (Hypothesis): the same generated annotation as GTF / gzipped GTF / pre-built " \
            "gffutils database, with and without --complete_genedb, with fresh / reused / cleaned conversion cache, and " \
            "the same alignments as 1..4 BAM files; differential comparison of the outputs"
RULE = ("Hypothesis-generated scenarios (1-3 chromosomes, overlapping genes, GTF flavours with CDS / extra attributes "
        "/ exon ids) run once as baseline (.gtf, --complete_genedb, one BAM, fresh HOME) and once in a drawn equivalent "
        "representation: annotation form x complete/inferred x cache state, or a random partition of the records "
        "into 2-4 BAMs. Non-trivial = representation differs in >= 1 dimension and the annotation has >= 2 "
        "overlapping genes or the partition splits reads of one gene; distinct by scenario hash. Stage history: 3-6 "
        "runs sharing one HOME over two annotations of the same file name (B = A minus a transcript or gene), two "
        "reused output folders, in-place swaps of the annotation files (half of them keep a time stamp earlier "
        "than the cached database), --clean_start, .gtf/.gtf.gz; each run is "
        "compared with a fresh-HOME run of the same content; non-trivial = some (file, form) is used twice without "
        "--clean_start and the two annotations give different outputs.")
ASSUMPTIONS = ["BAM partition: only read_assignments, corrected_reads and the ungrouped reference-based tables are "
               "compared, as multisets of lines (the statement's list); several files switch on file_name grouping",
               "--complete_genedb vs inferred is compared only for GTFs that contain gene and transcript records"]

BAM_FILES = ["read_assignments.tsv", "corrected_reads.bed", "gene_counts.tsv", "transcript_counts.tsv",
             "gene_tpm.tsv", "transcript_tpm.tsv", "exon_counts.tsv", "intron_counts.tsv"]


@st.composite
def scenarios(draw):
    src = S.DrawSrc(draw)
    sc = S.gen_discovery(src, n_chroms=(1, 3), genes_per_chrom=(1, 3), novel_per_gene=(0, 1), reads_known=(1, 5),
                         reads_novel=(3, 6), intergenic_p=0.2, max_exons=5, exact=src.bool(0.5), delta=4,
                         overlap_p=0.5)
    sc.pop("truth", None)
    sc["gtf"].update({"extras": src.bool(0.4), "cds": src.bool(0.4), "exon_ids": src.bool(0.3)})
    lens = {c[0]: c[1] for c in sc["chroms"]}
    sc["reads"] = [r for r in sc["reads"] if R.cigar_blocks(r["p"], r["cg"])[-1][1] + 45 < lens[r["c"]]]
    for i in range(src.int(0, 4)):
        sc["reads"].append(S.unmapped_read("u%d" % i))
        mapped = [r for r in sc["reads"] if r.get("c") is not None]
        if mapped and src.bool(0.5):
            # a "placed" unmapped record (flag 4 with RNAME/POS, e.g. an unmapped mate): at the very start of a mapped
            # record, or next to it
            m = src.choice(mapped)
            sc["reads"][-1]["placed"] = [m["c"], max(0, m["p"] + src.choice([0, 0, 0, 1, -1, 30]))]
    sc["opts"] = ["--data_type", src.choice(["nanopore", "pacbio_ccs"]), "--no_gzip", "--threads",
                  str(src.choice([1, 2]))]
    if src.bool(0.5):
        sc["opts"] += ["--count_exons"]
    dim = src.choice(["annotation", "annotation", "bam", "reference"])
    if dim == "annotation":
        sc["variant"] = {"dim": "annotation", "form": src.choice(["gtf", "gtf.gz", "db"]),
                         "complete": src.bool(0.5), "cache": src.choice(["fresh", "reused", "clean_start"])}
        if sc["variant"]["form"] == "gtf" and sc["variant"]["complete"] and sc["variant"]["cache"] == "fresh":
            sc["variant"]["cache"] = "reused"
    elif dim == "reference":
        # the same genome as a soft-masked copy (repeats in lower case, as in Ensembl dna_sm / UCSC downloads): segments
        # around splice sites of the reads and at random places
        segs = []
        for r in sc["reads"]:
            if r.get("c") is None or not src.bool(0.4):
                continue
            b = R.cigar_blocks(r["p"], r["cg"])
            for i in range(len(b) - 1):
                if src.bool(0.5):
                    segs.append([r["c"], max(0, b[i][1] - src.int(5, 40)), src.int(20, 120)])
        for c in sc["chroms"]:
            for _ in range(src.int(0, 3)):
                segs.append([c[0], src.int(0, max(0, c[1] - 700)), src.int(50, 600)])
        sc["variant"] = {"dim": "reference", "lower": segs}
    else:
        # a second record of a read with the same span and a junction placed 2 bp apart (aligners report such
        # secondary alignments at repeats next to splice sites)
        if src.bool(0.4):
            extra = []
            for r in sc["reads"]:
                if r.get("c") is not None and len([o for o in r["cg"] if o[0] == 3]) >= 1 and src.bool(0.3):
                    r2 = copy.deepcopy(r)
                    cg = r2["cg"]
                    for i in range(1, len(cg) - 1):
                        if cg[i][0] == 3 and cg[i - 1][0] == 0 and cg[i + 1][0] == 0 and cg[i - 1][1] > 12 and \
                                cg[i + 1][1] > 12:
                            cg[i - 1][1] += 2
                            cg[i + 1][1] -= 2
                            break
                    else:
                        continue
                    r2["f"] = r2["f"] | 256
                    extra.append(r2)
            sc["reads"] += extra
        k = src.int(2, 4)
        sc["variant"] = {"dim": "bam", "k": k, "assign": [src.int(0, k - 1) for _ in sc["reads"]],
                         # per-chromosome files: every file holds the records of some contigs and its header lists
                         # only those
                         "per_contig": src.bool(0.3)}
        if sc["variant"]["per_contig"]:
            cn = [c[0] for c in sc["chroms"]]
            fmap = {c: src.int(0, k - 1) for c in cn}
            sc["variant"]["assign"] = [fmap.get(r.get("c") or (r.get("placed") or [cn[0]])[0], 0) for r in sc["reads"]]
        sc["opts"] += ["--no_model_construction"]
    return sc


@st.composite
def tie_weight_scenarios(draw):
    """Fractional weights: a gene whose n isoforms share the first exon (the first m also the second one); reads
    unique to T1, reads ambiguous among T1..Tm (1/m each), unspliced reads ambiguous among all n (1/n each), under a
    quantification mode that counts ambiguous reads; the same records as one BAM and spread over 2-4 files."""
    src = S.DrawSrc(draw)
    n = src.int(5, 9)
    m = src.int(3, min(7, n - 1))
    if src.bool(0.5):
        # weights whose exact sum can lie on a rounding border of the two printed decimals (k/5 + odd/8) while the
        # addends are not exactly representable
        n, m = 8, 5
    base = src.int(800, 2000)
    strand = src.choice(["+", "-"])
    e1 = [base, base + src.int(180, 260)]
    e2 = [e1[1] + src.int(250, 400), e1[1] + src.int(250, 400) + 400]
    e2[1] = e2[0] + src.int(150, 220)
    trs = []
    pos = e2[1] + 300
    for i in range(n):
        x = [pos, pos + src.int(120, 200)]
        pos = x[1] + src.int(200, 350)
        trs.append({"id": "T%d" % (i + 1), "exons": [list(e1), list(e2), x] if i < m else [list(e1), x]})
    length = pos + src.int(800, 1500)
    reads = []
    k = 0

    def add(chain_, cnt, prefix):
        nonlocal k
        for _ in range(cnt):
            k += 1
            reads.append(S.exact_read("%s%d" % (prefix, k), "chr1", strand, chain_, polya=0))
    add(trs[0]["exons"], src.int(1, 3), "u")
    add([list(e1), [e2[0], e2[1] - src.int(20, 60)]] if strand == "+" else [list(e1), list(e2)], src.int(1, 6), "a")
    add([[e1[0], e1[1] - src.int(10, 40)]], src.int(1, 4), "m")
    if src.bool(0.5):
        add(trs[1]["exons"], src.int(1, 2), "v")
    reads = src.shuffle(reads)
    overrides = []
    for t in trs:
        overrides += build.splice_overrides("chr1", t["exons"], strand)
    kf = src.int(2, 4)
    sc = {"chroms": [["chr1", length, src.int(1, 10 ** 6)]],
          "genes": [{"id": "G1", "chr": "chr1", "strand": strand, "canon": "canon", "transcripts": trs}],
          "overrides": overrides, "reads": reads, "nfiles": 1,
          "gtf": {"gene_records": True, "transcript_records": True},
          "opts": ["--data_type", src.choice(["nanopore", "pacbio_ccs"]), "--no_gzip", "--threads", "1",
                   "--no_model_construction", "--transcript_quantification", src.choice(["with_ambiguous", "all"]),
                   "--gene_quantification", src.choice(["with_ambiguous", "all", "with_inconsistent"])],
          "variant": {"dim": "bam", "k": kf, "assign": [src.int(0, kf - 1) for _ in reads]}, "tie_weights": [n, m]}
    return sc


def evaluate(case, ctx):
    sc = case
    v = sc["variant"]
    base = pipeline.run_case(sc, ctx)
    try:
        if base.code != 0:
            ctx.note("baseline_crash:" + base.crash_signature())
            return
        d = base.dir
        out2 = os.path.join(d, "out2")
        if v["dim"] == "annotation":
            gtf = base.paths["gtf"]
            extra = []
            genedb = gtf
            # a second copy of the inputs so that cached conversions of the baseline path are not picked up unless asked
            ind = os.path.join(d, "in2")
            os.makedirs(ind, exist_ok=True)
            if v["form"] == "gtf":
                genedb = os.path.join(ind, "annot.gtf")
                shutil.copy(gtf, genedb)
            elif v["form"] == "gtf.gz":
                genedb = os.path.join(ind, "annot.gtf.gz")
                with open(gtf, "rb") as f, gzip.open(genedb, "wb") as g:
                    g.write(f.read())
            else:
                genedb = os.path.join(ind, "annot.db")
                cmd = [PYTHON, os.path.join(REPO, "src", "gtf2db.py"), "-i", gtf, "-o", genedb]
                if v["complete"]:
                    cmd.append("-c")
                p = subprocess.run(cmd, capture_output=True, text=True, cwd=ind)
                if p.returncode != 0 or not os.path.exists(genedb):
                    ctx.harness_errors.append("gtf2db.py failed: " + (p.stderr or p.stdout)[-500:])
                    return
            home = os.path.join(d, "home2")
            if v["cache"] == "reused":
                # HOME of an earlier conversion of the same file: run the variant twice, compare the second run
                pass
            argv = ["--reference", base.paths["fasta"], "-o", out2, "--genedb", genedb, "--bam"] + base.paths["bams"] + \
                list(sc["opts"])
            if v["complete"] and v["form"] != "db":
                argv.append("--complete_genedb")
            if v["cache"] == "clean_start":
                argv.append("--clean_start")
            from vlib import run
            ctx.pipeline_runs += 1
            code = run.run_fork(argv, home, os.path.join(d, "out2.log"))
            if code == 0 and v["cache"] == "reused":
                out3 = os.path.join(d, "out3")
                argv3 = [a if a != out2 else out3 for a in argv]
                ctx.pipeline_runs += 1
                code = run.run_fork(argv3, home, os.path.join(d, "out3.log"))
                out2 = out3
            if code != 0:
                r2 = pipeline.Result(d, code, out2, base.paths, os.path.join(d, os.path.basename(out2) + ".log"))
                ctx.violation("C12:equivalent-annotation-form-fails:%s:%s" % (v["form"], r2.crash_signature().split("@")[0]),
                              {"variant": v, "exit": code, "log": r2.log_tail(10)}, case)
                return
            diffs = compare.diff_dirs(base.out, "OUT", out2, "OUT")
            for kind, f, det in diffs:
                ctx.violation("C12:annotation-form-changes-output:%s:%s:%s" % (
                    v["form"], "complete" if v["complete"] else "inferred", f),
                    {"kind": kind, "file": f, "detail": det, "variant": v}, case)
            ctx.cls("form=" + v["form"], "complete" if v["complete"] else "inferred", "cache=" + v["cache"])
            spans = sorted((g["chr"], min(t["exons"][0][0] for t in g["transcripts"]),
                            max(t["exons"][-1][1] for t in g["transcripts"])) for g in sc["genes"])
            ov = any(a[0] == b[0] and b[1] <= a[2] for a, b in zip(spans, spans[1:]))
            if ov:
                ctx.mark_nontrivial(case_hash(case))
                ctx.sample(pipeline.summarize(sc, {"variant": v}), limit=2)
        elif v["dim"] == "reference":
            sc2 = copy.deepcopy(sc)
            sc2["overrides"] = list(sc.get("overrides") or []) + [[c_, a_, "@lower:%d" % n_] for c_, a_, n_ in v["lower"]]
            g2 = build.make_genome(sc2)
            ind = os.path.join(d, "in2")
            os.makedirs(ind, exist_ok=True)
            fa2 = os.path.join(ind, "genome.fa")
            build.write_fasta(g2, fa2, [c[0] for c in sc["chroms"]])
            same_letters = all(g2[c[0]].upper() == base.paths["genome"][c[0]].upper() for c in sc["chroms"])
            if not same_letters:
                ctx.harness_errors.append("soft-masked genome differs from the original in more than case")
                return
            paths2 = dict(base.paths)
            paths2["fasta"] = fa2
            res2 = pipeline.run_case(sc, ctx, d=d, paths=paths2, out_name="out2", home=os.path.join(d, "home2"))
            if res2.code != 0:
                ctx.violation("C12:soft-masked-reference-run-fails:" + res2.crash_signature().split("@")[0],
                              {"log": res2.log_tail(10)}, case)
                return
            for kind, f, det in compare.diff_dirs(base.out, "OUT", res2.out, "OUT"):
                ctx.violation("C12:soft-masked-reference-changes-output:" + f, {"kind": kind, "file": f, "detail": det},
                              case)
            ctx.cls("reference_soft_masked")
            if v["lower"]:
                ctx.mark_nontrivial(case_hash(case))
        else:
            sc2 = copy.deepcopy(sc)
            sc2["nfiles"] = v["k"]
            sc2["prune_headers"] = bool(v.get("per_contig"))
            for r, fi in zip(sc2["reads"], v["assign"]):
                r["file"] = fi
            ind = os.path.join(d, "in2")
            os.makedirs(ind, exist_ok=True)
            bams = build.write_bams(sc2, base.paths["genome"], ind, prefix="part")
            paths2 = dict(base.paths)
            paths2["bams"] = bams
            res2 = pipeline.run_case(sc2, ctx, d=d, paths=paths2, out_name="out2", home=os.path.join(d, "home2"))
            if res2.code != 0:
                ctx.violation("C12:split-bam-run-fails:" + res2.crash_signature().split("@")[0],
                              {"variant": {"k": v["k"]}, "log": res2.log_tail(10)}, case)
                return
            diffs = compare.diff_dirs(base.out, "OUT", res2.out, "OUT", multiset=True, only=set(BAM_FILES))
            # reads with two records of the same span (root cause of a known finding: the resolver takes them for
            # duplicates and keeps whichever comes first in the merged stream)
            spans = {}
            for r in sc["reads"]:
                if r.get("c") is not None:
                    spans.setdefault((r["n"], r["c"], r["p"], R.ref_end_of(r)), []).append(r)
            twins = set(k_[0] for k_, v_ in spans.items() if len(v_) > 1)
            for kind, f, det in diffs:
                names = set()
                for line in (det.get("first"), det.get("second")) if isinstance(det, dict) else ():
                    if line:
                        cols = line.split("\t")
                        names.add(cols[3] if f.endswith(".bed") and len(cols) > 3 else cols[0])
                suffix = ":same-span-records-of-one-read" if names and names <= twins and \
                    f in ("read_assignments.tsv", "corrected_reads.bed") else ""
                ctx.violation("C12:bam-partition-changes-output:%s%s" % (f, suffix),
                              {"kind": kind, "file": f, "detail": det, "k": v["k"]}, case)
            ctx.cls("bam_partition_k=%d" % v["k"])
            # non-trivial: reads of one gene end up in different files
            by_gene = {}
            for r, fi in zip(sc["reads"], v["assign"]):
                if r.get("c") is None:
                    continue
                by_gene.setdefault((r["c"], r["p"] // 3000), set()).add(fi)
            if any(len(x) > 1 for x in by_gene.values()):
                ctx.mark_nontrivial(case_hash(case))
                ctx.sample(pipeline.summarize(sc, {"variant": {"dim": "bam", "k": v["k"]}}), limit=2)
    finally:
        base.cleanup()


@st.composite
def history_scenarios(draw):
    """Histories of runs that share one HOME (conversion cache): two different annotations stored under the same file
    name in two directories, two output folders that are reused with --force, in-place rewrites of an annotation
    file, --clean_start, gzipped form.  Every run must give what a run with a fresh HOME gives for the same content."""
    src = S.DrawSrc(draw)
    sc = S.gen_discovery(src, n_chroms=(1, 2), genes_per_chrom=(1, 2), novel_per_gene=(0, 1), reads_known=(2, 4),
                         reads_novel=(3, 4), intergenic_p=0.0, max_exons=4, exact=True)
    sc.pop("truth", None)
    lens = {c[0]: c[1] for c in sc["chroms"]}
    sc["reads"] = [r for r in sc["reads"] if R.cigar_blocks(r["p"], r["cg"])[-1][1] + 45 < lens[r["c"]]]
    sc["opts"] = ["--data_type", src.choice(["nanopore", "pacbio_ccs"]), "--no_gzip", "--threads", "1"]
    # annotation B: annotation A without one transcript (or without one gene)
    multi = [g["id"] for g in sc["genes"] if len(g["transcripts"]) >= 2]
    if multi and src.bool(0.7):
        gid = src.choice(multi)
        g = [x for x in sc["genes"] if x["id"] == gid][0]
        sc["drop"] = {"transcript": src.choice(g["transcripts"])["id"]}
    else:
        sc["drop"] = {"gene": src.choice(sc["genes"])["id"]} if len(sc["genes"]) >= 2 else \
            {"transcript": sc["genes"][0]["transcripts"][0]["id"]}
    steps = []
    # the interesting histories come back to a (file, form, option) used before after something else happened to the
    # cache entry or to the database file it points to: bias towards few distinct keys
    for _ in range(src.int(3, 6)):
        steps.append({"slot": src.choice(["v1", "v2"]), "out": src.choice(["X", "X", "X", "Y"]),
                      "clean": src.bool(0.1), "form": src.choice(["gtf", "gtf", "gtf", "gtf.gz"]),
                      "complete": src.bool(0.85), "swap": src.bool(0.2), "old": src.bool(0.5)})
    sc["steps"] = steps
    return sc


def _variant_b(sc):
    sb = copy.deepcopy(sc)
    d = sc["drop"]
    if "gene" in d:
        sb["genes"] = [g for g in sb["genes"] if g["id"] != d["gene"]]
    else:
        for g in sb["genes"]:
            g["transcripts"] = [t for t in g["transcripts"] if t["id"] != d["transcript"]]
        sb["genes"] = [g for g in sb["genes"] if g["transcripts"]]
    return sb


def evaluate_history(case, ctx):
    from vlib import run
    sc = case
    d = ctx.scratch()
    try:
        paths = build.materialise(sc, os.path.join(d, "in"))
        sb = _variant_b(sc)
        if not sb["genes"]:
            return
        text = {"A": open(paths["gtf"]).read()}
        tmpb = os.path.join(d, "in", "b.gtf")
        build.write_gtf(sb, tmpb)
        text["B"] = open(tmpb).read()
        slots = {"v1": "A", "v2": "B"}

        stamp = [0]

        def write_slot(slot, old=False):
            sd = os.path.join(d, "in", slot)
            os.makedirs(sd, exist_ok=True)
            with open(os.path.join(sd, "annot.gtf"), "w") as f:
                f.write(text[slots[slot]])
            with gzip.open(os.path.join(sd, "annot.gtf.gz"), "wt") as f:
                f.write(text[slots[slot]])
            if old:
                # the file that replaces the annotation keeps an earlier time stamp (cp -p, rsync -t, an earlier
                # release moved into place); every replacement gets a time stamp of its own
                stamp[0] += 1
                for name in ("annot.gtf", "annot.gtf.gz"):
                    t = 1500000000 + 1000 * stamp[0]
                    os.utime(os.path.join(sd, name), (t, t))
        for sl in slots:
            write_slot(sl)
        common = ["--reference", paths["fasta"], "--bam"] + paths["bams"] + list(sc["opts"])
        refs = {}
        for content in ("A", "B"):
            rd = os.path.join(d, "ref" + content)
            os.makedirs(rd)
            with open(os.path.join(rd, "annot.gtf"), "w") as f:
                f.write(text[content])
            ctx.pipeline_runs += 1
            code = run.run_fork(common + ["--genedb", os.path.join(rd, "annot.gtf"), "--complete_genedb", "-o",
                                          os.path.join(rd, "out")], os.path.join(rd, "home"), os.path.join(rd, "log"))
            if code != 0:
                ctx.note("reference_run_failed")
                return
            refs[content] = os.path.join(rd, "out")
        distinguishable = bool(compare.diff_dirs(refs["A"], "OUT", refs["B"], "OUT"))
        home = os.path.join(d, "home")
        stale_possible = False
        seen = set()
        for i, st_ in enumerate(sc["steps"]):
            if st_["swap"]:
                slots["v1"], slots["v2"] = slots["v2"], slots["v1"]
                for sl in slots:
                    write_slot(sl, old=st_.get("old", False))
            content = slots[st_["slot"]]
            genedb = os.path.join(d, "in", st_["slot"], "annot." + st_["form"])
            out = os.path.join(d, "out" + st_["out"])
            argv = common + ["--genedb", genedb, "-o", out, "--force"]
            if st_["complete"]:
                argv.append("--complete_genedb")
            if st_["clean"]:
                argv.append("--clean_start")
            ctx.pipeline_runs += 1
            log = os.path.join(d, "step%d.log" % i)
            code = run.run_fork(argv, home, log)
            key = (st_["slot"], st_["form"])
            if key in seen and not st_["clean"]:
                stale_possible = True
            seen.add(key)
            if code != 0:
                r = pipeline.Result(d, code, out, paths, log)
                ctx.violation("C12:history:run-fails:" + r.crash_signature().split("@")[0],
                              {"step": i, "steps": sc["steps"], "log": r.log_tail(8)}, case)
                return
            for kind, f, det in compare.diff_dirs(refs[content], "OUT", out, "OUT"):
                other = "B" if content == "A" else "A"
                same_as_other = not compare.diff_dirs(refs[other], "OUT", out, "OUT", only={f})
                ctx.violation("C12:history:cached-run-differs-from-fresh-run:%s%s" % (
                    f, ":equals-the-other-annotation" if same_as_other and distinguishable else ""),
                    {"step": i, "steps": sc["steps"][:i + 1], "content": content, "kind": kind, "file": f,
                     "detail": det}, case)
        ctx.cls("steps=%d" % len(sc["steps"]), "swap" if any(x["swap"] for x in sc["steps"]) else "no-swap",
                "swap-to-older-file" if any(x["swap"] and x.get("old") for x in sc["steps"]) else "no-older-swap")
        if distinguishable and stale_possible:
            ctx.mark_nontrivial(case_hash(case))
            ctx.sample({"steps": sc["steps"], "drop": sc["drop"], "n_genes": len(sc["genes"])}, limit=2)
    finally:
        shutil.rmtree(d, ignore_errors=True)


def stages(tier):
    q = tier == "quick"
    return [Stage("representations", "hyp", evaluate, n=160 if q else 2000, strategy=scenarios),
            Stage("history", "hyp", evaluate_history, n=64 if q else 1000, strategy=history_scenarios),
            Stage("tie_weights", "hyp", evaluate, n=96 if q else 2000, strategy=tie_weight_scenarios)]
