"""C12 - equivalent representations of the same input give identical results."""
import copy
import gzip
import os
import shutil
import subprocess

from hypothesis import strategies as st

from vlib import PYTHON, REPO, build, compare, pipeline, scenario as S, reads as R
from vlib.shard import Stage, case_hash

ID = "C12"
LEVEL = "exploration"
TECHNIQUE = "property-based testing (Hypothesis): the same generated annotation as GTF / gzipped GTF / pre-built " \
            "gffutils database, with and without --complete_genedb, with fresh / reused / cleaned conversion cache, and " \
            "the same alignments as 1..4 BAM files; differential comparison of the outputs"
RULE = ("Hypothesis-generated scenarios (1-3 chromosomes, overlapping genes, GTF flavours with CDS / extra attributes "
        "/ exon ids) run once as baseline (.gtf, --complete_genedb, one BAM, fresh HOME) and once in a drawn equivalent "
        "representation: annotation form x complete/inferred x cache state, or a random partition of the records "
        "into 2-4 BAMs. Non-trivial = representation differs in >= 1 dimension and the annotation has >= 2 "
        "overlapping genes or the partition splits reads of one gene; distinct by scenario hash.")
ASSUMPTIONS = ["BAM partition: only read_assignments, corrected_reads and the ungrouped reference-based tables are "
               "compared, as multisets of lines (the statement's list); several files switch on file_name grouping",
               "--complete_genedb vs inferred is compared only for GTFs that contain gene and transcript records"]

BAM_FILES = ["read_assignments.tsv", "corrected_reads.bed", "gene_counts.tsv", "transcript_counts.tsv",
             "gene_tpm.tsv", "transcript_tpm.tsv", "exon_counts.tsv", "intron_counts.tsv"]


@st.composite
def scenarios(draw):
    src = S.DrawSrc(draw)
    sc = S.gen_discovery(src, n_chroms=(1, 3), genes_per_chrom=(1, 3), novel_per_gene=(0, 1), reads_known=(1, 5),
                         reads_novel=(3, 6), intergenic_p=0.2, max_exons=5, exact=src.bool(0.5), delta=4,
                         overlap_p=0.5)
    sc.pop("truth", None)
    sc["gtf"].update({"extras": src.bool(0.4), "cds": src.bool(0.4), "exon_ids": src.bool(0.3)})
    lens = {c[0]: c[1] for c in sc["chroms"]}
    sc["reads"] = [r for r in sc["reads"] if R.cigar_blocks(r["p"], r["cg"])[-1][1] + 45 < lens[r["c"]]]
    for i in range(src.int(0, 4)):
        sc["reads"].append(S.unmapped_read("u%d" % i))
    sc["opts"] = ["--data_type", src.choice(["nanopore", "pacbio_ccs"]), "--no_gzip", "--threads",
                  str(src.choice([1, 2]))]
    if src.bool(0.5):
        sc["opts"] += ["--count_exons"]
    dim = src.choice(["annotation", "annotation", "bam"])
    if dim == "annotation":
        sc["variant"] = {"dim": "annotation", "form": src.choice(["gtf", "gtf.gz", "db"]),
                         "complete": src.bool(0.5), "cache": src.choice(["fresh", "reused", "clean_start"])}
        if sc["variant"]["form"] == "gtf" and sc["variant"]["complete"] and sc["variant"]["cache"] == "fresh":
            sc["variant"]["cache"] = "reused"
    else:
        k = src.int(2, 4)
        sc["variant"] = {"dim": "bam", "k": k, "assign": [src.int(0, k - 1) for _ in sc["reads"]]}
        sc["opts"] += ["--no_model_construction"]
    return sc


def evaluate(case, ctx):
    sc = case
    v = sc["variant"]
    base = pipeline.run_case(sc, ctx)
    try:
        if base.code != 0:
            ctx.note("baseline_crash:" + base.crash_signature())
            return
        d = base.dir
        out2 = os.path.join(d, "out2")
        if v["dim"] == "annotation":
            gtf = base.paths["gtf"]
            extra = []
            genedb = gtf
            # a second copy of the inputs so that cached conversions of the baseline path are not picked up unless asked
            ind = os.path.join(d, "in2")
            os.makedirs(ind, exist_ok=True)
            if v["form"] == "gtf":
                genedb = os.path.join(ind, "annot.gtf")
                shutil.copy(gtf, genedb)
            elif v["form"] == "gtf.gz":
                genedb = os.path.join(ind, "annot.gtf.gz")
                with open(gtf, "rb") as f, gzip.open(genedb, "wb") as g:
                    g.write(f.read())
            else:
                genedb = os.path.join(ind, "annot.db")
                cmd = [PYTHON, os.path.join(REPO, "src", "gtf2db.py"), "-i", gtf, "-o", genedb]
                if v["complete"]:
                    cmd.append("-c")
                p = subprocess.run(cmd, capture_output=True, text=True, cwd=ind)
                if p.returncode != 0 or not os.path.exists(genedb):
                    ctx.harness_errors.append("gtf2db.py failed: " + (p.stderr or p.stdout)[-500:])
                    return
            home = os.path.join(d, "home2")
            if v["cache"] == "reused":
                # HOME of an earlier conversion of the same file: run the variant twice, compare the second run
                pass
            argv = ["--reference", base.paths["fasta"], "-o", out2, "--genedb", genedb, "--bam"] + base.paths["bams"] + \
                list(sc["opts"])
            if v["complete"] and v["form"] != "db":
                argv.append("--complete_genedb")
            if v["cache"] == "clean_start":
                argv.append("--clean_start")
            from vlib import run
            ctx.pipeline_runs += 1
            code = run.run_fork(argv, home, os.path.join(d, "out2.log"))
            if code == 0 and v["cache"] == "reused":
                out3 = os.path.join(d, "out3")
                argv3 = [a if a != out2 else out3 for a in argv]
                ctx.pipeline_runs += 1
                code = run.run_fork(argv3, home, os.path.join(d, "out3.log"))
                out2 = out3
            if code != 0:
                r2 = pipeline.Result(d, code, out2, base.paths, os.path.join(d, os.path.basename(out2) + ".log"))
                ctx.violation("C12:equivalent-annotation-form-fails:%s:%s" % (v["form"], r2.crash_signature().split("@")[0]),
                              {"variant": v, "exit": code, "log": r2.log_tail(10)}, case)
                return
            diffs = compare.diff_dirs(base.out, "OUT", out2, "OUT")
            for kind, f, det in diffs:
                ctx.violation("C12:annotation-form-changes-output:%s:%s:%s" % (
                    v["form"], "complete" if v["complete"] else "inferred", f),
                    {"kind": kind, "file": f, "detail": det, "variant": v}, case)
            ctx.cls("form=" + v["form"], "complete" if v["complete"] else "inferred", "cache=" + v["cache"])
            spans = sorted((g["chr"], min(t["exons"][0][0] for t in g["transcripts"]),
                            max(t["exons"][-1][1] for t in g["transcripts"])) for g in sc["genes"])
            ov = any(a[0] == b[0] and b[1] <= a[2] for a, b in zip(spans, spans[1:]))
            if ov:
                ctx.mark_nontrivial(case_hash(case))
                ctx.sample(pipeline.summarize(sc, {"variant": v}), limit=2)
        else:
            sc2 = copy.deepcopy(sc)
            sc2["nfiles"] = v["k"]
            for r, fi in zip(sc2["reads"], v["assign"]):
                r["file"] = fi
            ind = os.path.join(d, "in2")
            os.makedirs(ind, exist_ok=True)
            bams = build.write_bams(sc2, base.paths["genome"], ind, prefix="part")
            paths2 = dict(base.paths)
            paths2["bams"] = bams
            res2 = pipeline.run_case(sc2, ctx, d=d, paths=paths2, out_name="out2", home=os.path.join(d, "home2"))
            if res2.code != 0:
                ctx.violation("C12:split-bam-run-fails:" + res2.crash_signature().split("@")[0],
                              {"variant": {"k": v["k"]}, "log": res2.log_tail(10)}, case)
                return
            diffs = compare.diff_dirs(base.out, "OUT", res2.out, "OUT", multiset=True, only=set(BAM_FILES))
            for kind, f, det in diffs:
                ctx.violation("C12:bam-partition-changes-output:%s" % f, {"kind": kind, "file": f, "detail": det,
                                                                          "k": v["k"]}, case)
            ctx.cls("bam_partition_k=%d" % v["k"])
            # non-trivial: reads of one gene end up in different files
            by_gene = {}
            for r, fi in zip(sc["reads"], v["assign"]):
                if r.get("c") is None:
                    continue
                by_gene.setdefault((r["c"], r["p"] // 3000), set()).add(fi)
            if any(len(x) > 1 for x in by_gene.values()):
                ctx.mark_nontrivial(case_hash(case))
                ctx.sample(pipeline.summarize(sc, {"variant": {"dim": "bam", "k": v["k"]}}), limit=2)
    finally:
        base.cleanup()


def stages(tier):
    q = tier == "quick"
    return [Stage("representations", "hyp", evaluate, n=160 if q else 2000, strategy=scenarios)]
