"""C15 - saved read assignments round-trip losslessly and can be reused."""
import io
import os
import sys

import hypothesis
from hypothesis import strategies as st, settings, HealthCheck
from hypothesis.stateful import RuleBasedStateMachine, rule, initialize, run_state_machine_as_test

from vlib import REPO, parse, pipeline, scenario as S
from vlib.shard import Stage, case_hash, time_limit, CaseTimeout

ID = "C15"
LEVEL = "exploration"
TECHNIQUE = "property-based testing (Hypothesis): object-level round trips over the documented field domains, a " \
            "rule-based state machine over streams of gene-info/assignment records read back by both loaders, and a " \
            "save-then-reuse differential on full pipeline runs"
RULE = ("(i) Hypothesis-generated MatchEvent / IsoformMatch / ReadAssignment / BasicReadAssignment objects with every "
        "enum member, empty lists, None ids, negative event offsets, sentinel positions, non-ASCII strings where the "
        "source can be non-ASCII, all three dict value kinds; (ii) RuleBasedStateMachine appending records to a "
        "TmpFileAssignmentPrinter, then reading the file with the full and the abridged loader; (iii) pipeline runs "
        "with --keep_tmp followed by --read_assignments on the saved files. Non-trivial = object with >=1 match "
        "carrying >=1 event and a negative/sentinel value, stream with >=2 gene blocks and >=3 assignments, reuse run "
        "with >=1 novel model; distinct by content hash.")
ASSUMPTIONS = ["string domains: BAM read names, chromosome names and tag values are printable ASCII; group names "
               "(file: tables), gene/transcript ids (GTF) and attribute values may be any UTF-8 text",
               "penalty scores compared on the 2^-20 fixed-point grid of the format"]

_m = None


class StrictBytesIO(io.BytesIO):
    """BytesIO that refuses short reads: a reader that has lost byte alignment stops at once instead of looping
    over a garbage list length (a correct round trip never reads past the end)."""

    def read(self, n=-1):
        b = super().read(n)
        if n is not None and n >= 0 and len(b) < n:
            raise EOFError("short read: wanted %d bytes, got %d" % (n, len(b)))
        return b


# runs of this module take 1-3 s; a reader that lost byte alignment can loop over a garbage length for hours
RUN_LIMIT = 150


def M():
    global _m
    if _m is None:
        if REPO not in sys.path:
            sys.path.insert(0, REPO)
        import src.isoform_assignment as ia
        import src.serialization as ser
        import src.polya_finder as pf
        import src.assignment_io as aio
        import src.gene_info as gi
        _m = (ia, ser, pf, aio, gi)
    return _m


ascii_id = st.text(alphabet=st.characters(min_codepoint=33, max_codepoint=126), min_size=1, max_size=40)
utf_text = st.text(alphabet=st.characters(blacklist_categories=("Cs",), max_codepoint=0x2FFF), min_size=0, max_size=24)
mixed_id = st.one_of(ascii_id, ascii_id, utf_text.filter(lambda s: len(s) > 0))
SENT = [(1 << 30) - 1, (1 << 30) + 1, (1 << 31), (1 << 31) - 1]
pos31 = st.one_of(st.integers(0, 300_000_000), st.sampled_from(SENT), st.integers(0, 5))
region = st.one_of(st.tuples(pos31, pos31), st.sampled_from([(1 << 31, 1 << 31), ((1 << 30) - 1, (1 << 30) - 1),
                                                            ((1 << 30) + 1, (1 << 30) + 1)]))
neg_int = st.one_of(st.integers(-(2 ** 31 - 1), 2 ** 31 - 1), st.integers(-60, 60), st.just(0))
polya_pos = st.one_of(st.just(-1), st.integers(1, 300_000_000))


@st.composite
def events(draw):
    ia = M()[0]
    return {"type": draw(st.sampled_from([e.name for e in ia.MatchEventSubtype])), "iso": draw(region),
            "read": draw(region), "info": draw(neg_int)}


@st.composite
def matches(draw):
    ia = M()[0]
    return {"cls": draw(st.sampled_from([e.name for e in ia.MatchClassification])),
            "gene": draw(st.one_of(st.none(), mixed_id)), "tr": draw(st.one_of(st.none(), mixed_id)),
            "strand": draw(st.sampled_from(["+", "-", "."])),
            "penalty": draw(st.integers(0, 4000)) / 1024.0,
            "events": draw(st.lists(events(), min_size=0, max_size=4))}


exon_list = st.lists(st.tuples(st.integers(1, 50000), st.integers(1, 5000)), min_size=1, max_size=6).map(
    lambda l: [(sum(a + b for a, b in l[:i]) + l[i][0], sum(a + b for a, b in l[:i]) + l[i][0] + l[i][1] - 1)
               for i in range(len(l))])


@st.composite
def assignments(draw):
    ia = M()[0]
    ex = draw(exon_list)
    cex = draw(st.one_of(st.just(ex), exon_list))
    dict_val = st.one_of(utf_text, st.integers(-(2 ** 31 - 1), 2 ** 31 - 1),
                         st.tuples(st.integers(-(2 ** 31 - 1), 2 ** 31 - 1), st.integers(-1000, 1000)))
    return {"read_id": draw(ascii_id), "type": draw(st.sampled_from([e.name for e in ia.ReadAssignmentType])),
            "gtype": draw(st.sampled_from([e.name for e in ia.ReadAssignmentType])),
            "matches": draw(st.lists(matches(), min_size=0, max_size=3)), "region": (draw(st.integers(0, 10 ** 8)),
                                                                                     draw(st.integers(0, 10 ** 8))),
            "exons": ex, "cexons": cex, "multimapper": draw(st.booleans()), "polya_found": draw(st.booleans()),
            "cage": draw(st.booleans()), "polya": [draw(polya_pos) for _ in range(4)],
            "group": draw(st.one_of(st.just("NA"), mixed_id)), "mstrand": draw(st.sampled_from(["+", "-", "."])),
            "strand": draw(st.sampled_from(["+", "-", "."])), "chr": draw(ascii_id),
            "mapq": draw(st.integers(0, 255)), "info": draw(st.dictionaries(ascii_id, dict_val, max_size=3)),
            "attrs": draw(st.dictionaries(ascii_id, st.one_of(utf_text, ascii_id), max_size=3)),
            "introns_match": draw(st.booleans()),
            "eprof": draw(st.lists(st.sampled_from([-2, -1, 0, 1]), max_size=12)),
            "iprof": draw(st.lists(st.sampled_from([-2, -1, 0, 1]), max_size=12))}


def build_assignment(d):
    ia, ser, pf, aio, gi = M()
    ms = []
    for m in d["matches"]:
        evs = [ia.MatchEvent(ia.MatchEventSubtype[e["type"]], tuple(e["iso"]), tuple(e["read"]), e["info"])
               for e in m["events"]]
        im = ia.IsoformMatch(ia.MatchClassification[m["cls"]], m["gene"], m["tr"], None, m["strand"], m["penalty"])
        im.match_subclassifications = evs
        ms.append(im)
    a = ia.ReadAssignment(d["read_id"], ia.ReadAssignmentType[d["type"]], ms)
    a.gene_assignment_type = ia.ReadAssignmentType[d["gtype"]]
    a.genomic_region = tuple(d["region"])
    a.exons = [tuple(x) for x in d["exons"]]
    a.corrected_exons = [tuple(x) for x in d["cexons"]]
    a.multimapper, a.polyA_found, a.cage_found = d["multimapper"], d["polya_found"], d["cage"]
    a.polya_info = pf.PolyAInfo(*d["polya"])
    a.read_group, a.mapped_strand, a.strand, a.chr_id = d["group"], d["mstrand"], d["strand"], d["chr"]
    a.mapping_quality = d["mapq"]
    a.additional_info = {k: (tuple(v) if isinstance(v, list) else v) for k, v in d["info"].items()}
    a.additional_attributes = dict(d["attrs"])
    a.introns_match = d["introns_match"]
    a.exon_gene_profile = list(d["eprof"])
    a.intron_gene_profile = list(d["iprof"])
    return a


def fields(a):
    return {"assignment_id": a.assignment_id, "read_id": a.read_id, "region": tuple(a.genomic_region),
            "exons": [tuple(x) for x in a.exons], "cexons": [tuple(x) for x in a.corrected_exons],
            "flags": (a.multimapper, a.polyA_found, a.cage_found),
            "polya": (a.polya_info.external_polya_pos, a.polya_info.external_polyt_pos,
                      a.polya_info.internal_polya_pos, a.polya_info.internal_polyt_pos),
            "group": a.read_group, "mstrand": a.mapped_strand, "strand": a.strand, "chr": a.chr_id,
            "mapq": a.mapping_quality, "type": a.assignment_type, "gtype": a.gene_assignment_type,
            "matches": [(m.assigned_gene, m.assigned_transcript, m.transcript_strand, m.match_classification,
                         int(m.penalty_score * (1 << 20)),
                         [(e.event_type, tuple(e.isoform_region), tuple(e.read_region), e.event_info)
                          for e in m.match_subclassifications]) for m in a.isoform_matches],
            "info": dict(a.additional_info), "attrs": dict(a.additional_attributes),
            "introns_match": bool(a.introns_match), "eprof": list(a.exon_gene_profile),
            "iprof": list(a.intron_gene_profile)}


def classify_failure(d, exc):
    """root-cause signature for an exception / mismatch on assignment dict d"""
    strs = [d["group"], d["chr"], d["read_id"]] + [x for m in d["matches"] for x in (m["gene"], m["tr"]) if x] + \
        list(d["attrs"].values()) + [v for v in d["info"].values() if isinstance(v, str)] + list(d["info"]) + \
        list(d["attrs"])
    if any(len(s.encode("utf-8")) != len(s) for s in strs):
        return "non-ascii-string"
    if any(isinstance(v, int) and v < 0 or isinstance(v, (list, tuple)) and min(v) < 0 for v in d["info"].values()):
        return "negative-int-in-dict"
    return "other"


def sig(detail, cause):
    """one signature per root cause where the trigger is recognised, detailed signature otherwise"""
    if "non-ascii-string" in cause:
        return "C15:round-trip-broken-by-non-ascii-string"
    if "negative-int-in-dict" in cause:
        return "C15:negative-int-dict-value-changed"
    return "C15:" + detail


def eval_object(case, ctx):
    ia, ser, pf, aio, gi = M()
    d = case
    a = build_assignment(d)
    buf = io.BytesIO()
    try:
        a.serialize(buf)
    except Exception as e:
        ctx.violation(sig("serialize-raised:" + type(e).__name__, classify_failure(d, e)),
                      {"error": str(e)[:200]}, case)
        return
    data = buf.getvalue()
    nt = any(m["events"] for m in d["matches"]) and any(
        e["info"] < 0 or e["iso"][0] in SENT or e["read"][0] in SENT for m in d["matches"] for e in m["events"])
    if nt:
        ctx.mark_nontrivial(case_hash(case))
        ctx.sample({"read_id": d["read_id"], "type": d["type"], "matches": d["matches"][:1], "polya": d["polya"],
                    "group": d["group"], "info": {k: v for k, v in list(d["info"].items())[:2]}}, limit=3)
    # full reader
    try:
        inp = StrictBytesIO(data)
        b = ia.ReadAssignment.deserialize(inp, None)
        end_full = inp.tell()
    except Exception as e:
        ctx.violation(sig("deserialize-raised:" + type(e).__name__, classify_failure(d, e)),
                      {"error": str(e)[:200]}, case)
        return
    if end_full != len(data):
        ctx.violation(sig("full-reader-not-byte-aligned", classify_failure(d, None)),
                      {"consumed": end_full, "written": len(data)}, case)
    fa, fb = fields(a), fields(b)
    for k in fa:
        if fa[k] != fb[k]:
            ctx.violation(sig("field-changed-by-round-trip:" + k, classify_failure(d, None)),
                          {"field": k, "written": repr(fa[k])[:300], "read": repr(fb[k])[:300]}, case)
            break
    # abridged reader
    try:
        inp = StrictBytesIO(data)
        q = ia.BasicReadAssignment.deserialize_from_read_assignment(inp)
        end_q = inp.tell()
    except Exception as e:
        ctx.violation(sig("quick-reader-raised:" + type(e).__name__, classify_failure(d, e)),
                      {"error": str(e)[:200]}, case)
        return
    if end_q != len(data):
        ctx.violation(sig("quick-reader-not-byte-aligned", classify_failure(d, None)),
                      {"consumed": end_q, "written": len(data)}, case)
    ref = ia.BasicReadAssignment(a)

    def basic_fields(x):
        return (x.assignment_id, x.read_id, x.chr_id, x.start, x.end, tuple(x.genomic_region), x.multimapper,
                x.polyA_found, x.assignment_type, x.gene_assignment_type, int(x.penalty_score * (1 << 20)),
                sorted(x.genes), sorted(x.isoforms))
    if basic_fields(q) != basic_fields(ref):
        ctx.violation(sig("quick-reader-disagrees-with-full-object", classify_failure(d, None)),
                      {"quick": repr(basic_fields(q))[:400], "expected": repr(basic_fields(ref))[:400]}, case)
    # BasicReadAssignment own format + pickled state
    try:
        buf2 = io.BytesIO()
        ref.serialize(buf2)
        inp2 = StrictBytesIO(buf2.getvalue())
        r2 = ia.BasicReadAssignment.deserialize(inp2)
        if inp2.tell() != len(buf2.getvalue()) or basic_fields(r2) != basic_fields(ref):
            ctx.violation(sig("basic-assignment-round-trip-differs", classify_failure(d, None)),
                          {"read": repr(basic_fields(r2))[:400], "expected": repr(basic_fields(ref))[:400]}, case)
        r3 = ia.BasicReadAssignment.__new__(ia.BasicReadAssignment)
        r3.__setstate__(ref.__getstate__())
        if basic_fields(r3) != basic_fields(ref):
            ctx.violation("C15:basic-assignment-pickle-state-differs", {}, case)
    except Exception as e:
        ctx.violation(sig("basic-assignment-round-trip-raised:" + type(e).__name__, classify_failure(d, e)),
                      {"error": str(e)[:200]}, case)


# ------------------------------------------------------------------------------------------------ stateful streams

def run_machine(shard, nshards, seed, n, ctx):
    ia, ser, pf, aio, gi = M()
    workdir = ctx.workdir

    class Params:
        pass

    class Stream(RuleBasedStateMachine):
        def __init__(self):
            super().__init__()
            self.ops = []
            self.path = os.path.join(workdir, "stream.save")

        @initialize(start=st.integers(1, 10 ** 6), ln=st.integers(10, 10 ** 5), chrom=ascii_id)
        def first_block(self, start, ln, chrom):
            self.ops.append(("gene", chrom, start, start + ln))

        @rule(start=st.integers(1, 10 ** 6), ln=st.integers(10, 10 ** 5), chrom=ascii_id)
        def gene_block(self, start, ln, chrom):
            self.ops.append(("gene", chrom, start, start + ln))

        @rule(a=assignments())
        def assignment(self, a):
            self.ops.append(("read", a))

        def teardown(self):
            ctx.evaluations += 1
            ops = self.ops
            case = {"ops": [list(o) for o in ops]}
            printer = aio.TmpFileAssignmentPrinter(self.path, Params())
            written = []
            try:
                for o in ops:
                    if o[0] == "gene":
                        g = gi.GeneInfo.from_region(o[1], o[2], o[3], 0)
                        printer.add_gene_info(g)
                        written.append(("gene", o[1], o[2], o[3]))
                    else:
                        a = build_assignment(o[1])
                        printer.add_read_info(a)
                        written.append(("read", fields(a), ia.BasicReadAssignment(a)))
            except Exception as e:
                kinds = set(classify_failure(o[1], e) for o in ops if o[0] == "read")
                ctx.violation(sig("stream-write-raised:" + type(e).__name__, "+".join(sorted(kinds))),
                              {"error": str(e)[:200]}, case)
                printer.__del__()
                return
            finally:
                pass
            printer.__del__()
            printer.output_file.close()
            n_reads = sum(1 for o in ops if o[0] == "read")
            n_genes = len(ops) - n_reads
            if n_genes >= 2 and n_reads >= 3:
                ctx.mark_nontrivial(case_hash(case))
                ctx.sample({"ops": [o[0] if o[0] == "gene" else "read:" + o[1]["read_id"] for o in ops][:12]}, limit=2)
            kinds = "+".join(sorted(set(classify_failure(o[1], None) for o in ops if o[0] == "read")))
            # full loader
            try:
              with time_limit(20):
                loader = aio.NormalTmpFileAssignmentLoader(self.path, None, None)
                got = []
                while loader.has_next():
                    if loader.is_gene_info():
                        g = loader.get_object()
                        got.append(("gene", g.chr_id, g.start, g.end))
                    elif loader.is_read_assignment():
                        a = loader.get_object()
                        got.append(("read", fields(a)))
                    else:
                        ctx.violation(sig("stream-full-loader-lost-alignment", kinds), {"id": loader.current_id},
                                      case)
                        break
                loader.__del__()
                exp = [w[:4] if w[0] == "gene" else ("read", w[1]) for w in written]
                if got != exp and True:
                    ctx.violation(sig("stream-full-loader-differs", kinds),
                                  {"n_written": len(exp), "n_read": len(got)}, case)
            except Exception as e:
                ctx.violation(sig("stream-full-loader-raised:" + type(e).__name__, kinds),
                              {"error": str(e)[:200]}, case)
            # abridged loader
            try:
              with time_limit(20):
                loader = aio.QuickTmpFileAssignmentLoader(self.path)
                got = []
                while loader.has_next():
                    if loader.is_gene_info():
                        loader.get_object()
                        got.append("gene")
                    elif loader.is_read_assignment():
                        q = loader.get_object()
                        got.append((q.read_id, q.chr_id, q.start, q.end, q.assignment_type, sorted(q.isoforms)))
                    else:
                        ctx.violation(sig("stream-quick-loader-lost-alignment", kinds), {"id": loader.current_id},
                                      case)
                        break
                loader.__del__()
                exp = ["gene" if w[0] == "gene" else (w[2].read_id, w[2].chr_id, w[2].start, w[2].end,
                                                       w[2].assignment_type, sorted(w[2].isoforms)) for w in written]
                if got != exp and True:
                    ctx.violation(sig("stream-quick-loader-differs", kinds),
                                  {"n_written": len(exp), "n_read": len(got)}, case)
            except Exception as e:
                ctx.violation(sig("stream-quick-loader-raised:" + type(e).__name__, kinds),
                              {"error": str(e)[:200]}, case)

    run_state_machine_as_test(
        hypothesis.seed(seed)(Stream),
        settings=settings(max_examples=n, stateful_step_count=12, database=None, deadline=None,
                          suppress_health_check=list(HealthCheck), report_multiple_bugs=False,
                          phases=[hypothesis.Phase.generate]))


def eval_stream_replay(case, ctx):
    """replay of a stream case outside the state machine"""
    ia, ser, pf, aio, gi = M()

    class Params:
        pass
    path = os.path.join(ctx.workdir, "replay.save")
    kinds = "+".join(sorted(set(classify_failure(o[1], None) for o in case["ops"] if o[0] == "read")))
    printer = aio.TmpFileAssignmentPrinter(path, Params())
    try:
        for o in case["ops"]:
            if o[0] == "gene":
                printer.add_gene_info(gi.GeneInfo.from_region(o[1], o[2], o[3], 0))
            else:
                printer.add_read_info(build_assignment(o[1]))
    except Exception as e:
        ctx.violation(sig("stream-write-raised:" + type(e).__name__, kinds), {"error": str(e)[:200]}, case)
        printer.__del__()
        return
    printer.__del__()
    try:
      with time_limit(40):
        for cls_, args in ((aio.NormalTmpFileAssignmentLoader, (path, None, None)),
                           (aio.QuickTmpFileAssignmentLoader, (path,))):
            loader = cls_(*args)
            n = 0
            while loader.has_next():
                if not (loader.is_gene_info() or loader.is_read_assignment()):
                    ctx.violation(sig("stream-loader-lost-alignment", kinds), {"loader": cls_.__name__}, case)
                    break
                loader.get_object()
                n += 1
            if n != len(case["ops"]):
                ctx.violation(sig("stream-loader-differs", kinds), {"loader": cls_.__name__, "read": n}, case)
    except Exception as e:
        ctx.violation(sig("stream-loader-raised:" + type(e).__name__, kinds), {"error": str(e)[:200]}, case)


# ------------------------------------------------------------------------------------------------ reuse of saved runs

@st.composite
def reuse_scenarios(draw):
    src = S.DrawSrc(draw)
    sc = S.gen_discovery(src, n_chroms=(1, 3), genes_per_chrom=(1, 2), novel_per_gene=(0, 2), reads_known=(1, 5),
                         reads_novel=(3, 7), intergenic_p=0.3, max_exons=5, exact=src.bool(0.5), delta=4)
    sc.pop("truth", None)
    grouped = src.bool(0.4)
    if grouped:
        for r in sc["reads"]:
            if src.bool(0.8):
                r["tags"] = {"RG": src.choice(["gA", "gB", "grp C"])}
    # what the saving run derives from the BAM file itself must be restored from the saves as well
    for i in range(src.choice([0, 0, 1, 3])):
        sc["reads"].append(S.unmapped_read("u%d" % i))
    sc["restart_with_bam"] = src.bool(0.3)
    # an experiment with two files switches on file-name grouping and the technical-replica filter by itself
    if not grouped and src.bool(0.3):
        sc["nfiles"] = 2
        for r in sc["reads"]:
            r["file"] = src.int(0, 1)
    sc["opts"] = ["--data_type", src.choice(["nanopore", "pacbio_ccs"]), "--no_gzip", "--threads",
                  str(src.choice([1, 2]))]
    sc["group_mode"] = src.choice(["tag", "tag", "file"]) if grouped else None
    if grouped and sc["group_mode"] == "tag":
        sc["opts"] += ["--read_group", "tag:RG"]
    # characters that mean something to glob / shells in the name of the output folder
    sc["out_name"] = src.choice(["out", "out", "out", "run[1]", "o*t", "r?n"])
    if src.bool(0.4):
        sc["opts"] += ["--count_exons"]
    if src.bool(0.3):
        sc["opts"] += ["--check_canonical"]
    if src.bool(0.3):
        sc["opts"] += ["--sqanti_output"]
    return sc


def eval_reuse(case, ctx):
    sc = case
    gextra = []
    d0 = ctx.scratch()
    if sc.get("group_mode") == "file":
        os.makedirs(os.path.join(d0, "in"), exist_ok=True)
        tp = os.path.join(d0, "in", "groups.tsv")
        with open(tp, "w") as f:
            for r in sc["reads"]:
                if r.get("tags"):
                    f.write("%s\t%s\n" % (r["n"], r["tags"]["RG"]))
        gextra = ["--read_group", "file:" + tp]
    res = pipeline.run_case(sc, ctx, extra=["--keep_tmp"] + gextra, d=d0, out_name=sc.get("out_name", "out"),
                            timeout=RUN_LIMIT)
    try:
        if res.code != 0:
            ctx.note("crash:" + res.crash_signature())
            return
        save = os.path.join(res.out, "OUT", "aux", "OUT.save")
        from vlib import build
        out2 = os.path.join(res.dir, "out2")
        argv = ["--reference", res.paths["fasta"], "-o", out2, "--genedb", res.paths["gtf"], "--complete_genedb",
                "--read_assignments", save] + list(sc["opts"]) + gextra
        if sc.get("restart_with_bam"):
            argv += ["--bam"] + res.paths["bams"]
        from vlib import run
        ctx.pipeline_runs += 1
        code = run.run_fork(argv, os.path.join(res.dir, "home2"), os.path.join(res.dir, "out2.log"),
                            timeout=RUN_LIMIT)
        if code == -9:
            ctx.note("restarted_run_exceeded_%ds" % RUN_LIMIT)      # inconclusive, not a verdict
            return
        if code != 0:
            r2 = pipeline.Result(res.dir, code, out2, res.paths, os.path.join(res.dir, "out2.log"))
            ctx.violation("C15:reuse-run-failed:" + r2.crash_signature().split("@")[0],
                          {"exit": code, "log": r2.log_tail(12)}, case)
            return
        f1 = parse.sample_files(res.out, "OUT")
        # a saves-only restart names the experiment OUT0, a restart that is given the BAM files again OUT
        p2 = "OUT0" if os.path.isdir(os.path.join(out2, "OUT0")) else "OUT"
        f2 = parse.sample_files(out2, p2)
        names1 = set(n[len("OUT."):] for n in f1)
        names2 = set(n[len(p2) + 1:] for n in f2)
        if names1 != names2:
            ctx.violation("C15:reuse-run-file-set-differs", {"only_first": sorted(names1 - names2),
                                                             "only_reuse": sorted(names2 - names1)}, case)
        novel = 0
        for n in sorted(names1 & names2):
            a = [l.replace("OUT0", "OUT") for l in parse.strip_header(f1["OUT." + n])]
            b = [l.replace("OUT0", "OUT") for l in parse.strip_header(f2[p2 + "." + n])]
            if n == "transcript_models.gtf":
                novel = sum(1 for l in a if "\ttranscript\t" in l and ("nic\"" in l))
            if a != b:
                diff = next((i for i, (x, y) in enumerate(zip(a, b)) if x != y), min(len(a), len(b)))
                ctx.violation("C15:reuse-run-output-differs:" + n,
                              {"file": n, "line": diff, "first": (a[diff] if diff < len(a) else None),
                               "reuse": (b[diff] if diff < len(b) else None)}, case)
        ctx.cls("reuse:novel>0" if novel else "reuse:novel=0")
        if novel:
            ctx.mark_nontrivial(case_hash(case))
            ctx.sample(pipeline.summarize(sc, {"novel_models": novel}), limit=2)
    finally:
        res.cleanup()


@st.composite
def multi_reuse_scenarios(draw):
    """A saved run with two experiments (YAML) restarted from its saves alone: --read_assignments E1.save E2.save."""
    sc = draw(reuse_scenarios())
    sc["opts"] = [o for o in sc["opts"] if o not in ("--read_group", "tag:RG")]
    sc["split"] = [draw(st.booleans()) for _ in sc["reads"]]
    if all(sc["split"]) or not any(sc["split"]):
        sc["split"][0] = not sc["split"][0]
    return sc


def eval_multi_reuse(case, ctx):
    import json
    from vlib import build, run
    sc = case
    d = ctx.scratch()
    try:
        paths = build.materialise(sc, os.path.join(d, "in"))
        bams = {}
        for name, flag in (("E1", True), ("E2", False)):
            sub = {"chroms": sc["chroms"], "nfiles": 1,
                   "reads": [dict(r, file=0) for r, s_ in zip(sc["reads"], sc["split"]) if s_ == flag]}
            bams[name] = build.write_bams(sub, paths["genome"], os.path.join(d, "in"), prefix=name + "_")
        yp = os.path.join(d, "in", "exp.yaml")
        with open(yp, "w") as f:
            json.dump([{"data format": "bam"}] + [{"name": n, "long read files": bams[n]} for n in ("E1", "E2")], f)
        common = ["--reference", paths["fasta"], "--genedb", paths["gtf"], "--complete_genedb"] + list(sc["opts"])
        out1 = os.path.join(d, "out1")
        ctx.pipeline_runs += 1
        if run.run_fork(common + ["--yaml", yp, "-o", out1, "--keep_tmp"], os.path.join(d, "home1"),
                        os.path.join(d, "out1.log"), timeout=RUN_LIMIT) != 0:
            ctx.note("saving_run_failed")
            return
        saves = [os.path.join(out1, n, "aux", n + ".save") for n in ("E1", "E2")]
        out2 = os.path.join(d, "out2")
        ctx.pipeline_runs += 1
        log2 = os.path.join(d, "out2.log")
        code = run.run_fork(common + ["--read_assignments"] + saves + ["-o", out2], os.path.join(d, "home2"), log2,
                            timeout=RUN_LIMIT)
        if code == -9:
            ctx.note("restarted_run_exceeded_%ds" % RUN_LIMIT)
            return
        if code != 0:
            r2 = pipeline.Result(d, code, out2, paths, log2)
            ctx.violation("C15:multi-experiment-reuse-run-failed:" + r2.crash_signature().split("@")[0],
                          {"exit": code, "log": r2.log_tail(10)}, case)
            return
        for i, n in enumerate(("E1", "E2")):
            p2 = "OUT%d" % i
            f1 = parse.sample_files(out1, n)
            f2 = parse.sample_files(out2, p2)
            names1 = set(x[len(n) + 1:] for x in f1)
            names2 = set(x[len(p2) + 1:] for x in f2)
            if names1 != names2:
                ctx.violation("C15:multi-experiment-reuse-file-set-differs",
                              {"experiment": n, "only_saving": sorted(names1 - names2),
                               "only_reuse": sorted(names2 - names1)}, case)
            for x in sorted(names1 & names2):
                a = [l.replace(n, "@") for l in parse.strip_header(f1[n + "." + x])]
                b = [l.replace(p2, "@") for l in parse.strip_header(f2[p2 + "." + x])]
                if a != b:
                    k = next((j for j, (u, v) in enumerate(zip(a, b)) if u != v), min(len(a), len(b)))
                    ctx.violation("C15:multi-experiment-reuse-output-differs:" + x,
                                  {"experiment": n, "file": x, "line": k, "saving": a[k] if k < len(a) else None,
                                   "reuse": b[k] if k < len(b) else None}, case)
        ctx.cls("multi-reuse")
        ctx.mark_nontrivial(case_hash(case))
    finally:
        import shutil
        shutil.rmtree(d, ignore_errors=True)


def stages(tier):
    q = tier == "quick"
    return [Stage("objects", "hyp", eval_object, n=24000 if q else 800000, strategy=assignments),
            # the same generator and oracle driven by libFuzzer (atheris) with coverage feedback from /repo/src
            Stage("fuzz_objects", "hypfuzz", eval_object, n=6000 if q else 400000, strategy=assignments,
                  shards=4 if q else 16),
            Stage("streams", "func", eval_stream_replay, n=400 if q else 20000, run=run_machine),
            Stage("reuse", "hyp", eval_reuse, n=48 if q else 600, strategy=reuse_scenarios),
            Stage("multi_reuse", "hyp", eval_multi_reuse, n=32 if q else 400, strategy=multi_reuse_scenarios)]
