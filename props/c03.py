"""C03 - output annotations are well-formed and reproduce reference transcripts verbatim."""
from hypothesis import strategies as st

from vlib import build, parse, pipeline, reads as R, scenario as S
from vlib.refmodel import gtfcheck
from vlib.shard import Stage, case_hash

ID = "C03"
LEVEL = "exploration"
TECHNIQUE = "property-based testing (Hypothesis): generated discovery scenarios through the full pipeline, " \
            "validity predicate over both output GTFs against input GTF and chromosome lengths"
RULE = ("Hypothesis-generated scenarios: 1-4 chromosomes, with/without annotation, annotated + unannotated isoforms, "
        "graph noise, every model construction strategy and data type, polyA/canonical/unspliced options. "
        "Non-trivial = annotated run reporting >=1 novel and >=1 reference transcript, or annotation-free run "
        "reporting >=2 models; distinct by scenario hash. Stage split: sparsely covered long genes processed in >= 3 "
        "regions with a compact reference gene lying across the first split point (reads on both sides).")
ASSUMPTIONS = ["'exons are sorted' is read as ascending on '+' and descending on '-' in file order (GTF convention "
               "used by IsoQuant) with pairwise disjoint coordinates"]


def common_opts(src, annotated=True):
    dt = src.choice(S.DATA_TYPES)
    o = ["--data_type", dt, "--no_gzip", "--threads", str(src.choice([1, 1, 2, 4]))]
    if src.bool(0.6):
        o += ["--model_construction_strategy", src.choice(S.MODEL_STRATEGIES)]
    if src.bool(0.3):
        o += ["--report_novel_unspliced", src.choice(["true", "false"])]
    if src.bool(0.3):
        o += ["--polya_requirement", src.choice(["auto", "never", "always"])]
    if src.bool(0.3):
        o += ["--report_canonical", src.choice(["auto", "only_canonical", "only_stranded", "all"])]
    if src.bool(0.2):
        o += ["--check_canonical"]
    if annotated and src.bool(0.2):
        o += ["--sqanti_output"]
    if src.bool(0.15):
        o += ["--high_memory"]
    return o


@st.composite
def scenarios(draw):
    src = S.DrawSrc(draw)
    if src.bool(0.08):
        # a gene whose reads form two separate clusters, with another gene's cluster between them
        sc = S.gen_islands_locus(src, nested=src.bool(0.8))
        sc["opts"] = common_opts(src, True)
        return sc
    annotated = src.bool(0.7)
    exact = src.bool(0.5)
    sc = S.gen_discovery(src, n_chroms=(1, 4), genes_per_chrom=(1, 3), with_annotation=annotated,
                         novel_per_gene=(0, 2), reads_known=(0, 8), reads_novel=(2, 12),
                         noise_p=src.choice([0.0, 0.1, 0.3]), drop_iso_p=src.choice([0.0, 0.3]), intergenic_p=0.4,
                         exact=exact, delta=src.choice([0, 4, 6]),
                         canon_classes=("canon", "canon", "canon", "anti", "non"))
    if annotated and src.bool(0.3):
        # reference previously produced by IsoQuant: consecutive transcript<N>.<chr>.* / novel_gene_<chr>_<N> ids
        per_chr = {}
        for g in sc["genes"]:
            n = per_chr.get(g["chr"], src.int(0, 2))
            if src.bool(0.5):
                n += 1
                g["id"] = "novel_gene_%s_%d" % (g["chr"], n)
            for t in g["transcripts"]:
                n += 1
                t["id"] = "transcript%d.%s.%s" % (n, g["chr"], src.choice(["nic", "nnic"]))
            per_chr[g["chr"]] = n
    elif annotated and src.bool(0.4):
        # gene symbols in lower case (they sort after IsoQuant's own "novel_gene_..." ids)
        for i, g in enumerate(sc["genes"]):
            g["id"] = src.choice(["sox", "tp", "abc", "zfp", "pax"]) + str(i + 1)
    if annotated and src.bool(0.15):
        # a reference transcript with an exon of a single base (valid, rare): start == end
        S.add_tail_gene(src, sc, "gone", [src.int(150, 300), 1, src.int(150, 300)], [src.int(300, 600), src.int(300, 600)])
    if annotated and src.bool(0.35):
        sc["gtf"]["cds"] = True            # CDS records inside the exons, as in every real annotation
    sc["opts"] = common_opts(src, annotated)
    sc.pop("truth", None)
    return sc


def evaluate(case, ctx):
    sc = case
    res = pipeline.run_case(sc, ctx)
    try:
        mg = res.path("transcript_models.gtf")
        if res.code != 0 or not mg:
            ctx.note("crashed_or_no_models_file")
            ctx.note("crash:" + res.crash_signature())
            return
        lens = {c[0]: c[1] for c in sc["chroms"]}
        models = parse.gtf(mg)
        out = gtfcheck.check_wellformed("transcript_models", models, lens)
        annotated = bool(sc["genes"])
        ref = gtfcheck.ref_table(sc)
        n_novel = sum(1 for t in models["transcripts"] if t not in ref)
        n_ref = sum(1 for t in models["transcripts"] if t in ref)
        if annotated:
            out += gtfcheck.check_reference_verbatim("transcript_models", models, sc)
            eg = res.path("extended_annotation.gtf")
            if not eg:
                out.append(("C03:extended-annotation-missing", {}))
            else:
                ext = parse.gtf(eg)
                out += gtfcheck.check_wellformed("extended_annotation", ext, lens)
                out += gtfcheck.check_reference_verbatim("extended_annotation", ext, sc)
                out += gtfcheck.check_extended(models, ext, sc)
        if sc.get("split_locus"):
            # root cause of a known finding: the gene line is written with the first processing region that contains
            # models of the gene; a novel model of a later region that reaches beyond it cannot widen it any more
            import os
            regions = parse.log_regions(os.path.join(res.out, "isoquant.log"))
            spans = {g["id"]: (min(t["exons"][0][0] for t in g["transcripts"]),
                               max(t["exons"][-1][1] for t in g["transcripts"])) for g in sc["genes"]}
            out2 = []
            for sig, det in out:
                if sig == "C03:gene-does-not-contain-transcript" and det.get("file") == "transcript_models" and \
                        det.get("gene") in spans and det.get("transcript") not in ref:
                    a, b = spans[det["gene"]]
                    if sum(1 for ra, rb in regions if ra <= b and rb >= a) >= 2:
                        sig += ":novel-model-of-a-later-region"
                out2.append((sig, det))
            out = out2
        for sig, det in out:
            ctx.violation(sig, det, case)
        ctx.cls("annotated" if annotated else "annotation-free", "novel>0" if n_novel else "novel=0",
                "ref>0" if n_ref else "ref=0")
        if (annotated and n_novel and n_ref) or (not annotated and n_novel >= 2) or (sc.get("edges") and n_novel):
            ctx.mark_nontrivial(case_hash(case))
            ctx.sample(pipeline.summarize(sc, {"novel_reported": n_novel, "reference_reported": n_ref}))
    finally:
        res.cleanup()


@st.composite
def split_scenarios(draw):
    """Loci that IsoQuant processes in several regions (see C05): a reference gene lies across a split point and is
    supported by different reads on both sides; models of every region end up in the same output files."""
    rnd = draw(st.randoms(use_true_random=True))
    src = S.RndSrc(rnd)
    sc = S.gen_long_gene_locus(src, with_annotation=True, straddle=draw(st.sampled_from([True, True, False])),
                               novel_tail=draw(st.booleans()))
    sc["opts"] = ["--data_type", draw(st.sampled_from(["nanopore", "pacbio_ccs"])), "--no_gzip", "--threads",
                  str(draw(st.sampled_from([1, 2]))), "--debug"]
    if draw(st.booleans()):
        sc["opts"] += ["--high_memory"]
    if draw(st.booleans()):
        sc["opts"] += ["--polya_requirement", "never"]
    sc["split_locus"] = True
    return sc


@st.composite
def edge_scenarios(draw):
    """Transcripts that touch the ends of a chromosome: reads aligned up to the last (first) bases with a soft clip
    that holds a few other bases before the polyA tail (after the polyT head), mono-exonic and spliced, with and
    without annotation."""
    src = S.DrawSrc(draw)
    annotated = src.bool(0.5)
    L = src.int(4000, 9000)
    reads, genes, overrides = [], [], []
    k = 0
    for side in ("right", "left"):
        if not src.bool(0.8):
            continue
        spliced = src.bool(0.5)
        off = src.int(0, 6)
        junk = "".join(src.choice("CG") for _ in range(src.int(0, 5)))
        tail = src.int(22, 32)
        if side == "right":
            end = L - off
            chain = [[end - src.int(300, 700), end]]
            if spliced:
                a = chain[0][0] - src.int(300, 600)
                chain = [[a - src.int(150, 300), a]] + chain
            strand = "+"
        else:
            start = 1 + off
            chain = [[start, start + src.int(300, 700)]]
            if spliced:
                a = chain[0][1] + src.int(300, 600)
                chain = chain + [[a, a + src.int(150, 300)]]
            strand = "-"
        overrides += build.splice_overrides("chr1", chain, strand)
        if annotated and src.bool(0.5):
            genes.append({"id": "E" + side, "chr": "chr1", "strand": strand, "canon": "canon",
                          "transcripts": [{"id": "ET" + side, "exons": [list(e) for e in chain]}]})
        for _ in range(src.int(3, 7)):
            k += 1
            r = R.make_read("e%d" % k, "chr1", [list(e) for e in chain], flag=16 if strand == "-" else 0, mapq=60)
            if side == "right":
                r["cg"] = r["cg"] + [[4, len(junk) + tail]]
                r["sr"] = junk + "A" * tail
            else:
                r["cg"] = [[4, len(junk) + tail]] + r["cg"]
                r["sl"] = "T" * tail + junk
            reads.append(r)
    # an ordinary gene in the middle keeps the annotation non-empty
    mid = S.gen_chain(src, L // 2 - 600, 3, exon_len=(100, 200), intron_len=(150, 300))
    mstrand = src.choice(["+", "-"])
    overrides += build.splice_overrides("chr1", mid, mstrand)
    if annotated:
        genes.append({"id": "GM", "chr": "chr1", "strand": mstrand, "canon": "canon",
                      "transcripts": [{"id": "TM", "exons": mid}]})
    for _ in range(src.int(2, 5)):
        k += 1
        reads.append(S.exact_read("m%d" % k, "chr1", mstrand, mid, polya=25))
    sc = {"chroms": [["chr1", L, src.int(1, 10 ** 6)]], "genes": genes, "overrides": overrides, "reads": reads,
          "nfiles": 1, "gtf": {"gene_records": True, "transcript_records": True},
          "opts": ["--data_type", src.choice(["pacbio_ccs", "nanopore"]), "--no_gzip", "--threads", "1",
                   "--report_novel_unspliced", "true"]}
    if src.bool(0.3):
        sc["opts"] += ["--polya_requirement", "never"]
    sc["edges"] = True
    return sc


def stages(tier):
    q = tier == "quick"
    return [Stage("models", "hyp", evaluate, n=256 if q else 4000, strategy=scenarios),
            Stage("edges", "hyp", evaluate, n=64 if q else 800, strategy=edge_scenarios),
            Stage("split", "hyp", evaluate, n=48 if q else 600, strategy=split_scenarios)]
