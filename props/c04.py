"""C04 - novel transcripts are evidence-backed, correctly labelled and non-redundant."""
import re

from hypothesis import strategies as st

from vlib import reads as R, build, parse, pipeline, scenario as S
from vlib.refmodel import gtfcheck
from vlib.shard import Stage, case_hash
from props.c03 import common_opts

ID = "C04"
LEVEL = "exploration"
TECHNIQUE = "property-based testing (Hypothesis): discovery scenarios with intron-graph noise through the full " \
            "pipeline; recount oracle from corrected_reads.bed, transcript_model_reads and the input annotation"
RULE = ("Hypothesis-generated discovery scenarios biased to novel isoforms (1-3 unannotated isoforms per gene at 2-30 "
        "reads) plus graph noise (bulges: junctions shifted 1-25 bp, tips, singleton introns), with and without "
        "annotation, all model strategies. Non-trivial = >=1 spliced novel model reported in a scenario that "
        "contains noise reads; distinct by scenario hash.")
ASSUMPTIONS = ["under --report_canonical all the statement's 'definite strand' clause is not applied "
               "(documentation: 'report all transcript models regardless of their splice sites')"]

NOVEL_GENE = re.compile(r"^novel_gene_(.+)_(\d+)$")


@st.composite
def scenarios(draw):
    src = S.DrawSrc(draw)
    if src.bool(0.08):
        # a gene whose reads form two separate clusters, with another gene's cluster between them
        sc = S.gen_islands_locus(src, nested=src.bool(0.8))
        sc["opts"] = common_opts(src, True)
        return sc
    annotated = src.bool(0.65)
    sc = S.gen_discovery(src, n_chroms=(1, 3), genes_per_chrom=(1, 3), with_annotation=annotated,
                         novel_per_gene=(1, 3), reads_known=(0, 6), reads_novel=(2, 30),
                         noise_p=src.choice([0.05, 0.15, 0.35]), drop_iso_p=src.choice([0.0, 0.25]),
                         intergenic_p=0.4, exact=src.bool(0.6), delta=src.choice([0, 4, 6]),
                         canon_classes=("canon", "canon", "canon", "non", "anti"))
    sc["opts"] = common_opts(src, annotated)
    sc.pop("truth", None)
    return sc


def evaluate(case, ctx):
    sc = case
    split_regions = []
    res = pipeline.run_case(sc, ctx)
    try:
        mg = res.path("transcript_models.gtf")
        bed = res.path("corrected_reads.bed")
        mr = res.path("transcript_model_reads.tsv")
        if res.code != 0 or not mg or not bed or not mr:
            ctx.note("crash:" + res.crash_signature())
            return
        if sc.get("split_locus"):
            import os
            split_regions = parse.log_regions(os.path.join(res.out, "isoquant.log"))
        models = parse.gtf(mg)
        model_reads = {}
        for l in parse.data_lines(mr):
            c = l.split("\t")
            if len(c) >= 2:
                model_reads.setdefault(c[1], set()).add(c[0])
        tt = gtfcheck.transcript_table(models)
        ref = gtfcheck.ref_table(sc)
        annotated = bool(sc["genes"])
        rc_ = sc["opts"][sc["opts"].index("--report_canonical") + 1] if "--report_canonical" in sc["opts"] else None
        ms_ = sc["opts"][sc["opts"].index("--model_construction_strategy") + 1] \
            if "--model_construction_strategy" in sc["opts"] else None
        # 'auto' resolves to the level of the model construction strategy; strategy 'all' reports all transcripts
        level_all = rc_ == "all" or (rc_ == "auto" and ms_ == "all")
        # evidence: introns of corrected reads per chromosome
        read_introns = {}
        for r in parse.bed12(bed):
            s = read_introns.setdefault(r["chr"], set())
            b = r["blocks"]
            for i in range(len(b) - 1):
                s.add((b[i][1] + 1, b[i + 1][0] - 1))
        ann_introns = {}
        ref_chains = {}
        for tid, t in ref.items():
            ex = sorted(t["exons"])
            ch = tuple((ex[i][1] + 1, ex[i + 1][0] - 1) for i in range(len(ex) - 1))
            ann_introns.setdefault(t["chr"], set()).update(ch)
            if ch:
                ref_chains.setdefault((t["chr"], t["strand"]), {})[ch] = tid
        support = {}
        for rid, tid in parse.model_reads(mr):
            if tid == "*":
                continue
            support.setdefault(tid, set()).add(rid)
            if tid not in tt:
                ctx.violation("C04:model-reads-reference-unknown-transcript", {"transcript": tid, "read": rid}, case)
        novel_chains = {}
        n_spliced_novel = 0
        for tid, t in tt.items():
            if tid in ref:
                if not annotated:
                    ctx.violation("C04:reference-id-in-annotation-free-run", {"transcript": tid}, case)
                continue
            ex = t["exons"]
            ch = tuple((ex[i][1] + 1, ex[i + 1][0] - 1) for i in range(len(ex) - 1))
            for intr in ch:
                if intr not in read_introns.get(t["chr"], ()):
                    ctx.violation("C04:novel-intron-without-read-evidence",
                                  {"transcript": tid, "intron": intr, "chr": t["chr"]}, case)
            if not support.get(tid):
                ctx.violation("C04:novel-transcript-without-supporting-read", {"transcript": tid}, case)
            if t["strand"] not in ("+", "-"):
                if level_all:
                    ctx.grey += 1
                else:
                    ctx.violation("C04:novel-transcript-without-definite-strand",
                                  {"transcript": tid, "strand": t["strand"]}, case)
            if ch:
                n_spliced_novel += 1
                all_known = all(i in ann_introns.get(t["chr"], ()) for i in ch)
                if tid.endswith(".nic") != all_known or tid.endswith(".nnic") == all_known:
                    ctx.violation("C04:nic-nnic-suffix-wrong",
                                  {"transcript": tid, "all_introns_annotated": all_known, "introns": ch[:5]}, case)
                if ch in ref_chains.get((t["chr"], t["strand"]), {}):
                    ctx.violation("C04:novel-transcript-duplicates-reference-intron-chain",
                                  {"transcript": tid, "reference": ref_chains[(t["chr"], t["strand"])][ch]}, case)
                key = (t["chr"], t["strand"], ch)
                if key in novel_chains:
                    sig = "C04:two-novel-transcripts-share-intron-chain"
                    sig += ":mono-intron" if len(ch) == 1 else ":multi-intron"
                    other = tt[novel_chains[key]]["exons"]
                    if len(ch) == 1 and (abs(other[0][0] - ex[0][0]) > 50 or abs(other[-1][1] - ex[-1][1]) > 50):
                        # root cause of a known finding: 2-exon models are never compared with each other
                        # (detect_similar_isoforms skips them), so one intron with two distant ends gives two models;
                        # two 2-exon models with the same ends would be something else
                        sig += ":ends-more-than-50bp-apart"
                    span = (min(other[0][0], ex[0][0]), max(other[-1][1], ex[-1][1]))
                    if sc.get("split_locus") and sum(1 for ra, rb in split_regions
                                                     if ra <= span[1] and rb >= span[0]) >= 2:
                        # root cause of a known finding: models are built per processing region and never compared
                        # across regions; the reads of one isoform whose introns reach over a split point can end
                        # up in two regions
                        sig += ":built-in-different-regions"
                        # ... each read in the sub-region that keeps it: the two models never share a read.  Models
                        # that do share reads are built from copies of one alignment, which is something else
                        common_reads = model_reads.get(novel_chains[key], set()) & model_reads.get(tid, set())
                        if common_reads:
                            sig += ":from-the-same-reads"
                    ctx.violation(sig, {"transcripts": [novel_chains[key], tid], "chain": ch[:5],
                                        "exons": [tt[novel_chains[key]]["exons"], ex]}, case)
                novel_chains.setdefault(key, tid)
            if not annotated:
                m = NOVEL_GENE.match(t["gene"] or "")
                if not m:
                    ctx.violation("C04:annotation-free-gene-not-novel_gene", {"transcript": tid, "gene": t["gene"]},
                                  case)
        ctx.cls("annotated" if annotated else "annotation-free", "spliced_novel>0" if n_spliced_novel else
                "spliced_novel=0")
        has_noise = any(r["n"].startswith("rn") for r in sc["reads"])
        if n_spliced_novel and (has_noise or sc.get("split_locus") or sc.get("corner")):
            ctx.mark_nontrivial(case_hash(case))
            ctx.sample(pipeline.summarize(sc, {"spliced_novel_reported": n_spliced_novel}))
    finally:
        res.cleanup()


@st.composite
def split_scenarios(draw):
    """An unannotated gene lying across a split point of a locus that is processed in several regions: reads that
    cross the split point and reads that start behind it support the same novel intron chain in two regions."""
    rnd = draw(st.randoms(use_true_random=True))
    src = S.RndSrc(rnd)
    annotated = draw(st.sampled_from([True, True, False]))
    if draw(st.sampled_from([0, 1])):
        sc = S.gen_balanced_novel_locus(src, with_annotation=annotated)
    else:
        xv = annotated and draw(st.booleans())
        sc = S.gen_long_gene_locus(src, with_annotation=annotated, straddle=True, x_annotated=xv, x_variant=xv,
                                   n_cross=draw(st.sampled_from([1, 2, 3, 4])))
    sc["opts"] = ["--data_type", draw(st.sampled_from(["nanopore", "pacbio_ccs"])), "--no_gzip", "--threads",
                  str(draw(st.sampled_from([1, 2]))), "--debug"]
    if draw(st.booleans()):
        sc["opts"] += ["--high_memory"]
    if draw(st.booleans()):
        sc["opts"] += ["--model_construction_strategy", draw(st.sampled_from(["sensitive_pacbio", "all", "default_ont"]))]
    sc["split_locus"] = True
    return sc


def _lowmapq_simple(src, annotated):
    """A novel 1-2 exon model whose full-length reads are reliable while the reads that are attached to it later
    (unspliced, inside one of its exons) have a low MAPQ: the model passes the first MAPQ filter and is withdrawn by
    the last one, after reads were assigned to it."""
    strand = src.choice(["+", "-"])
    a0 = src.int(500, 1200)
    known = [[a0, a0 + 300], [a0 + 700, a0 + 1000], [a0 + 1400, a0 + 1700]]
    n0 = known[-1][1] + src.int(1500, 2500)
    novel = [[n0, n0 + src.int(250, 400)], [n0 + 900, n0 + 900 + src.int(500, 700)]]
    reads = []
    k = 0
    for _ in range(src.int(3, 6)):
        k += 1
        reads.append(S.exact_read("k%d" % k, "chr1", strand, known, polya=25))
    for _ in range(src.int(3, 5)):
        k += 1
        reads.append(S.exact_read("n%d" % k, "chr1", strand, novel, polya=src.int(22, 30), mapq=60))
    for _ in range(src.int(6, 10)):
        k += 1
        e = novel[1]
        a = e[0] + src.int(20, 80)
        reads.append(R.make_read("u%d" % k, "chr1", [[a, a + src.int(150, 300)]], flag=16 if strand == "-" else 0,
                                 mapq=src.choice([5, 8, 10, 12])))
    overrides = build.splice_overrides("chr1", known, strand) + build.splice_overrides("chr1", novel, strand)
    genes = [{"id": "G1", "chr": "chr1", "strand": strand, "canon": "canon",
              "transcripts": [{"id": "T1", "exons": known}]}] if annotated else []
    return {"chroms": [["chr1", novel[-1][1] + src.int(900, 2000), src.int(1, 10 ** 6)]], "genes": genes,
            "hidden_genes": [] if annotated else [{"id": "G1", "chr": "chr1", "strand": strand, "canon": "canon",
                                                   "transcripts": [{"id": "T1", "exons": known}]}],
            "overrides": overrides, "reads": reads, "nfiles": 1,
            "gtf": {"gene_records": True, "transcript_records": True},
            "opts": ["--data_type", src.choice(["nanopore", "pacbio_ccs"]), "--no_gzip", "--threads", "1"],
            "split_locus": False, "corner": "lowmapq_simple"}


def _bulge_over_annotated(src):
    """Annotated T1 = A,B,C,D,E with few reads and T2 = A,C; many reads of the unannotated isoform A,C,D',E whose
    exon D' begins 7-18 bases after D: in the intron graph the weak annotated intron C-D is collapsed into its
    unannotated neighbour C-D'.  The novel model uses an unannotated intron, whatever the graph calls it."""
    strand = src.choice(["+", "-"])
    p_ = src.int(400, 1200)
    ex = []
    for i in range(5):
        ln = src.int(150, 300)
        ex.append([p_, p_ + ln - 1])
        p_ += ln + src.int(300, 700)
    A, B, C, D, E = ex
    d = src.int(7, 18)
    side = src.choice(["acceptor", "donor"])
    if side == "acceptor":
        Dn = [D[0] + d, D[1]]
    else:
        Dn = [D[0], D[1] - d]
    novel = [A, C, Dn, E]
    reads = []
    k = 0
    for _ in range(src.int(1, 3)):
        k += 1
        reads.append(S.exact_read("t%d" % k, "chr1", strand, ex, polya=src.int(22, 30)))
    for _ in range(src.int(8, 14)):
        k += 1
        reads.append(S.exact_read("n%d" % k, "chr1", strand, novel, polya=src.int(22, 30)))
    overrides = build.splice_overrides("chr1", ex, strand) + build.splice_overrides("chr1", novel, strand)
    genes = [{"id": "G1", "chr": "chr1", "strand": strand, "canon": "canon",
              "transcripts": [{"id": "T1", "exons": [list(x) for x in ex]},
                              {"id": "T2", "exons": [list(A), list(C)]}]}]
    return {"chroms": [["chr1", E[1] + src.int(900, 2000), src.int(1, 10 ** 6)]], "genes": genes,
            "hidden_genes": [{"id": "H", "chr": "chr1", "strand": strand, "canon": "canon",
                              "transcripts": [{"id": "HN", "exons": novel}]}],
            "overrides": overrides, "reads": reads, "nfiles": 1,
            "gtf": {"gene_records": True, "transcript_records": True},
            "opts": ["--data_type", src.choice(["nanopore", "nanopore", "pacbio_ccs"]), "--no_gzip", "--threads", "1"],
            "split_locus": False, "corner": "bulge_over_annotated"}


@st.composite
def corner_scenarios(draw):
    """Parametrised corner structures of the intron graph (from the leads in hunt/C04): a minor isoform with a
    micro-exon that begins a few bases before the acceptor of the major isoform, so that collapsing the bulge makes
    two consecutive introns of the minor path overlap."""
    src = S.DrawSrc(draw)
    annotated = src.bool(0.5)
    strand = "+"
    if src.bool(0.4):
        return _lowmapq_simple(src, annotated)
    if src.bool(0.4):
        return _bulge_over_annotated(src)
    b = src.int(300, 900)
    e1 = [b, b + src.int(90, 150)]
    e2 = [e1[1] + src.int(250, 400), 0]
    e2[1] = e2[0] + src.int(150, 250)
    acc = e2[1] + src.int(900, 1200)            # last base of the intron of the minor isoform
    d = src.int(9, 14)
    major = [e1, e2, [acc + 1 + d, acc + d + src.int(400, 600)]]
    m = src.int(6, 9)
    far = acc + m + src.int(900, 1100)
    minor = [e1, e2, [acc + 1, acc + m], [far, far + src.int(250, 350)]]
    reads = []
    k = 0
    for _ in range(src.int(20, 35)):
        k += 1
        reads.append(S.exact_read("a%d" % k, "chr1", strand, major, polya=src.int(22, 30)))
    for _ in range(src.int(3, 6)):
        k += 1
        reads.append(S.exact_read("b%d" % k, "chr1", strand, minor, polya=src.int(22, 30)))
    overrides = build.splice_overrides("chr1", major, strand) + build.splice_overrides("chr1", minor, strand)
    genes = []
    if annotated:
        genes = [{"id": "G1", "chr": "chr1", "strand": strand, "canon": "canon",
                  "transcripts": [{"id": "T1", "exons": [list(x) for x in major]}]}]
    sc = {"chroms": [["chr1", minor[-1][1] + src.int(900, 2000), src.int(1, 10 ** 6)]], "genes": genes,
          "hidden_genes": [{"id": "H", "chr": "chr1", "strand": strand, "canon": "canon",
                            "transcripts": [{"id": "HM", "exons": minor}]}],
          "overrides": overrides, "reads": reads, "nfiles": 1,
          "gtf": {"gene_records": True, "transcript_records": True},
          "opts": ["--data_type", src.choice(["nanopore", "pacbio_ccs"]), "--no_gzip", "--threads", "1"],
          "split_locus": False, "corner": "micro_exon_bulge"}
    if src.bool(0.3):
        sc["opts"] += ["--model_construction_strategy", src.choice(["sensitive_ont", "all", "default_ont"])]
    return sc


def stages(tier):
    q = tier == "quick"
    return [Stage("novel", "hyp", evaluate, n=256 if q else 4000, strategy=scenarios),
            Stage("split", "hyp", evaluate, n=48 if q else 600, strategy=split_scenarios),
            Stage("corners", "hyp", evaluate, n=64 if q else 800, strategy=corner_scenarios)]
