"""C18 - strand and canonical-site flags are pure functions of the reference sequence."""
import re
from collections import defaultdict

from hypothesis import strategies as st

from vlib import parse, pipeline, scenario as S, reads as R, build
from vlib.refmodel import canon, gtfcheck
from vlib.shard import Stage, case_hash

ID = "C18"
LEVEL = "exploration"
TECHNIQUE = "property-based testing (Hypothesis): generated splice-dinucleotide classes, antisense gene pairs sharing " \
            "intron coordinates and soft-masked segments; FASTA-only oracle per row/model + metamorphic read-subset runs"
RULE = ("Hypothesis-generated genomes with every splice-site class (canonical for the gene strand, for the opposite "
        "strand, non-canonical, GC-AG, AT-AC) per gene, antisense twin genes sharing exon coordinates, optional "
        "soft-masked (lower-case) segments, reads with polyA/polyT of either orientation; --check_canonical, all "
        "--report_canonical levels; each scenario is run on the full read set and on a random subset (history "
        "dimension). Non-trivial = >=2 reported reads share an intron and carry different strands; distinct by "
        "scenario hash. A third of the annotations carry Canonical attributes of their own (True / False / mixed).")
ASSUMPTIONS = ["rows with strand '.' have no reported strand: their Canonical value is only compared between runs",
               "model strand oracle: strict majority of FASTA-implied intron strands; introns annotated on a strand "
               "that conflicts with the FASTA are UNSPECIFIED"]


@st.composite
def scenarios(draw):
    src = S.DrawSrc(draw)
    sc = S.gen_discovery(src, n_chroms=(1, 2), genes_per_chrom=(1, 3), novel_per_gene=(0, 2), reads_known=(1, 5),
                         reads_novel=(3, 8), intergenic_p=0.3, max_exons=5, exact=src.bool(0.6), delta=4,
                         canon_classes=("canon", "canon", "anti", "non", "gc", "at"), overlap_p=0.3)
    truth = sc.pop("truth")
    k = len(sc["reads"])
    # antisense twins: same exon coordinates on the opposite strand
    for g in list(sc["genes"]):
        if src.bool(0.35):
            t = src.choice(g["transcripts"])
            if len(t["exons"]) < 2:
                continue
            twin_strand = "-" if g["strand"] == "+" else "+"
            twin = {"id": g["id"] + "as", "chr": g["chr"], "strand": twin_strand, "canon": "canon",
                    "transcripts": [{"id": t["id"] + "as", "exons": [list(e) for e in t["exons"]]}]}
            sc["genes"].append(twin)
            if src.bool(0.5):
                sc["overrides"] += build.splice_overrides(g["chr"], t["exons"], twin_strand)
            for _ in range(src.int(1, 4)):
                k += 1
                r, _t = S.read_from_chain(src, "r%d" % k, g["chr"], twin_strand, t["exons"], delta=4, trunc_p=0.3,
                                          polya_p=0.8, flag_consistent_p=0.7)
                sc["reads"].append(r)
    # the same locus on another chromosome, same coordinates, opposite strand (threads 1: one process sees both)
    if src.bool(0.35):
        cand = [g for g in sc["genes"] if not g["id"].endswith("as") and g.get("canon") == "canon"]
        if cand:
            S.add_mirror_strand_clone(src, sc, src.choice(cand))
    # unannotated loci whose splice sites tie (one intron canonical on '+', one on '-'): only the tails can decide
    for c in sc["chroms"]:
        if not src.bool(0.4):
            continue
        gend = max([t["exons"][-1][1] for g in sc["genes"] if g["chr"] == c[0] for t in g["transcripts"]] +
                   [nv["exons"][-1][1] for nv in sc.get("novel", []) if nv["chr"] == c[0]] + [0])
        chain = S.gen_chain(src, gend + 900, 3, exon_len=(100, 300), intron_len=(200, 800))
        if chain[-1][1] + 200 > c[1]:
            c[1] = chain[-1][1] + src.int(300, 900)
        first = src.choice(["+", "-"])
        sc["overrides"] += build.splice_overrides(c[0], chain[:2], first)
        sc["overrides"] += build.splice_overrides(c[0], chain[1:], "-" if first == "+" else "+")
        mol = src.choice(["+", "-"])
        for _ in range(src.int(4, 8)):
            k += 1
            sc["reads"].append(S.exact_read("t%d" % k, c[0], mol, chain, polya=src.int(20, 32)))
    # a read that starts at the first base of a contig and reaches into the first expressed locus
    for c in sc["chroms"]:
        if not src.bool(0.25):
            continue
        firsts = sorted(r["p"] for r in sc["reads"] if r["c"] == c[0])
        if firsts and 120 < firsts[0] < 4000:
            k += 1
            sc["reads"].append(R.make_read("z%d" % k, c[0], [[1, firsts[0] + src.int(40, 100)]],
                                           flag=src.choice([0, 16]), mapq=60))
    # reads without strand evidence
    for g, t in S.transcripts_of(sc):
        if src.bool(0.3) and len(t["exons"]) > 1:
            k += 1
            r, _t = S.read_from_chain(src, "r%d" % k, g["chr"], g["strand"], t["exons"], delta=4, trunc_p=0.5,
                                      polya_p=0.0, flag_consistent_p=0.5)
            sc["reads"].append(r)
    # soft-masked segments
    for c in sc["chroms"]:
        for _ in range(src.int(0, 3)):
            a = src.int(0, max(0, c[1] - 600))
            sc["overrides"].append([c[0], a, "@lower:%d" % src.int(50, 1500)])
        if src.bool(0.25):
            sc["overrides"].append([c[0], 0, "@lower:%d" % c[1]])      # a contig that is masked as a whole
    lens = {c[0]: c[1] for c in sc["chroms"]}
    sc["reads"] = [r for r in sc["reads"] if R.cigar_blocks(r["p"], r["cg"])[-1][1] + 45 < lens[r["c"]]]
    sc["opts"] = ["--data_type", src.choice(["nanopore", "pacbio_ccs"]), "--no_gzip", "--threads",
                  str(src.choice([1, 2])), "--check_canonical", "--report_canonical",
                  src.choice(["auto", "only_canonical", "only_stranded", "all"])]
    if src.bool(0.3):
        sc["opts"] += ["--high_memory"]
    if src.bool(0.3):
        sc["opts"] += ["--model_construction_strategy", src.choice(["all", "sensitive_pacbio", "default_ont"])]
    # the annotation may come from an earlier IsoQuant run (on this or on an earlier version of the reference) and carry
    # Canonical attributes of its own
    ca = src.choice([None, None, None, "True", "False", "mixed"])
    if ca:
        sc["gtf"] = dict(sc.get("gtf") or {}, canonical_attr=ca)
    # history dimension: subset mask
    sc["subset"] = [src.bool(0.6) for _ in sc["reads"]]
    return sc


def gene_clusters(sc):
    """merged spans of overlapping annotated genes per chromosome"""
    per = defaultdict(list)
    for g in sc["genes"]:
        per[g["chr"]].append([min(t["exons"][0][0] for t in g["transcripts"]),
                              max(t["exons"][-1][1] for t in g["transcripts"])])
    out = {}
    for c, lst in per.items():
        lst.sort()
        m = []
        for a, b in lst:
            if m and a <= m[-1][1]:
                m[-1][1] = max(m[-1][1], b)
            else:
                m.append([a, b])
        out[c] = m
    return out


def cause_suffix(sc, chrom, introns, shared):
    """classifies a wrong flag by the structure that triggers it (root-cause signature)"""
    cl = gene_clusters(sc).get(chrom, [])
    if any(not any(a <= i[0] and i[1] <= b for a, b in cl) for i in introns):
        return ":intron-outside-annotated-gene-span"
    if shared:
        return ":intron-also-seen-on-another-strand"
    return ""


def row_flags(res, sc, genome, ctx, case, tag):
    """checks every TSV row; returns {(read, chr, exons, isoform): Canonical} and strand sharing info"""
    tsvp = res.path("read_assignments.tsv")
    out = {}
    intron_strands = defaultdict(set)
    rows_all = parse.read_assignments(tsvp)
    for r in rows_all:
        ex = r["exons"]
        for i in range(len(ex) - 1):
            intron_strands[(r["chr"], (ex[i][1] + 1, ex[i + 1][0] - 1))].add(r["strand"])
    for r in rows_all:
        c = r["info"].get("Canonical")
        if c is None:
            continue
        ex = r["exons"]
        introns = [(ex[i][1] + 1, ex[i + 1][0] - 1) for i in range(len(ex) - 1)]
        out[(r["read_id"], r["chr"], r["exons_raw"], r["isoform"])] = (c, r["strand"])
        for i in introns:
            intron_strands[(r["chr"], i)].add(r["strand"])
        if len(ex) == 1:
            if c != "Unspliced":
                ctx.violation("C18:mono-exonic-row-not-Unspliced", {"row": r["raw"][:300]}, case)
            continue
        if c == "Unspliced":
            ctx.violation("C18:spliced-row-flagged-Unspliced", {"row": r["raw"][:300]}, case)
            continue
        if r["strand"] not in ("+", "-"):
            # no reported strand: whatever reading of the statement one takes, True needs every intron to be canonical
            # on one of the two strands at least
            if c == "True" and not all(canon.all_canonical(genome[r["chr"]], [i], "+") or
                                       canon.all_canonical(genome[r["chr"]], [i], "-") for i in introns):
                ctx.violation("C18:unstranded-row-flagged-canonical-with-an-intron-canonical-on-neither-strand",
                              {"read": r["read_id"], "reported": c,
                               "sites": [canon.sites(genome[r["chr"]], i) for i in introns], "run": tag}, case)
            ctx.grey += 1
            continue
        exp = canon.all_canonical(genome[r["chr"]], introns, r["strand"])
        if str(exp) != c:
            masked = any(x != x.upper() for i in introns for x in (genome[r["chr"]][i[0] - 1:i[0] + 1],
                                                                   genome[r["chr"]][i[1] - 2:i[1]]))
            upper_exp = all((genome[r["chr"]][i[0] - 1:i[0] + 1], genome[r["chr"]][i[1] - 2:i[1]]) in
                            (canon.FWD if r["strand"] == "+" else canon.REV) for i in introns)
            if masked and str(upper_exp) == c:
                sig = "C18:read-canonical-flag-wrong:soft-masked-splice-site"
            else:
                sig = "C18:read-canonical-flag-wrong" + cause_suffix(
                    sc, r["chr"], introns, any(len(intron_strands[(r["chr"], i)]) > 1 for i in introns))
            ctx.violation(sig, {"read": r["read_id"], "strand": r["strand"], "reported": c, "expected": exp,
                                "sites": [canon.sites(genome[r["chr"]], i) for i in introns], "run": tag}, case)
    return out, intron_strands


def check_models(res, sc, genome, ctx, case):
    ref = gtfcheck.ref_table(sc)
    ann = defaultdict(set)
    for tid, t in ref.items():
        ex = sorted(t["exons"])
        for i in range(len(ex) - 1):
            ann[(t["chr"], (ex[i][1] + 1, ex[i + 1][0] - 1))].add(t["strand"])
    support = defaultdict(set)
    mr = res.path("transcript_model_reads.tsv")
    if mr:
        for rid, tid in parse.model_reads(mr):
            support[tid].add(rid)
    tails = {}
    for r in sc["reads"]:
        tails[r["n"]] = ("A" if r.get("sr", "").startswith("AAAA") else "") + ("T" if r.get("sl", "").startswith("TTTT") else "")
    rc_ = sc["opts"][sc["opts"].index("--report_canonical") + 1]
    ms_ = sc["opts"][sc["opts"].index("--model_construction_strategy") + 1] \
        if "--model_construction_strategy" in sc["opts"] else None
    level_all = rc_ == "all" or (rc_ == "auto" and ms_ == "all")
    for fn in ("transcript_models.gtf", "extended_annotation.gtf"):
        p = res.path(fn)
        if not p:
            continue
        g = parse.gtf(p)
        tt = gtfcheck.transcript_table(g)
        for tid, t in tt.items():
            if not t["records"]:
                continue
            # a record may carry the attribute more than once (first of all when the input annotation has it):
            # every occurrence is read by somebody's parser, every occurrence must be right
            values = re.findall(r'Canonical "([^"]*)"', t["records"][0]["raw"])
            ex = t["exons"]
            introns = [(ex[i][1] + 1, ex[i + 1][0] - 1) for i in range(len(ex) - 1)]
            if len(set(values)) > 1:
                ctx.violation("C18:model-with-contradictory-canonical-attributes",
                              {"file": fn, "transcript": tid, "values": values}, case)
                continue
            for c in values[:1]:
                if not introns:
                    if c != "Unspliced":
                        ctx.violation("C18:mono-exonic-model-not-Unspliced", {"file": fn, "transcript": tid}, case)
                elif t["strand"] in ("+", "-"):
                    exp = canon.all_canonical(genome[t["chr"]], introns, t["strand"])
                    if str(exp) != c:
                        masked = any(x != x.upper() for i in introns for x in (genome[t["chr"]][i[0] - 1:i[0] + 1],
                                                                               genome[t["chr"]][i[1] - 2:i[1]]))
                        sig = "C18:model-canonical-attribute-wrong" + (
                            ":soft-masked-splice-site" if masked else cause_suffix(sc, t["chr"], introns, False))
                        ctx.violation(sig, {"file": fn, "transcript": tid, "strand": t["strand"], "reported": c,
                                            "expected": exp,
                                            "sites": [canon.sites(genome[t["chr"]], i) for i in introns]}, case)
            if not values and fn == "transcript_models.gtf":
                ctx.violation("C18:model-without-Canonical-attribute", {"transcript": tid}, case)
            # reporting level only_canonical: "all splice sites must be canonical from the same strand" - every intron of
            # a novel spliced model is canonical for the model's strand in the FASTA or annotated on that strand
            if fn == "transcript_models.gtf" and tid not in ref and introns and rc_ == "only_canonical" and \
                    t["strand"] in ("+", "-"):
                bad = [i for i in introns if canon.intron_strand(genome[t["chr"]], i) != t["strand"] and
                       t["strand"] not in ann.get((t["chr"], i), ())]
                if bad:
                    ctx.violation("C18:only_canonical-level-reports-a-model-with-a-non-canonical-intron",
                                  {"transcript": tid, "strand": t["strand"], "introns": bad[:3],
                                   "sites": [canon.sites(genome[t["chr"]], i) for i in bad[:3]]}, case)
            # strand of novel spliced models
            if fn == "transcript_models.gtf" and tid not in ref and introns:
                fwd = rev = 0
                conflict = False
                for i in introns:
                    s = canon.intron_strand(genome[t["chr"]], i)
                    a = ann.get((t["chr"], i))
                    # an intron annotated on one strand only takes that strand whatever the FASTA says (grey when
                    # they disagree); annotated on both strands the annotation says nothing and the FASTA decides
                    if a and len(a) == 1 and ((s != "." and s not in a) or s == "."):
                        conflict = True
                    fwd += s == "+"
                    rev += s == "-"
                if conflict:
                    ctx.grey += 1
                    continue
                if fwd != rev:
                    exp = "+" if fwd > rev else "-"
                    if t["strand"] != exp:
                        ctx.violation("C18:novel-model-strand-contradicts-splice-sites",
                                      {"transcript": tid, "strand": t["strand"], "fwd_introns": fwd,
                                       "rev_introns": rev}, case)
                else:
                    ev = set()
                    for rid in support.get(tid, ()):
                        ev.update(tails.get(rid, ""))
                    if ev == {"A"} and t["strand"] == "-" or ev == {"T"} and t["strand"] == "+":
                        if t["gene"].startswith("novel_gene"):
                            ctx.violation("C18:novel-model-strand-contradicts-polya-evidence",
                                          {"transcript": tid, "strand": t["strand"], "evidence": sorted(ev)}, case)
                        else:
                            ctx.grey += 1


def evaluate(case, ctx):
    sc = case
    genome = build.make_genome(sc)
    res = pipeline.run_case(sc, ctx)
    try:
        if res.code != 0 or not res.path("read_assignments.tsv"):
            ctx.note("crash:" + res.crash_signature())
            return
        full, intron_strands = row_flags(res, sc, genome, ctx, case, "full")
        check_models(res, sc, genome, ctx, case)
        # history: the same reads in a run on a subset
        sub = dict(sc)
        sub["reads"] = [r for r, keep in zip(sc["reads"], sc["subset"]) if keep]
        if sub["reads"] and len(sub["reads"]) < len(sc["reads"]):
            import os
            res2 = pipeline.run_case(sub, ctx, d=os.path.join(res.dir, "subset"))
            if res2.code == 0 and res2.path("read_assignments.tsv"):
                part, _ = row_flags(res2, sub, genome, ctx, case, "subset")
                for key, (c, strand) in part.items():
                    if key in full and full[key][1] == strand and full[key][0] != c:
                        ctx.violation("C18:canonical-flag-depends-on-other-reads",
                                      {"row": key, "full_run": full[key][0], "subset_run": c, "strand": strand}, case)
        shared = sum(1 for k, v in intron_strands.items() if len(v) > 1)
        ctx.cls("shared_intron_diff_strand>0" if shared else "shared_intron_diff_strand=0")
        if shared:
            ctx.mark_nontrivial(case_hash(case))
            ctx.sample(pipeline.summarize(sc, {"introns_seen_on_two_strands": shared}), limit=3)
    finally:
        res.cleanup()


@st.composite
def split_scenarios(draw):
    """Loci cut into several processing regions (templates of C05/C03): reads that cross a split point are processed
    in two regions, each with its own window of the reference sequence."""
    rnd = draw(st.randoms(use_true_random=True))
    src = S.RndSrc(rnd)
    annotated = draw(st.sampled_from([True, True, False]))
    tmpl = draw(st.sampled_from(["long_gene", "straddle", "straddle_novel", "pileups", "tail_only", "tail_only"]))
    if tmpl == "tail_only":
        sc = S.gen_long_gene_locus(src, with_annotation=True, tail_only=True)
    elif tmpl == "pileups":
        sc = S.gen_deep_locus(src, with_annotation=annotated, max_reads=500, extra_chrom=False)
    else:
        sc = S.gen_long_gene_locus(src, with_annotation=annotated, straddle=tmpl != "long_gene",
                                   x_annotated=tmpl != "straddle_novel", n_cross=draw(st.sampled_from([1, 2, 3])))
    sc["template"] = tmpl
    sc["opts"] = ["--data_type", draw(st.sampled_from(["nanopore", "pacbio_ccs"])), "--no_gzip", "--threads",
                  str(draw(st.sampled_from([1, 2]))), "--check_canonical", "--report_canonical",
                  draw(st.sampled_from(["auto", "all"]))]
    if draw(st.booleans()):
        sc["opts"] += ["--high_memory"]
    # the subset run keeps the spliced reads and drops most of the pile-up, which changes where the locus is cut
    sc["subset"] = [len(r["cg"]) > 1 or draw(st.integers(0, 9)) == 0 for r in sc["reads"]]
    sc["split_locus"] = True
    return sc


def evaluate_split(case, ctx):
    evaluate(case, ctx)
    ctx.cls("template=" + case["template"])
    ctx.mark_nontrivial(case_hash(case))


def stages(tier):
    q = tier == "quick"
    return [Stage("flags", "hyp", evaluate, n=224 if q else 3000, strategy=scenarios),
            Stage("split", "hyp", evaluate_split, n=48 if q else 600, strategy=split_scenarios)]
