"""C13 - exon/intron inclusion and exclusion counts equal a recount from the alignments."""
from collections import defaultdict

from hypothesis import strategies as st

from vlib import parse, pipeline, scenario as S, reads as R
from vlib.shard import Stage, case_hash

ID = "C13"
LEVEL = "exploration"
TECHNIQUE = "property-based testing (Hypothesis): generated annotations/read sets through the pipeline with " \
            "--count_exons; three-valued independent recount from read_assignments.tsv and the input GTF"
RULE = ("Hypothesis-generated well-separated annotations (shared, contained and multi-gene exons/introns) and reads "
        "(within-tolerance reads, exon skipping, intron retention, truncations, polyA) x delta presets x optional "
        "tag grouping. Non-trivial = some annotated feature has include > 0 and exclude > 0; distinct by scenario hash.")
ASSUMPTIONS = ["processed reads = distinct alignment records of read_assignments.tsv with their exons column",
               "features within delta of another annotated feature, exons straddling the start of the read's last block or "
               "the end of its first block (exons wholly inside those blocks are not skipped) and introns "
               "overlapping the read span by 1..30 bp are UNSPECIFIED (counted as grey)"]

MARGIN = 10


def annotated_features(sc):
    """per chromosome: exon -> {strands, genes}, intron -> {strands, genes}"""
    ex = defaultdict(lambda: {"strands": set(), "genes": set()})
    intr = defaultdict(lambda: {"strands": set(), "genes": set()})
    for g in sc["genes"]:
        for t in g["transcripts"]:
            e = t["exons"]
            for x in e:
                k = (g["chr"], x[0], x[1])
                ex[k]["strands"].add(g["strand"])
                ex[k]["genes"].add(g["id"])
            for i in range(len(e) - 1):
                k = (g["chr"], e[i][1] + 1, e[i + 1][0] - 1)
                intr[k]["strands"].add(g["strand"])
                intr[k]["genes"].add(g["id"])
    return ex, intr


def similar(feats, delta):
    """features having another feature of the same chromosome within delta at both ends"""
    out = set()
    by = defaultdict(list)
    for k in feats:
        by[k[0]].append(k)
    for c, lst in by.items():
        lst.sort()
        for i, a in enumerate(lst):
            for b in lst[i + 1:]:
                if b[1] - a[1] > delta:
                    break
                if abs(a[2] - b[2]) <= delta:
                    out.add(a)
                    out.add(b)
    return out


def recount(records, feats, sim, delta, kind):
    """records: list of (chr, exons, group). Returns {feature: {group: [inc_must, inc_grey, exc_must, exc_grey]}}"""
    res = defaultdict(lambda: defaultdict(lambda: [0, 0, 0, 0]))
    by = defaultdict(list)
    for k in feats:
        by[k[0]].append(k)
    for chrom, exons, group in records:
        if kind == "exon":
            rf = exons
            span = (exons[0][1] + delta, exons[-1][0] - delta)
        else:
            rf = [(exons[i][1] + 1, exons[i + 1][0] - 1) for i in range(len(exons) - 1)]
            span = (exons[0][0], exons[-1][1])
        near = [k for k in by.get(chrom, ()) if not (k[2] < exons[0][0] - 60 or k[1] > exons[-1][1] + 60)]
        # a read feature matching several annotated features within delta: IsoQuant credits the closest only,
        # the statement does not say which -> all of them are unspecified for this read
        contested = set()
        for r in rf:
            m = [k for k in near if abs(r[0] - k[1]) <= delta and abs(r[1] - k[2]) <= delta]
            if len(m) > 1:
                contested.update(m)
        for k in near:
            _, s, e = k
            slot = res[k][group]
            matched = any(abs(r[0] - s) <= delta and abs(r[1] - e) <= delta for r in rf)
            if k in sim or k in contested:
                if matched:
                    slot[1] += 1
                slot[3] += 1
                continue
            if matched:
                slot[0] += 1
                continue
            if kind == "exon":
                if span[0] < s and e < span[1]:
                    slot[2] += 1
                elif e < exons[0][0] or s > exons[-1][1]:
                    pass
                elif len(exons) > 1 and (s >= exons[-1][0] or e <= exons[0][1]):
                    # the exon begins inside the read's last block or ends inside its first block: it does not lie
                    # between the read's first and last exon, so the read does not skip it
                    pass
                else:
                    slot[3] += 1
            else:
                ov = min(e, span[1]) - max(s, span[0]) + 1
                inside = span[0] <= s and e <= span[1]
                if inside or ov >= 20 + MARGIN:
                    slot[2] += 1
                elif ov <= 0:
                    pass
                else:
                    slot[3] += 1
    return res


@st.composite
def scenarios(draw):
    src = S.DrawSrc(draw)
    sc = S.gen_annotation(src, n_chroms=(1, 3), genes_per_chrom=(1, 3), iso_per_gene=(1, 4), sep=40, max_exons=6,
                          overlap_p=0.4)
    # multi-gene features: sometimes clone a transcript of a gene into a new overlapping gene (same strand)
    if src.bool(0.3) and sc["genes"]:
        g = src.choice(sc["genes"])
        t = src.choice(g["transcripts"])
        sc["genes"].append({"id": g["id"] + "b", "chr": g["chr"], "strand": g["strand"], "canon": g["canon"],
                            "transcripts": [{"id": t["id"] + "b", "exons": [list(e) for e in t["exons"]][:max(1, len(t["exons"]) - 1)]}]})
        if len(sc["genes"][-1]["transcripts"][0]["exons"]) == len(t["exons"]):
            sc["genes"].pop()
    dt = src.choice(S.DATA_TYPES)
    ms = src.choice([None, "exact", "precise", "default", "loose"])
    delta = S.DELTAS[ms or S.DATA_DEFAULT_STRATEGY[dt]]
    # an explicit --delta replaces the tolerance of the preset (0 is a value like any other)
    xdelta = src.choice([None, None, None, 0, 0, 3, 9])
    if xdelta is not None:
        delta = xdelta
    grouped = src.bool(0.4)
    k = 0
    # nested gene: a small gene inside an intron of a host gene whose reads form two separate piles (5' part spanning
    # the nested gene, 3' part alone): the two processing regions load different gene sets with the same span
    if src.bool(0.35):
        hosts = [(g, t, j) for g in sc["genes"] for t in g["transcripts"] for j in range(len(t["exons"]) - 2)
                 if len(t["exons"]) >= 4 and t["exons"][j + 1][0] - t["exons"][j][1] > 900
                 and not g["id"].endswith("b")]
        if hosts:
            g, t, j = src.choice(hosts)
            others = [x for x in sc["genes"] if x is not g and x["chr"] == g["chr"]]
            gs, ge = t["exons"][0][0], t["exons"][-1][1]
            if not any(min(tt["exons"][0][0] for tt in x["transcripts"]) <= ge and
                       max(tt["exons"][-1][1] for tt in x["transcripts"]) >= gs for x in others):
                g["transcripts"] = [t]
                g["no_default_reads"] = True
                a = t["exons"][j][1] + src.int(150, 300)
                ln = src.int(120, min(400, t["exons"][j + 1][0] - a - 150))
                nested = {"id": g["id"] + "n", "chr": g["chr"], "strand": src.choice(["+", "-"]), "canon": "canon",
                          "transcripts": [{"id": t["id"] + "n", "exons": [[a, a + ln - 1]]}]}
                sc["genes"].append(nested)
                i = src.int(j + 1, len(t["exons"]) - 2)
                for part in (t["exons"][:i + 1], t["exons"][i + 1:]):
                    for _ in range(src.int(2, 5)):
                        k += 1
                        r = S.exact_read("r%d" % k, g["chr"], g["strand"], part, polya=0)
                        if grouped and src.bool(0.85):
                            r["tags"] = {"RG": src.choice(["gA", "gB", "gC"])}
                        sc["reads"].append(r)
    for g, t in S.transcripts_of(sc):
        if g.get("no_default_reads"):
            continue
        for _ in range(src.int(1, 6)):
            k += 1
            mode = src.choice(["w", "w", "skip", "retain", "alt"])
            ex = t["exons"]
            if mode in ("skip", "retain"):
                e2 = S.edit_chain(src, ex, mode)
                if e2 is not None:
                    ex = e2
            elif mode == "alt":
                e2 = S.edit_chain(src, ex, src.choice(["alt_donor", "alt_acceptor"]))
                if e2 is not None:
                    ex = e2
            r, _t = S.read_from_chain(src, "r%d" % k, g["chr"], g["strand"], ex, delta=delta, mapq=(30, 60))
            if grouped and src.bool(0.85):
                r["tags"] = {"RG": src.choice(["gA", "gB", "gC"])}
            sc["reads"].append(r)
    sc["opts"] = ["--data_type", dt, "--no_gzip", "--threads", str(src.choice([1, 2])), "--count_exons",
                  "--no_model_construction"]
    if ms:
        sc["opts"] += ["--matching_strategy", ms]
    if xdelta is not None:
        sc["opts"] += ["--delta", str(xdelta)]
    if grouped:
        sc["opts"] += ["--read_group", "tag:RG"]
    sc["delta"] = delta
    sc["grouped"] = grouped
    return sc


def check_table(kind, rows, feats, sim, rec, ctx, case, grouped_rows=None, crossing=()):
    def suffix(k):
        # root cause of a known finding: a read that crosses a split point of its cluster is processed in both
        # sub-regions, each with its own gene set (and may be kept twice)
        return ":read-crossing-a-split-point" if any(c == k[0] and a <= k[2] and b >= k[1] for c, a, b in crossing) \
            else ""
    seen = {}
    nontrivial = False
    for r in rows:
        k = (r["chr"], r["start"], r["end"])
        if k not in feats:
            ctx.violation("C13:%s-row-not-in-annotation" % kind, {"row": r["raw"]}, case)
            continue
        if set(r["strand"]) != feats[k]["strands"]:
            ctx.violation("C13:%s-row-strand-differs%s" % (kind, suffix(k)),
                          {"row": r["raw"], "expected": sorted(feats[k]["strands"])}, case)
        if set(r["genes"].split(",")) != feats[k]["genes"]:
            ctx.violation("C13:%s-row-gene-list-differs%s" % (kind, suffix(k)),
                          {"row": r["raw"], "expected": sorted(feats[k]["genes"])}, case)
        gk = (k, r["group"])
        if gk in seen:
            ctx.violation("C13:duplicate-%s-row%s" % (kind, suffix(k)), {"rows": [seen[gk]["raw"], r["raw"]]}, case)
        seen[gk] = r
    # recount comparison (sum duplicates so that the count oracle is independent of the duplicate-row oracle)
    got = defaultdict(lambda: [0, 0])
    for r in rows:
        k = (r["chr"], r["start"], r["end"])
        got[(k, r["group"])][0] += r["inc"]
        got[(k, r["group"])][1] += r["exc"]
    keys = set(got) | set((k, g) for k in rec for g in rec[k])
    for k, g in keys:
        if k not in feats:
            continue
        im, ig, em, eg = rec.get(k, {}).get(g, [0, 0, 0, 0])
        gi, ge = got.get((k, g), [0, 0])
        if ig or eg:
            ctx.grey += 1
        if not (im <= gi <= im + ig):
            ctx.violation("C13:%s-include-count-differs%s" % (kind, suffix(k)),
                          {"feature": k, "group": g, "table": gi, "recount_must": im, "recount_grey": ig}, case)
        if not (em <= ge <= em + eg):
            ctx.violation("C13:%s-exclude-count-differs%s" % (kind, suffix(k)),
                          {"feature": k, "group": g, "table": ge, "recount_must": em, "recount_grey": eg}, case)
        if gi > 0 and ge > 0:
            nontrivial = True
    return nontrivial


def evaluate(case, ctx):
    sc = case
    res = pipeline.run_case(sc, ctx)
    try:
        tsvp = res.path("read_assignments.tsv")
        ep, ip = res.path("exon_counts.tsv"), res.path("intron_counts.tsv")
        if res.code != 0 or not tsvp or not ep or not ip:
            ctx.note("crash:" + res.crash_signature())
            return
        rows = parse.read_assignments(tsvp)
        recs = parse.records_of(rows)
        delta = sc["delta"]
        group_of = {}
        for r in sc["reads"]:
            group_of[r["n"]] = (r.get("tags") or {}).get("RG", "NA")
        records_ungrouped = [(k[1], v[0]["exons"], "NA") for k, v in recs.items() if v[0]["exons"]]
        exf, inf = annotated_features(sc)
        sim_e, sim_i = similar(exf, delta), similar(inf, delta)
        nt = False
        crossing = []
        if sc.get("split_locus"):
            import os
            regions = parse.log_regions(os.path.join(res.out, "isoquant.log"))
            cuts = sorted(set(b for a, b in regions))
            for r in sc["reads"]:
                if r.get("c") is None:
                    continue
                a, b = r["p"] + 1, R.ref_end_of(r)
                if any(a <= c <= b - 1 for c in cuts):
                    crossing.append((r["c"], a, b))
        for kind, feats, sim, path in (("exon", exf, sim_e, ep), ("intron", inf, sim_i, ip)):
            rec = recount(records_ungrouped, feats, sim, delta, kind)
            nt |= check_table(kind, parse.feature_counts(path), feats, sim, rec, ctx, case, crossing=crossing)
        if sc["grouped"]:
            gep, gip = res.path("exon_grouped_counts.tsv"), res.path("intron_grouped_counts.tsv")
            if not gep or not gip:
                ctx.violation("C13:grouped-table-missing", {}, case)
            else:
                records_g = [(k[1], v[0]["exons"], group_of.get(k[0], "NA")) for k, v in recs.items() if v[0]["exons"]]
                for kind, feats, sim, path, upath in (("exon", exf, sim_e, gep, ep), ("intron", inf, sim_i, gip, ip)):
                    rec = recount(records_g, feats, sim, delta, kind)
                    grows = parse.feature_counts(path)
                    check_table(kind + "-grouped", grows, feats, sim, rec, ctx, case)
                    # partition: grouped rows sum to the ungrouped row
                    tot = defaultdict(lambda: [0, 0])
                    for r in grows:
                        tot[(r["chr"], r["start"], r["end"])][0] += r["inc"]
                        tot[(r["chr"], r["start"], r["end"])][1] += r["exc"]
                    ut = defaultdict(lambda: [0, 0])
                    for r in parse.feature_counts(upath):
                        ut[(r["chr"], r["start"], r["end"])][0] += r["inc"]
                        ut[(r["chr"], r["start"], r["end"])][1] += r["exc"]
                    for k in set(tot) | set(ut):
                        if tot[k] != ut[k]:
                            ctx.violation("C13:%s-grouped-rows-do-not-sum-to-ungrouped" % kind,
                                          {"feature": k, "grouped_sum": tot[k], "ungrouped": ut[k]}, case)
        ctx.cls("delta=%d" % delta, "grouped" if sc["grouped"] else "ungrouped")
        if nt:
            ctx.mark_nontrivial(case_hash(case))
            ctx.sample(pipeline.summarize(sc))
    finally:
        res.cleanup()


@st.composite
def split_scenarios(draw):
    """Loci cut into several processing regions (templates of C05): pile-ups of different genes joined by bridging
    reads, long sparse genes, a gene across a split point."""
    rnd = draw(st.randoms(use_true_random=True))
    src = S.RndSrc(rnd)
    tmpl = draw(st.sampled_from(["pileups", "long_gene", "straddle", "inner_bridge", "inner_bridge"]))
    if tmpl == "pileups":
        sc = S.gen_deep_locus(src, with_annotation=True, max_reads=500, extra_chrom=False)
    elif tmpl == "inner_bridge":
        sc = S.gen_long_gene_locus(src, with_annotation=True, inner_bridge=True)
    else:
        sc = S.gen_long_gene_locus(src, with_annotation=True, straddle=tmpl == "straddle")
    dt = draw(st.sampled_from(["nanopore", "pacbio_ccs"]))
    sc["opts"] = ["--data_type", dt, "--no_gzip", "--threads", "1", "--count_exons", "--no_model_construction",
                  "--debug"]
    if draw(st.booleans()):
        sc["opts"] += ["--high_memory"]
    sc["delta"] = S.DELTAS[S.DATA_DEFAULT_STRATEGY[dt]]
    sc["grouped"] = False
    sc["split_locus"] = True
    sc["template"] = tmpl
    return sc


def stages(tier):
    q = tier == "quick"
    return [Stage("counts", "hyp", evaluate, n=224 if q else 3000, strategy=scenarios),
            Stage("split", "hyp", evaluate, n=48 if q else 600, strategy=split_scenarios)]
