"""C16 - alignment records become exon blocks exactly as SAM semantics dictate."""
import itertools
import sys

from hypothesis import strategies as st

from vlib import REPO
from vlib.refmodel import sam
from vlib.shard import Stage

ID = "C16"
LEVEL = "exploration"
TECHNIQUE = "exhaustive enumeration of SAM-valid CIGARs up to a bounded length + Hypothesis random long CIGARs and " \
            "polyA/polyT tail alignments, against an independent CIGAR walk and pysam"
RULE = ("Exhaustive: every SAM-valid CIGAR over {M,=,X,I,D,N,S,H} with <= 6 (quick) / 7 (thorough) operations and "
        "lengths from {1,2,3}; random: CIGARs with up to 60 operations and lengths up to 5000 through pysam "
        "AlignedSegment + AlignmentInfo; polyA stage: alignments whose last/first 1-3 exons are aligned A/T runs with "
        "optional soft-clipped tails, through the real PolyAFinder/PolyAFixer. A case = one CIGAR (distinct by "
        "construction in the enumeration); non-trivial = >= 1 N and an indel or clip adjacent to a block edge. "
        "PolyA cases with hard clips are evaluated with and without them (class with_hard_clips).")
ASSUMPTIONS = ["segments between two N that contain no aligned base (only I/D) are never emitted by aligners; their "
               "content is UNSPECIFIED (IsoQuant drops them), order/disjointness is still required",
               "read blocks are 0-based closed query intervals counting soft-clipped but not hard-clipped bases"]

_mods = None


def mods():
    global _mods
    if _mods is None:
        if REPO not in sys.path:
            sys.path.insert(0, REPO)
        import src.common as c
        import src.alignment_info as ai
        import src.polya_finder as pf
        import src.polya_verification as pv
        _mods = (c, ai, pf, pv)
    return _mods


def check_blocks(c, start0, cigar, ctx, case_of):
    segs = sam.walk(start0, cigar)
    ref, rd, cg = c.get_read_blocks(start0, [tuple(x) for x in cigar])
    exp = [s for s in segs if s["has_match"]]
    grey = len(exp) != len(segs)
    if grey:
        ctx.grey += 1
    eref = [(s["ref_s"], s["ref_e"]) for s in exp]
    erd = [(s["q_s"], s["q_e"]) for s in exp]
    if [tuple(x) for x in ref] != eref:
        ctx.violation("C16:exon-blocks-differ-from-sam-walk" + (":with-matchless-segment" if grey else ""),
                      {"start0": start0, "cigar": cigar, "got": ref, "expected": eref}, case_of())
    elif [tuple(x) for x in rd] != erd:
        ctx.violation("C16:read-blocks-differ-from-sam-walk", {"start0": start0, "cigar": cigar, "got": rd,
                                                                "expected": erd}, case_of())
    if any(ref[i][1] >= ref[i + 1][0] for i in range(len(ref) - 1)) or any(a > b for a, b in ref):
        ctx.violation("C16:exon-blocks-unordered", {"cigar": cigar, "got": ref}, case_of())
    return segs


def nontrivial(cigar):
    ops = [o for o, _ in cigar]
    if sam.N not in ops:
        return False
    for i, o in enumerate(ops):
        if o in (sam.I, sam.D):
            if i == 0 or i == len(ops) - 1 or ops[i - 1] in (sam.N, sam.S, sam.H) or ops[i + 1] in (sam.N, sam.S, sam.H):
                return True
        if o in (sam.S, sam.H):
            return True
    return False


def eval_enum(case, ctx):
    c, _, _, _ = mods()
    shard, nsh, kmax = case["shard"], case["nshards"], case["kmax"]
    ops = (sam.M, sam.EQ, sam.X, sam.I, sam.D, sam.N, sam.S, sam.H)
    cnt = 0
    idx = 0
    sample = None
    for k in range(1, kmax + 1):
        for opseq in itertools.product(ops, repeat=k):
            if not sam.valid([(o, 1) for o in opseq]):
                continue
            for lens in itertools.product((1, 2, 3), repeat=k):
                idx += 1
                if idx % nsh != shard:
                    continue
                cigar = [[o, l] for o, l in zip(opseq, lens)]
                cnt += 1
                check_blocks(c, 100, cigar, ctx, lambda: case)
                if nontrivial(cigar):
                    ctx.nontrivial_n += 1
                    sample = cigar
    ctx.evaluations += cnt - 1
    ctx.sample({"family": "enumerated", "kmax": kmax, "cigars_in_shard": cnt, "example": sample})


@st.composite
def long_cigars(draw):
    n = draw(st.integers(1, 60))
    core = []
    prev = None
    for i in range(n):
        choices = [sam.M, sam.M, sam.EQ, sam.X, sam.I, sam.D, sam.N]
        if prev is None or i == n - 1:
            choices = [sam.M, sam.EQ, sam.X, sam.I, sam.D]
        elif prev == sam.N:
            # a run of N operations is valid SAM (emitted by CIGAR post-processing / lift-over tools)
            choices = [sam.M, sam.M, sam.EQ, sam.X, sam.I, sam.D, sam.N]
        # equal neighbours are kept in one case out of four (the SAM specification only recommends merging them)
        keep_equal = draw(st.integers(0, 3)) == 0
        op = draw(st.sampled_from([o for o in choices if keep_equal or o != prev]))
        ln = draw(st.integers(1, 5000 if op == sam.N else 300))
        core.append([op, ln])
        prev = op
    if core[-1][0] == sam.N:
        core.append([sam.M, 5])
    if not any(o in sam.ALIGNED for o, _ in core):
        core.insert(0, [sam.M, draw(st.integers(1, 50))])
        if len(core) > 1 and core[1][0] == sam.M:
            core[1][0] = sam.EQ
    cig = []
    if draw(st.booleans()):
        if draw(st.booleans()):
            cig.append([sam.H, draw(st.integers(1, 50))])
        cig.append([sam.S, draw(st.integers(1, 80))])
    cig += core
    if draw(st.booleans()):
        cig.append([sam.S, draw(st.integers(1, 80))])
        if draw(st.booleans()):
            cig.append([sam.H, draw(st.integers(1, 50))])
    return {"start0": draw(st.integers(0, 10 ** 6)), "cigar": cig}


def eval_long(case, ctx):
    import pysam
    c, ai, _, _ = mods()
    cigar, start0 = case["cigar"], case["start0"]
    if not sam.valid(cigar):
        ctx.note("invalid_generated")
        return
    segs = check_blocks(c, start0, cigar, ctx, lambda: case)
    if nontrivial(cigar):
        ctx.mark_nontrivial(case)
    ctx.sample({"family": "random-long", "start0": start0, "cigar": cigar}, limit=2)
    # through pysam + AlignmentInfo
    hdr = pysam.AlignmentHeader.from_dict({"HD": {"VN": "1.6"}, "SQ": [{"SN": "c", "LN": 2 ** 29}]})
    a = pysam.AlignedSegment(hdr)
    a.query_name = "q"
    a.reference_id = 0
    a.reference_start = start0
    a.cigartuples = [tuple(x) for x in cigar]
    qlen = sum(l for o, l in cigar if o in (sam.M, sam.I, sam.S, sam.EQ, sam.X))
    a.query_sequence = ("ACGGTC" * (qlen // 6 + 1))[:qlen]
    info = ai.AlignmentInfo(a)
    exp = [(s["ref_s"], s["ref_e"]) for s in segs if s["has_match"]]
    if [tuple(x) for x in info.read_exons] != exp:
        ctx.violation("C16:alignment-info-exons-differ", {"cigar": cigar, "got": info.read_exons, "expected": exp},
                      case)
    # cross-check of the reference walk itself against pysam: union of pysam blocks + deletions inside segments
    pys = set()
    for s, e in a.get_blocks():
        pys.update(range(s + 1, e + 1))
    mine = set()
    for s in segs:
        mine.update(range(s["ref_s"], s["ref_e"] + 1))
    if not pys <= mine:
        ctx.harness_errors.append("reference walk disagrees with pysam.get_blocks for %s" % cigar)
    if a.reference_end != max(mine):
        ctx.harness_errors.append("reference walk end disagrees with pysam.reference_end for %s" % cigar)
    for s in segs:
        if s["q_e"] >= qlen:
            ctx.harness_errors.append("query interval beyond SEQ for %s" % cigar)


class P:
    pass


@st.composite
def polya_cases(draw):
    nbody = draw(st.integers(1, 4))
    side = draw(st.sampled_from(["A", "T", "both"]))
    body = []
    p = draw(st.integers(100, 5000))
    for i in range(nbody):
        ln = draw(st.integers(30, 300))
        body.append([p, p + ln - 1])
        p += ln + draw(st.integers(20, 2000))

    def tails():
        out = []
        for _ in range(draw(st.integers(1, 3))):
            out.append((draw(st.integers(2, 45)), draw(st.integers(20, 1500)),
                        draw(st.sampled_from(["pure", "pure", "mixed", "prefix"]))))
        return out
    # degraded reads: a single short body exon that itself is mostly tail, so that *all* exons may look like tail
    body_kind = draw(st.sampled_from(["normal", "normal", "normal", "mostly_tail", "head_meets_tail", "micro_chain"]))
    if body_kind == "micro_chain":
        # a T-rich head exon and an A-rich tail exon with 1-4 exons of a few A/T bases between them: several exons may
        # be counted from both sides
        seqs = [draw(st.sampled_from(["AA", "TT", "AT", "TA", "AAT", "ATT", "AATT", "A", "TTAA", "GA"]))
                for _ in range(draw(st.integers(1, 4)))]
        if draw(st.booleans()):
            seqs[-1] = seqs[-1] + "A" * draw(st.integers(16, 40))     # the last small exon carries the tail itself
            ta = []
        else:
            ta = [(draw(st.integers(16, 40)), draw(st.integers(50, 600)), "pure")]
        if draw(st.booleans()):
            seqs[0] = "T" * draw(st.integers(16, 40)) + seqs[0]
            tt = []
        else:
            tt = [(draw(st.integers(16, 40)), draw(st.integers(50, 600)), "pure")]
        body, p = [], body[0][0]
        for q_ in seqs:
            body.append([p, p + len(q_) - 1])
            p += len(q_) + draw(st.integers(50, 600))
        return {"body": body, "body_kind": "micro_chain", "body_seqs": seqs, "body_tail_frac": 1.0, "ta": ta, "tt": tt,
                "clip_a": draw(st.sampled_from([0, 0, 0, 3, 20])), "clip_t": draw(st.sampled_from([0, 0, 0, 3, 20])),
                "mfte": draw(st.sampled_from([0, 20, 40]))}
    if body_kind == "head_meets_tail":
        side = "both"
    if body_kind in ("mostly_tail", "head_meets_tail"):
        ln = draw(st.integers(6, 45))
        body = [[body[0][0], body[0][0] + ln - 1]]
        if body_kind == "head_meets_tail":
            # the T-rich head runs into the only body exon from the left and the A-rich tail from the right: the two
            # 16-base finder windows (12 of 16 bases suffice) may overlap inside it
            body_kind = "head_meets_tail"
            seq = "T" * draw(st.integers(1, 8)) + \
                draw(st.sampled_from(["", "AT", "AATT", "AATTTT", "TTAA", "AATTAATT", "GA", "TTAATT"])) + \
                "A" * draw(st.integers(1, 8))
            if len(seq) >= 4:
                body = [[body[0][0], body[0][0] + len(seq) - 1]]
                return {"body": body, "body_kind": body_kind, "body_seq": seq, "body_tail_frac": 1.0,
                        "ta": [(draw(st.integers(16, 40)), draw(st.integers(50, 400)), "pure")],
                        "tt": [(draw(st.integers(16, 40)), draw(st.integers(50, 400)), "pure")],
                        "clip_a": draw(st.integers(0, 20)), "clip_t": draw(st.integers(0, 20)),
                        "mfte": draw(st.sampled_from([0, 20, 40]))}
    return {"body": body, "body_kind": body_kind, "body_tail_frac": draw(st.sampled_from([0.5, 0.7, 0.9, 1.0])),
            "ta": tails() if side in ("A", "both") else [],
            "tt": tails() if side in ("T", "both") else [],
            "clip_a": draw(st.integers(0, 40)), "clip_t": draw(st.integers(0, 40)),
            # hard clips outside the soft clips (supplementary / trimmed records): they consume nothing
            "hard_a": draw(st.sampled_from([0, 0, 0, 7, 30])), "hard_t": draw(st.sampled_from([0, 0, 0, 5, 30])),
            "mfte": draw(st.sampled_from([0, 20, 40]))}


def eval_polya(case, ctx):
    import pysam
    c, ai, pf, pv = mods()
    body = [list(b) for b in case["body"]]
    # build blocks + sequence
    blocks = []
    seqs = []
    # polyT exons to the left
    left = []
    pos = body[0][0]
    for ln, gap, kind in case["tt"]:
        e = pos - gap - 1
        s = e - ln + 1
        if s < 2:
            break
        left.append(([s, e], kind, "T"))
        pos = s
    left.reverse()
    right = []
    pos = body[-1][1]
    for ln, gap, kind in case["ta"]:
        s = pos + gap + 1
        e = s + ln - 1
        right.append(([s, e], kind, "A"))
        pos = e
    filler = "CGGTCCGAGC"

    def seq_for(b, kind, ch):
        ln = b[1] - b[0] + 1
        if kind == "pure":
            return ch * ln
        if kind == "mixed":
            return "".join(ch if i % 5 else "G" for i in range(ln))
        # prefix: genomic-looking start, tail afterwards (A side) / tail first (T side)
        k = ln // 3
        body_part = (filler * (k // 10 + 1))[:k]
        return (body_part + ch * (ln - k)) if ch == "A" else (ch * (ln - k) + body_part)
    allb = [(b, k, ch) for b, k, ch in left] + [(b, None, None) for b in body] + [(b, k, ch) for b, k, ch in right]
    cigar = []
    q = ""
    block_at = {}
    if case.get("hard_t"):
        cigar.append((sam.H, case["hard_t"]))
    if case["clip_t"] and left:
        cigar.append((sam.S, case["clip_t"]))
        q += "T" * case["clip_t"]
    for i, (b, k, ch) in enumerate(allb):
        if i:
            cigar.append((sam.N, b[0] - allb[i - 1][0][1] - 1))
        ln = b[1] - b[0] + 1
        cigar.append((sam.M, ln))
        q0 = len(q)
        block_at[tuple(b)] = q0
        if k:
            q += seq_for(b, k, ch)
        elif case.get("body_seqs"):
            q += case["body_seqs"][i - len(left)]
        elif case.get("body_kind") == "head_meets_tail" and case.get("body_seq"):
            q += case["body_seq"]
        elif case.get("body_kind") == "head_meets_tail":
            nt = max(1, int(ln * case.get("body_tail_frac", 1.0)) // 2)
            mid = ("AATT" * (ln // 4 + 1))[:max(0, ln - 2 * nt)]
            q += "T" * nt + mid + "A" * (ln - nt - len(mid))
        elif case.get("body_kind") == "mostly_tail":
            nt = int(ln * case.get("body_tail_frac", 1.0))
            plain = (filler * (ln // 10 + 1))[:ln - nt]
            if left and not right:
                q += "T" * nt + plain        # T head continues into the body
            else:
                q += plain + "A" * nt        # A tail starts inside the body
        else:
            q += (filler * (ln // 10 + 1))[:ln]
    if case["clip_a"] and right:
        cigar.append((sam.S, case["clip_a"]))
        q += "A" * case["clip_a"]
    if case.get("hard_a"):
        cigar.append((sam.H, case["hard_a"]))
    hdr = pysam.AlignmentHeader.from_dict({"HD": {"VN": "1.6"}, "SQ": [{"SN": "c", "LN": 2 ** 29}]})
    a = pysam.AlignedSegment(hdr)
    a.query_name = "q"
    a.reference_id = 0
    a.reference_start = allb[0][0][0] - 1
    a.cigartuples = cigar
    a.query_sequence = q
    info = ai.AlignmentInfo(a)
    orig = [tuple(x) for x in info.read_exons]
    if orig != [tuple(b) for b, _, _ in allb]:
        ctx.harness_errors.append("polyA harness: blocks differ before trimming")
        return
    params = P()
    params.max_fake_terminal_exon_len = case["mfte"]
    finder = pf.PolyAFinder(16, 0.75)
    fixer = pv.PolyAFixer(params)
    try:
        info.add_polya_info(finder, fixer)
    except Exception as e:
        ctx.violation("C16:polya-trimming-raised:" + type(e).__name__, {"cigar": cigar, "error": str(e)[:200]}, case)
        return
    ex = [tuple(x) for x in info.read_exons]
    trimmed = ex != orig
    ctx.cls("trimmed" if trimmed else "untrimmed")
    if case.get("hard_a") or case.get("hard_t"):
        # hard clips consume neither query nor reference: the record without them gives exactly the same result
        ctx.cls("with_hard_clips")
        a2 = pysam.AlignedSegment(hdr)
        a2.query_name = "q"
        a2.reference_id = 0
        a2.reference_start = a.reference_start
        a2.cigartuples = [op for op in cigar if op[0] != sam.H]
        a2.query_sequence = q
        info2 = ai.AlignmentInfo(a2)
        try:
            info2.add_polya_info(finder, fixer)
            same = ([tuple(x) for x in info2.read_exons] == ex and vars(info2.polya_info) == vars(info.polya_info) and
                    (info2.read_start, info2.read_end) == (info.read_start, info.read_end))
        except Exception:
            same = False
        if not same:
            ctx.violation("C16:hard-clips-change-the-result", {
                "cigar": [list(x) for x in cigar], "with": [ex, vars(info.polya_info)],
                "without": [[tuple(x) for x in info2.read_exons], vars(info2.polya_info)]}, case)
    if trimmed:
        ctx.mark_nontrivial(case)
        ctx.sample({"family": "polyA", "cigar": [list(x) for x in cigar], "exons_before": orig, "exons_after": ex,
                    "polya": vars(info.polya_info)}, limit=2)
    if not ex:
        ctx.violation("C16:polya-trimming-left-no-exons", {"cigar": cigar, "orig": orig}, case)
        return
    if any(ex[i][1] >= ex[i + 1][0] for i in range(len(ex) - 1)):
        ctx.violation("C16:polya-trimming-unordered-exons", {"exons": ex}, case)
    k = len(ex)
    starts = [i for i in range(len(orig) - k + 1) if orig[i:i + k] == ex]
    if not starts:
        ctx.violation("C16:trimmed-exons-not-a-contiguous-part-of-the-original", {"orig": orig, "after": ex}, case)
        return
    if len(info.read_blocks) != k or len(info.cigar_blocks) != k:
        ctx.violation("C16:read-blocks-not-trimmed-with-exons", {"exons": ex, "read_blocks": info.read_blocks}, case)
    i0 = starts[0]
    removed_right = orig[i0 + k:]
    removed_left = orig[:i0]
    pi = info.polya_info
    if (info.read_start, info.read_end) != (ex[0][0], ex[-1][1]):
        ctx.violation("C16:read-start-end-not-updated", {"exons": ex, "start": info.read_start, "end": info.read_end},
                      case)
    # bases of the removed exons that are not tail bases (the generator knows the sequence of every tail exon): the
    # position may lie that many bases beyond the retained exon ("retained end + transcript bases of the removed
    # exons"), not more - tail bases that happen to be aligned are not part of the transcript
    def nontail(removed, ch):
        n = 0
        for b_ in removed:
            at_ = block_at[tuple(b_)] + (case["clip_t"] if False else 0)
            n += sum(1 for x in q[at_:at_ + b_[1] - b_[0] + 1] if x != ch)
        return n
    # the internal search looks at the last 4 x 16 aligned bases only: with more aligned tail bases than that the
    # recorded position lies inside the tail by construction, and only the old bound (all removed bases) applies
    # an internal tail position that lies on a retained exon names a tail base of the read: by IsoQuant's convention
    # the base behind the recorded polyA position is the first A of the tail, the base behind the recorded polyT
    # position is the last T of the head (this generator aligns without insertions and deletions)
    def base_at(pos1):
        for b_ in ex:
            if b_[0] <= pos1 <= b_[1] and tuple(b_) in block_at:
                return q[block_at[tuple(b_)] + pos1 - b_[0]]
        return None
    for name, p_, ch in (("internal_polya_pos", pi.internal_polya_pos, "A"), ("internal_polyt_pos", pi.internal_polyt_pos, "T")):
        if p_ != -1 and not (removed_left if ch == "T" else removed_right):
            # (after exons were removed the position is recomputed from the retained exon, see the bounds below)
            got = base_at(p_ + 1)
            if got is not None and got != ch:
                ctx.violation("C16:tail-position-names-a-base-that-is-not-a-tail-base:" + name,
                              {"pos": p_, "base": got, "exons": ex[:3], "cigar": [list(x) for x in cigar]}, case)
    if removed_right:
        rlen = nontail(set(removed_right), "A")
        if sum(e - s + 1 for s, e in removed_right) > 56:
            rlen = sum(e - s + 1 for s, e in removed_right)
        for name, p in (("internal_polya_pos", pi.internal_polya_pos), ("external_polya_pos", pi.external_polya_pos)):
            if p != -1 and not (ex[-1][0] <= p <= ex[-1][1] + rlen + 2):
                ctx.violation("C16:polya-position-not-on-retained-exon:" + name,
                              {"pos": p, "retained_last_exon": ex[-1], "removed": removed_right,
                               "transcript_bases_in_removed_exons": rlen}, case)
    if removed_left:
        llen = nontail(set(removed_left), "T")
        if sum(e - s + 1 for s, e in removed_left) > 56:
            llen = sum(e - s + 1 for s, e in removed_left)
        for name, p in (("internal_polyt_pos", pi.internal_polyt_pos), ("external_polyt_pos", pi.external_polyt_pos)):
            if p != -1 and not (ex[0][0] - llen - 3 <= p <= ex[0][1]):
                ctx.violation("C16:polyt-position-not-on-retained-exon:" + name,
                              {"pos": p, "retained_first_exon": ex[0], "removed": removed_left,
                               "transcript_bases_in_removed_exons": llen}, case)


def _shard_cases(**kw):
    def en(shard, nshards):
        d = dict(kw)
        d["shard"] = shard
        d["nshards"] = nshards
        yield d
    return en


def stages(tier):
    q = tier == "quick"
    return [Stage("enumerated", "enum", eval_enum, enumerate=_shard_cases(kmax=5 if q else 6), exhaustive=True),
            Stage("long", "hyp", eval_long, n=20000 if q else 400000, strategy=long_cigars),
            Stage("polya", "hyp", eval_polya, n=8000 if q else 200000, strategy=polya_cases),
            # the same generators and oracles driven by libFuzzer (atheris) with coverage feedback from /repo/src
            Stage("fuzz_long", "hypfuzz", eval_long, n=6000 if q else 400000, strategy=long_cigars,
                  shards=4 if q else 16),
            Stage("fuzz_polya", "hypfuzz", eval_polya, n=4000 if q else 200000, strategy=polya_cases,
                  shards=4 if q else 16)]
