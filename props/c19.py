"""C19 - interval and profile primitives return exactly the set-theoretic result."""
import itertools
import math
import sys
from functools import partial

from hypothesis import strategies as st

from vlib import REPO
from vlib.refmodel import intervals as I
from vlib.shard import Stage

ID = "C19"
LEVEL = "exploration"
TECHNIQUE = "exhaustive enumeration of small universes + Hypothesis random large instances against a " \
            "set-of-positions reference model"
RULE = ("Exhaustive: all sorted disjoint interval lists (<=4 intervals) over a universe 1..N (N=7 quick, 8 thorough), "
        "all pairs of lists for binary functions, all single-interval pairs x delta 0..3, all positions 0..N+1, all exon "
        "multisets for split_exons, all (read features, known features, delta) triples for the profile constructors. "
        "Random: Hypothesis lists of up to 300 intervals over 1e7. A case = one (function-family, input) tuple, "
        "distinct by construction; non-trivial = the input has touching, nested, equal-end or single-base intervals.")
ASSUMPTIONS = ["semantics of each primitive taken from its docstring/comments and its callers (DESIGN.md section 4 C19)",
               "profile constructors: verdicts only where the statement is definite (features within delta of a "
               "competing feature are UNSPECIFIED and counted as grey)"]

_common = None


def C():
    global _common
    if _common is None:
        if REPO not in sys.path:
            sys.path.insert(0, REPO)
        import src.common as c
        import src.gene_info as g
        import src.long_read_profiles as p
        _common = (c, g, p)
    return _common


def N_for(tier):
    return 7 if tier == "quick" else 8


# ------------------------------------------------------------------------------------------------ single ranges

def eval_ranges(case, ctx):
    """case = n: all pairs of intervals over 1..n x delta 0..3"""
    c, _, _ = C()
    n = case["n"]
    ivs = I.all_intervals(n)
    shard, nsh = case["shard"], case["nshards"]
    cnt = 0
    for idx, r1 in enumerate(ivs):
        if idx % nsh != shard:
            continue
        s1 = I.pos(r1)
        for r2 in ivs:
            s2 = I.pos(r2)
            inter = s1 & s2
            cnt += 1
            nontriv = bool(inter) and (r1[0] == r2[0] or r1[1] == r2[1] or r1[1] == r2[0] or r2[1] == r1[0])
            if nontriv:
                ctx.nontrivial_n += 1

            def bad(fn, got, exp):
                ctx.violation("C19:%s" % fn, {"fn": fn, "args": [r1, r2], "got": got, "expected": exp},
                              case)
            exp = bool(inter)
            if c.overlaps(r1, r2) != exp:
                bad("overlaps", c.overlaps(r1, r2), exp)
            if c.intersection_len(r1, r2) != len(inter):
                bad("intersection_len", c.intersection_len(r1, r2), len(inter))
            if inter:
                oi = c.overlap_intervals(r1, r2)
                if I.pos(oi) != inter:
                    bad("overlap_intervals", oi, sorted(inter))
            if c.left_of(r1, r2) != (max(s1) < min(s2)):
                bad("left_of", c.left_of(r1, r2), max(s1) < min(s2))
            if c.contains(r1, r2) != (s2 <= s1):
                bad("contains", c.contains(r1, r2), s2 <= s1)
            mr = c.max_range(r1, r2)
            if tuple(mr) != (min(s1 | s2), max(s1 | s2)):
                bad("max_range", mr, (min(s1 | s2), max(s1 | s2)))
            if c.interval_len(r1) != len(s1):
                bad("interval_len", c.interval_len(r1), len(s1))
            e = (r2[0] in s1) and (r1[1] in s2)
            if c.covers_end(r1, r2) != e:
                bad("covers_end", c.covers_end(r1, r2), e)
            e = (r1[0] in s2) and (r2[1] in s1)
            if c.covers_start(r1, r2) != e:
                bad("covers_start", c.covers_start(r1, r2), e)
            for d in range(0, 4):
                e = abs(r1[0] - r2[0]) <= d and abs(r1[1] - r2[1]) <= d
                if c.equal_ranges(r1, r2, d) != e:
                    bad("equal_ranges", c.equal_ranges(r1, r2, d), e)
                e = set(range(r2[0] - d, r2[1] + d + 1)) <= s1
                if c.contains_well_inside(r1, r2, d) != e:
                    bad("contains_well_inside", c.contains_well_inside(r1, r2, d), e)
                e = s2 <= set(range(r1[0] - d, r1[1] + d + 1))
                if c.contains_approx(r1, r2, d) != e:
                    bad("contains_approx", c.contains_approx(r1, r2, d), e)
                # set-theoretic: True when the ranges share >= d positions (and at least one) or one of them lies
                # within the other (both branches of the code test containment; which of the two ranges ends first
                # must not matter), False otherwise
                if len(inter) >= max(d, 1):
                    e = True
                elif not inter or not (s1 <= s2 or s2 <= s1):
                    e = False
                else:
                    e = True
                if e is not None:
                    got = c.overlaps_at_least(r1, r2, d)
                    if got != e:
                        bad("overlaps_at_least", got, e)
                    if inter:
                        got = c.overlaps_at_least_when_overlap(r1, r2, d)
                        if got != e:
                            bad("overlaps_at_least_when_overlap", got, e)
    ctx.evaluations += cnt - 1
    ctx.sample({"family": "ranges", "n": n, "pairs_checked": cnt})


# ------------------------------------------------------------------------------------------------ lists

def eval_lists(case, ctx):
    """case: n, kmax, shard: all lists l1 of this shard x all lists l2 x all positions"""
    c, _, _ = C()
    n, kmax = case["n"], case["kmax"]
    shard, nsh = case["shard"], case["nshards"]
    lists = I.all_lists(n, kmax)
    psets = [I.lpos(l) for l in lists]
    cnt = 0

    def bad(fn, args, got, exp):
        ctx.violation("C19:%s" % fn, {"fn": fn, "args": args, "got": got, "expected": exp}, case)
    for i, l1 in enumerate(lists):
        if i % nsh != shard:
            continue
        s1 = psets[i]
        nt1 = I.is_nontrivial_list(l1)
        # unary
        if c.intervals_total_length(l1) != len(s1):
            bad("intervals_total_length", [l1], c.intervals_total_length(l1), len(s1))
        for p in range(0, n + 2):
            cnt += 1
            if nt1:
                ctx.nontrivial_n += 1
            e = len([x for x in s1 if x < p])
            if c.sum_intervals_to_point(l1, p) != e:
                bad("sum_intervals_to_point", [l1, p], c.sum_intervals_to_point(l1, p), e)
            e = len([x for x in s1 if x > p])
            if c.sum_intervals_from_point(l1, p) != e:
                bad("sum_intervals_from_point", [l1, p], c.sum_intervals_from_point(l1, p), e)
            # bin searches
            if p < l1[0][0] or p > l1[-1][1]:
                e1 = e2 = -1
            else:
                e1 = max(j for j, iv in enumerate(l1) if iv[0] <= p)
                e2 = min(j for j, iv in enumerate(l1) if p <= iv[1])
            g1 = c.interval_bin_search(l1, p)
            if g1 != e1:
                bad("interval_bin_search", [l1, p], g1, e1)
            g2 = c.interval_bin_search_rev(l1, p)
            if g2 != e2:
                bad("interval_bin_search_rev", [l1, p], g2, e2)
        # junctions / exons conversion
        j = c.junctions_from_blocks(l1)
        gaps = I.to_intervals(set(range(l1[0][0], l1[-1][1] + 1)) - s1)
        if [tuple(x) for x in j] != gaps:
            bad("junctions_from_blocks", [l1], j, gaps)
        merged = I.to_intervals(s1)
        if j:
            ex = c.get_exons((l1[0][0], l1[-1][1]), list(j))
            if [tuple(x) for x in ex] != merged:
                bad("get_exons", [(l1[0][0], l1[-1][1]), j], ex, merged)
            region = (l1[0][0], l1[-1][1])
            for k in range(len(j) + 1):
                ge = c.get_exon(region, j, k)
                if tuple(ge) != merged[k]:
                    bad("get_exon", [region, j, k], ge, merged[k])
                ge = c.get_exon(region, j, k - len(j) - 1)
                if tuple(ge) != merged[k]:
                    bad("get_exon", [region, j, k - len(j) - 1], ge, merged[k])
                gp = c.get_preceding_exon_from_junctions(region, j, k)
                if tuple(gp) != merged[k]:
                    bad("get_preceding_exon_from_junctions", [region, j, k], gp, merged[k])
                if k < len(j):
                    gf = c.get_following_exon_from_junctions(region, j, k)
                    if tuple(gf) != merged[k + 1]:
                        bad("get_following_exon_from_junctions", [region, j, k], gf, merged[k + 1])
            gf = c.get_following_exon_from_junctions(region, j, -1)
            if tuple(gf) != merged[-1]:
                bad("get_following_exon_from_junctions", [region, j, -1], gf, merged[-1])
        # truncation at polyA / polyT lying inside exons
        # (polyA strictly after the first base of its exon, polyT strictly before the last base of its exon:
        #  a tail position on the very first/last base of an exon leaves nothing of that exon and is not produced
        #  by the polyA finder, which reports the first tail base *after* aligned sequence)
        starts = set(a for a, b in l1)
        ends = set(b for a, b in l1)
        for pa in [-1] + sorted(s1 - starts):
            for pt in [-1] + sorted(s1 - ends):
                if pa != -1 and pt != -1 and pt >= pa:
                    continue
                lo = pt if pt != -1 else l1[0][0]
                hi = pa if pa != -1 else l1[-1][1]
                exp = set(x for x in s1 if lo <= x <= hi)
                got = c.truncate_read_to_polya(list(l1), pa, pt)
                cnt += 1
                if I.lpos(got) != exp or [tuple(x) for x in got] != sorted(tuple(x) for x in got):
                    bad("truncate_read_to_polya", [l1, pa, pt], got, I.to_intervals(exp))
        # extra_exon_percentage
        for a in range(1, n + 1):
            for b in range(a, n + 1):
                e = len([x for x in s1 if x < a or x > b]) / len(s1)
                g = c.extra_exon_percentage((a, b), l1)
                cnt += 1
                if abs(g - e) > 1e-12:
                    bad("extra_exon_percentage", [(a, b), l1], g, e)
        # binary
        for k2, l2 in enumerate(lists):
            s2 = psets[k2]
            cnt += 1
            if nt1 or I.is_nontrivial_list(l2) or any(x[1] == y[1] or x[0] == y[0] for x in l1 for y in l2):
                ctx.nontrivial_n += 1
            e = len(s1 & s2) / len(s1 | s2)
            try:
                g = c.jaccard_similarity(l1, l2)
            except AssertionError as ex:
                bad("jaccard_similarity:assert", [l1, l2], "AssertionError", e)
                g = e
            if abs(g - e) > 1e-12:
                bad("jaccard_similarity", [l1, l2], g, e)
            e = len(s1 & s2) / len(s1)
            g = c.read_coverage_fraction(l1, l2)
            if abs(g - e) > 1e-12:
                bad("read_coverage_fraction", [l1, l2], g, e)
            try:
                m = c.merge_ranges(l1, l2)
                ok = I.lpos(m) == (s1 | s2) and all(m[x][1] < m[x + 1][0] for x in range(len(m) - 1))
                if not ok:
                    bad("merge_ranges", [l1, l2], m, I.to_intervals(s1 | s2))
            except AssertionError:
                bad("merge_ranges:assert", [l1, l2], "AssertionError", I.to_intervals(s1 | s2))
    ctx.evaluations += cnt - 1
    ctx.sample({"family": "lists", "n": n, "kmax": kmax, "lists": len(lists), "checks_in_shard": cnt,
                "example": lists[len(lists) // 2]})


# ------------------------------------------------------------------------------------------------ long bin search

def eval_binsearch(case, ctx):
    """lists of k <= 9 intervals with lengths {1,2} and gaps {0,2}: all positions"""
    c, _, _ = C()
    shard, nsh = case["shard"], case["nshards"]
    cnt = 0
    idx = 0
    for k in range(1, case["kmax"] + 1):
        for lens in itertools.product((1, 2), repeat=k):
            for gaps in itertools.product((0, 2), repeat=k - 1):
                idx += 1
                if idx % nsh != shard:
                    continue
                lst = []
                p = 3
                for q in range(k):
                    lst.append((p, p + lens[q] - 1))
                    p += lens[q] + (gaps[q] if q < k - 1 else 0)
                for pos in range(1, p + 2):
                    cnt += 1
                    if pos < lst[0][0] or pos > lst[-1][1]:
                        e1 = e2 = -1
                    else:
                        e1 = max(j for j, iv in enumerate(lst) if iv[0] <= pos)
                        e2 = min(j for j, iv in enumerate(lst) if pos <= iv[1])
                    g1 = c.interval_bin_search(lst, pos)
                    g2 = c.interval_bin_search_rev(lst, pos)
                    if g1 != e1:
                        ctx.violation("C19:interval_bin_search", {"args": [lst, pos], "got": g1, "expected": e1},
                                      case)
                    if g2 != e2:
                        ctx.violation("C19:interval_bin_search_rev", {"args": [lst, pos], "got": g2, "expected": e2},
                                      case)
                ctx.nontrivial_n += 1 if (0 in gaps or 1 in lens) else 0
    ctx.evaluations += cnt - 1
    ctx.sample({"family": "binsearch", "kmax": case["kmax"], "checks_in_shard": cnt})


# ------------------------------------------------------------------------------------------------ split_exons

def eval_split(case, ctx):
    _, g, _ = C()
    n = case["n"]
    shard, nsh = case["shard"], case["nshards"]
    ivs = I.all_intervals(n)
    cnt = 0
    idx = 0
    for k in range(1, case["kmax"] + 1):
        for combo in itertools.combinations_with_replacement(ivs, k):
            idx += 1
            if idx % nsh != shard:
                continue
            exons = list(set(combo))  # GeneInfo collects exons in a set: distinct exons, any overlap
            exp = I.split_segments(exons)
            got = g.GeneInfo.split_exons(sorted(exons))
            cnt += 1
            if len(exons) > 1:
                ctx.nontrivial_n += 1
            if [tuple(x) for x in got] != exp:
                ctx.violation("C19:split_exons", {"args": sorted(exons), "got": got, "expected": exp},
                              case)
    ctx.evaluations += cnt - 1
    ctx.sample({"family": "split_exons", "n": n, "kmax": case["kmax"], "checks_in_shard": cnt})


# ------------------------------------------------------------------------------------------------ profiles

def _expected_isoform_profile(features, iso_features, region, cmp_kind):
    """+1 iff the isoform contains the feature (exact for introns/exons; 'contains' for split exons),
    -2 outside the transcript region, -1 otherwise."""
    out = []
    for f in features:
        if cmp_kind == "equal":
            present = tuple(f) in set(tuple(x) for x in iso_features)
        else:
            present = any(x[0] <= f[0] and f[1] <= x[1] for x in iso_features)
        if present:
            out.append(1)
        elif f[1] < region[0] or f[0] > region[1]:
            out.append(-2)
        else:
            out.append(-1)
    return out


def eval_profiles(case, ctx):
    c, g, p = C()
    n = case["n"]
    ctx.current_case = case
    shard, nsh = case["shard"], case["nshards"]
    lists = I.all_lists(n, case["kmax"])
    cnt = 0
    # --- isoform profiles: features = sorted union of the exons (or introns) of 2 isoforms
    idx = 0
    for l1 in lists:
        for l2 in lists:
            idx += 1
            if idx % nsh != shard:
                continue
            for kind in ("exon", "intron", "split"):
                if kind == "exon":
                    f1, f2 = l1, l2
                    feats = sorted(set(f1) | set(f2))
                    cmp_kind = "equal"
                elif kind == "intron":
                    f1 = [tuple(x) for x in c.junctions_from_blocks(l1)]
                    f2 = [tuple(x) for x in c.junctions_from_blocks(l2)]
                    feats = sorted(set(f1) | set(f2))
                    cmp_kind = "equal"
                else:
                    f1, f2 = l1, l2
                    feats = [tuple(x) for x in g.GeneInfo.split_exons(sorted(set(l1) | set(l2)))]
                    cmp_kind = "contains"
                if not feats:
                    continue
                fp = g.FeatureProfiles()
                fp.set_features(feats)
                for tid, (fl, full) in (("a", (f1, l1)), ("b", (f2, l2))):
                    region = (full[0][0], full[-1][1])
                    fp.set_profiles(tid, fl, region,
                                    partial(c.equal_ranges, delta=0) if cmp_kind == "equal" else c.contains)
                    exp = _expected_isoform_profile(feats, fl, region, cmp_kind)
                    cnt += 1
                    ctx.nontrivial_n += 1
                    if fp.profiles[tid] != exp:
                        ctx.violation("C19:isoform_profile:" + kind,
                                      {"features": feats, "isoform": fl, "region": region, "got": fp.profiles[tid],
                                       "expected": exp},
                                      case)
                    ones = [i for i, v in enumerate(exp) if v == 1]
                    rng = (ones[0], ones[-1] + 1) if ones else (len(exp), 0)
                    if ones and tuple(fp.profile_ranges[tid]) != rng:
                        ctx.violation("C19:isoform_profile_range:" + kind,
                                      {"features": feats, "isoform": fl, "got": fp.profile_ranges[tid],
                                       "expected": rng}, case)
            # --- read profiles: known features = exons/introns of l2 as a gene, read = l1
            for delta in (0, 1, 2):
                cnt += _read_profiles(c, p, l1, l2, delta, ctx)
            # --- split-exon read profile: known = disjoint blocks l2, read = l1
            cnt += _split_profiles(c, p, l1, l2, ctx)
    ctx.evaluations += cnt - 1
    ctx.sample({"family": "profiles", "n": n, "kmax": case["kmax"], "checks_in_shard": cnt})


def _read_profiles(c, p, read, known_iso, delta, ctx, second_iso=None):
    """Read profile over the exons / introns of one known chain: +1 MUST when exactly one known feature is within
    delta of a read feature and it is that one; never +1 when no read feature is within delta; -1 MUST when the read
    spans the feature (exon: inside (first exon end+delta, last exon start-delta); intron: inside the read span)
    without any read feature within delta; 0 MUST when the feature lies wholly outside the read span.  Everything
    else (competing features within delta, partial overlap) is UNSPECIFIED."""
    cnt = 0
    gene_region = (known_iso[0][0], known_iso[-1][1])
    for kind in ("exon", "intron"):
        # domain: features longer than delta (two features within delta at both ends then necessarily overlap;
        # real exons/introns are far longer than any delta preset)
        feats_all = (list(read) + list(known_iso)) if kind == "exon" else \
            (list(c.junctions_from_blocks(read)) + list(c.junctions_from_blocks(known_iso)))
        if any(b - a + 1 <= delta for a, b in feats_all):
            continue
        # read blocks are separated by introns longer than delta (shorter gaps are deletions, not N operations);
        # exons of one annotated transcript do not touch
        if any(read[i + 1][0] - read[i][1] - 1 <= delta for i in range(len(read) - 1)) or \
                any(known_iso[i + 1][0] - known_iso[i][1] - 1 < 1 for i in range(len(known_iso) - 1)):
            continue
        if kind == "exon":
            known = [tuple(x) for x in known_iso]
            rf = [tuple(x) for x in read]
            ctor = p.OverlappingFeaturesProfileConstructor(known, gene_region,
                                                           comparator=partial(c.equal_ranges, delta=delta),
                                                           delta=delta)
            prof = ctor.construct_exon_profile(read)
            span = (read[0][1] + delta, read[-1][0] - delta)
        else:
            known = [tuple(x) for x in c.junctions_from_blocks(known_iso)]
            if second_iso:
                # the introns of a gene come from several isoforms: near-identical alternatives lie next to each other
                known = sorted(set(known) | set(tuple(x) for x in c.junctions_from_blocks(second_iso)))
                if any(b - a + 1 <= delta for a, b in known):
                    continue
                gene_region = (min(known_iso[0][0], second_iso[0][0]), max(known_iso[-1][1], second_iso[-1][1]))
            rf = [tuple(x) for x in c.junctions_from_blocks(read)]
            if not known:
                continue
            ctor = p.OverlappingFeaturesProfileConstructor(
                known, gene_region, comparator=partial(c.equal_ranges, delta=delta),
                absence_condition=partial(c.overlaps_at_least, delta=2), delta=delta)
            prof = ctor.construct_intron_profile(read)
            span = (read[0][0], read[-1][1])
        cnt += 1
        gp = prof.gene_profile
        if len(gp) != len(known) or len(prof.read_profile) != len(rf):
            ctx.violation("C19:read_profile:length", {"kind": kind, "known": known, "read": read},
                          ctx.current_case)
            continue
        for i, k in enumerate(known):
            matches = [r for r in rf if abs(r[0] - k[0]) <= delta and abs(r[1] - k[1]) <= delta]
            competing = [k2 for k2 in known if k2 != k and any(
                abs(r[0] - k2[0]) <= delta and abs(r[1] - k2[1]) <= delta for r in matches)]
            verdict = None
            if matches and not competing:
                verdict = 1
            elif matches:
                # several known features within delta of the read feature: "the closest is present" - a known feature
                # that is strictly the closest one (sum of the two end distances) for one of its read features is +1
                for r in matches:
                    near = [k2 for k2 in known if abs(r[0] - k2[0]) <= delta and abs(r[1] - k2[1]) <= delta]
                    dist = lambda x: abs(r[0] - x[0]) + abs(r[1] - x[1])
                    if all(dist(k) < dist(k2) for k2 in near if k2 != k):
                        verdict = 1
            elif not matches:
                inside = span[0] <= k[0] and k[1] <= span[1] if kind == "exon" else \
                    (span[0] <= k[0] and k[1] <= span[1])
                outside = k[1] < read[0][0] or k[0] > read[-1][1]
                if inside and span[0] <= span[1]:
                    verdict = -1
                elif outside:
                    verdict = 0
                else:
                    if gp[i] == 1:
                        verdict = "not1"
            if verdict is None:
                ctx.grey += 1
                continue
            if verdict == "not1" or gp[i] != verdict:
                suffix = ""
                if kind == "intron" and verdict == 1 and any(b - a + 1 <= delta for a, b in read[1:-1]) and \
                        any(min(r[1], k[1]) >= max(r[0], k[0]) for r in rf if r not in matches and r[1] < matches[0][0]):
                    # the known intron overlaps the read intron before a read exon that is not longer than delta, and
                    # matches the read intron after it
                    suffix = ":known-intron-overlaps-the-read-intron-before-a-read-exon-not-longer-than-delta"
                ctx.violation("C19:read_profile:%s:%s%s" % (kind, "expected_%s_got_%s" % (verdict, gp[i]), suffix),
                              {"kind": kind, "known": known, "read_features": rf, "delta": delta, "index": i,
                               "got": gp, "expected_at_index": verdict},
                              ctx.current_case)
    return cnt


def _split_profiles(c, p, read, blocks, ctx):
    """NonOverlappingFeaturesProfileConstructor over sorted disjoint known blocks and sorted disjoint read blocks.
    Set-theoretic result: a feature is +1 iff some feature of the other list overlaps it and satisfies the comparator;
    untouched by the other list it is -1 in a gap between two of its features and 0 outside its span; touched but
    not matched (overlap below the comparator's threshold) is UNSPECIFIED."""
    cnt = 0
    for name, cmpf, match in (
            ("overlaps", c.overlaps, lambda r, g: True),
            ("at_least_2", partial(c.overlaps_at_least_when_overlap, delta=2), None),
            ("at_least_3", partial(c.overlaps_at_least_when_overlap, delta=3), None)):
        d = 0 if match else int(name[-1])

        def ok(r, g):
            ov = min(r[1], g[1]) - max(r[0], g[0]) + 1
            if ov <= 0:
                return False
            if match:
                return True
            return (g[0] <= r[0] and r[1] <= g[1]) or (r[0] <= g[0] and g[1] <= r[1]) or ov >= d

        def expected(xs, ys):
            out = []
            for x in xs:
                if any(ok(x, y) if xs is read else ok(y, x) for y in ys):
                    out.append(1)
                elif any(min(x[1], y[1]) >= max(x[0], y[0]) for y in ys):
                    out.append(None)     # touched but not matched (overlap below the threshold): unspecified
                elif any(y[1] < x[0] for y in ys) and any(y[0] > x[1] for y in ys):
                    out.append(-1)
                else:
                    out.append(0)
            return out
        prof = p.NonOverlappingFeaturesProfileConstructor(list(blocks), comparator=cmpf).construct_profile(list(read))
        cnt += 1
        eg, er = expected(blocks, read), expected(read, blocks)
        ctx.grey += sum(1 for v in eg + er if v is None)
        if any(e is not None and e != v for e, v in zip(eg, prof.gene_profile)) or len(eg) != len(prof.gene_profile):
            ctx.violation("C19:split_read_profile:known-blocks:" + name,
                          {"blocks": blocks, "read": read, "got": list(prof.gene_profile), "expected": eg},
                          ctx.current_case)
        if any(e is not None and e != v for e, v in zip(er, prof.read_profile)) or len(er) != len(prof.read_profile):
            ctx.violation("C19:split_read_profile:read-blocks:" + name,
                          {"blocks": blocks, "read": read, "got": list(prof.read_profile), "expected": er},
                          ctx.current_case)
        # the definition has no orientation: the mirror image of the input gets the mirror image of the profiles
        top = max(read[-1][1], blocks[-1][1]) + 1
        mread = [(top - b, top - a) for a, b in reversed(read)]
        mblocks = [(top - b, top - a) for a, b in reversed(blocks)]
        mprof = p.NonOverlappingFeaturesProfileConstructor(mblocks, comparator=cmpf).construct_profile(mread)
        cnt += 1
        for side, a_, b_, exp_ in (("known-blocks", list(prof.gene_profile), list(reversed(mprof.gene_profile)), eg),
                                   ("read-blocks", list(prof.read_profile), list(reversed(mprof.read_profile)), er)):
            if a_ != b_:
                cells = [i for i in range(len(a_)) if a_[i] != b_[i]]
                only_touched = all(exp_[i] is None for i in cells)
                ctx.violation("C19:split_read_profile:mirror-image-differs:%s:%s%s" % (
                    side, name, ":feature-touched-below-the-matching-threshold" if only_touched else ""),
                    {"blocks": blocks, "read": read, "profile": a_, "mirror_image_profile_reversed": b_,
                     "cells": cells}, ctx.current_case)
    return cnt


# ------------------------------------------------------------------------------------------- generated mid-size

@st.composite
def mid_profiles(draw):
    """A read and a known chain derived from it: ends moved by up to delta + 2, blocks dropped, tiny blocks (1 base
    up to a little more than delta) inserted - the corner region of the profile constructors."""
    delta = draw(st.sampled_from([0, 1, 2, 3, 6]))
    tiny = st.sampled_from([1, 2, 3, delta, delta + 1, delta + 2, 8, 15, 30])
    k = draw(st.integers(1, 5))
    pos = draw(st.integers(1, 20))
    read = []
    for _ in range(k):
        ln = max(1, draw(tiny))
        read.append((pos, pos + ln - 1))
        pos += ln + delta + draw(st.sampled_from([1, 2, 3, delta + 1, 10, 25]))
    known = []
    for a, b in read:
        what = draw(st.sampled_from(["keep", "keep", "keep", "move", "move", "drop", "split"]))
        if what == "drop":
            continue
        if what == "move":
            a += draw(st.integers(-delta - 2, delta + 2))
            b += draw(st.integers(-delta - 2, delta + 2))
        if what == "split" and b - a >= 4:
            m = draw(st.integers(a + 1, b - 2))
            known.append((a, m))
            a = m + 2 + draw(st.integers(0, 2))
        known.append((a, b))
    if draw(st.booleans()):
        a = (known[-1][1] if known else pos) + draw(st.integers(2, 30))
        known.append((a, a + draw(st.integers(0, 20))))
    out = []
    for a, b in sorted(known):
        a = max(a, 1, (out[-1][1] + 2) if out else 1)
        if b >= a:
            out.append((a, b))
    if not out:
        out = [(read[0][0], read[0][1])]
    # a second isoform of the gene: the first one with one exon boundary moved by 1..delta (NAGNAG-like alternatives)
    second = None
    if len(out) >= 2 and delta >= 1 and draw(st.booleans()):
        i = draw(st.integers(0, len(out) - 2))
        d = draw(st.integers(1, delta)) * draw(st.sampled_from([-1, 1]))
        sec = [list(x) for x in out]
        if draw(st.booleans()):
            sec[i][1] += d
        else:
            sec[i + 1][0] += d
        if all(a <= b for a, b in sec) and all(sec[j + 1][0] > sec[j][1] + 1 for j in range(len(sec) - 1)):
            second = [tuple(x) for x in sec]
    return {"delta": delta, "read": read, "known": out, "second": second}


def eval_mid(case, ctx):
    c, g, p = C()
    read = [tuple(x) for x in case["read"]]
    known = [tuple(x) for x in case["known"]]
    ctx.current_case = case
    n = _read_profiles(c, p, read, known, case["delta"], ctx)
    if case.get("second"):
        n += _read_profiles(c, p, read, known, case["delta"], ctx, second_iso=[tuple(x) for x in case["second"]])
    n += _split_profiles(c, p, read, known, ctx)
    ctx.cls("mid:delta=%d" % case["delta"])
    if n and any(b - a + 1 <= case["delta"] + 2 for a, b in read + known):
        ctx.mark_nontrivial(case)
        ctx.sample(case, limit=3)


# ------------------------------------------------------------------------------------------------ random large

@st.composite
def big_lists(draw):
    def one():
        k = draw(st.integers(1, 300))
        gaps = draw(st.lists(st.integers(0, 50000), min_size=k, max_size=k))
        lens = draw(st.lists(st.integers(1, 5000), min_size=k, max_size=k))
        out = []
        p = draw(st.integers(1, 100000))
        for gp, ln in zip(gaps, lens):
            p += gp
            out.append((p, p + ln - 1))
            p += ln
        return out
    return {"l1": one(), "l2": one(), "pos": draw(st.integers(0, 10 ** 7))}


def _merge(lst):
    out = []
    for a, b in lst:
        if out and a <= out[-1][1] + 1:
            out[-1][1] = max(out[-1][1], b)
        else:
            out.append([a, b])
    return out


def _ilen(l1, l2):
    i = j = 0
    t = 0
    while i < len(l1) and j < len(l2):
        a = max(l1[i][0], l2[j][0])
        b = min(l1[i][1], l2[j][1])
        if a <= b:
            t += b - a + 1
        if l1[i][1] < l2[j][1]:
            i += 1
        else:
            j += 1
    return t


def eval_big(case, ctx):
    c, _, _ = C()
    l1 = [tuple(x) for x in case["l1"]]
    l2 = [tuple(x) for x in case["l2"]]
    pos = case["pos"]
    # disjoint by construction (gap 0 => touching)
    t1 = sum(b - a + 1 for a, b in l1)
    t2 = sum(b - a + 1 for a, b in l2)
    inter = _ilen(l1, l2)
    union = t1 + t2 - inter

    def bad(fn, got, exp):
        ctx.violation("C19:big:%s" % fn, {"fn": fn, "got": got, "expected": exp, "n1": len(l1), "n2": len(l2)}, case)
    if any(l1[i + 1][0] == l1[i][1] + 1 for i in range(len(l1) - 1)):
        ctx.mark_nontrivial(case)
    if c.intervals_total_length(l1) != t1:
        bad("intervals_total_length", c.intervals_total_length(l1), t1)
    g = c.jaccard_similarity(l1, l2)
    if abs(g - inter / union) > 1e-9:
        bad("jaccard_similarity", g, inter / union)
    g = c.read_coverage_fraction(l1, l2)
    if abs(g - inter / t1) > 1e-9:
        bad("read_coverage_fraction", g, inter / t1)
    m = c.merge_ranges(l1, l2)
    em = _merge(sorted(l1 + l2))
    if _merge([list(x) for x in m]) != em or any(m[i][1] >= m[i + 1][0] for i in range(len(m) - 1)):
        bad("merge_ranges", len(m), len(em))
    e = sum(max(0, min(b, pos - 1) - a + 1) for a, b in l1)
    if c.sum_intervals_to_point(l1, pos) != e:
        bad("sum_intervals_to_point", c.sum_intervals_to_point(l1, pos), e)
    e = sum(max(0, b - max(a, pos + 1) + 1) for a, b in l1)
    if c.sum_intervals_from_point(l1, pos) != e:
        bad("sum_intervals_from_point", c.sum_intervals_from_point(l1, pos), e)
    for p in (pos, l1[0][0], l1[-1][1], l1[len(l1) // 2][0], l1[len(l1) // 2][1] + 1):
        if p < l1[0][0] or p > l1[-1][1]:
            e1 = e2 = -1
        else:
            import bisect
            e1 = bisect.bisect_right([x[0] for x in l1], p) - 1
            e2 = bisect.bisect_left([x[1] for x in l1], p)
        if c.interval_bin_search(l1, p) != e1:
            bad("interval_bin_search", c.interval_bin_search(l1, p), e1)
        if c.interval_bin_search_rev(l1, p) != e2:
            bad("interval_bin_search_rev", c.interval_bin_search_rev(l1, p), e2)
    j = c.junctions_from_blocks(l1)
    ml = [tuple(x) for x in _merge(l1)]
    if j and [tuple(x) for x in c.get_exons((l1[0][0], l1[-1][1]), list(j))] != ml:
        bad("get_exons", "mismatch", "merged blocks")


# ------------------------------------------------------------------------------------------------ stages

def _shard_cases(**kw):
    def en(shard, nshards):
        d = dict(kw)
        d["shard"] = shard
        d["nshards"] = nshards
        yield d
    return en


# ----------------------------------------------------------------------- isoform profiles of a gene built from a database

@st.composite
def gene_models(draw):
    """A gene of 2-4 isoforms derived from one exon chain: splice sites moved by a few bases (less than, equal to and
    more than the matching tolerance), skipped exons, other ends.  GeneInfo is built from an in-memory annotation
    database with the read-matching tolerance the pipeline passes (delta 0..12)."""
    n = draw(st.integers(2, 5))
    pos = draw(st.integers(50, 500))
    base = []
    for _ in range(n):
        ln = draw(st.integers(30, 200))
        base.append((pos, pos + ln - 1))
        pos += ln + draw(st.integers(40, 300))
    isos = [base]
    for _ in range(draw(st.integers(1, 3))):
        ex = [list(e) for e in base]
        if len(ex) >= 3 and draw(st.booleans()):
            del ex[draw(st.integers(1, len(ex) - 2))]
        for _ in range(draw(st.integers(0, 3))):
            i = draw(st.integers(0, len(ex) - 1))
            side = draw(st.integers(0, 1))
            d = draw(st.sampled_from([-13, -7, -6, -5, -4, -3, -1, 1, 3, 4, 5, 6, 7, 13]))
            ex[i][side] += d
        if all(e[0] <= e[1] for e in ex) and all(ex[i][1] + 2 <= ex[i + 1][0] for i in range(len(ex) - 1)):
            isos.append([tuple(e) for e in ex])
    return {"isoforms": isos, "strand": draw(st.sampled_from(["+", "-"])), "delta": draw(st.sampled_from([0, 4, 6, 12]))}


def eval_gene_info(case, ctx):
    import gffutils
    c, g, p = C()
    isos, strand, delta = case["isoforms"], case["strand"], case["delta"]
    lines = []
    a, b = min(t[0][0] for t in isos), max(t[-1][1] for t in isos)
    lines.append('chr1\tv\tgene\t%d\t%d\t.\t%s\t.\tgene_id "G";' % (a, b, strand))
    for i, t in enumerate(isos):
        lines.append('chr1\tv\ttranscript\t%d\t%d\t.\t%s\t.\tgene_id "G"; transcript_id "T%d";' % (
            t[0][0], t[-1][1], strand, i))
        for e in t:
            lines.append('chr1\tv\texon\t%d\t%d\t.\t%s\t.\tgene_id "G"; transcript_id "T%d";' % (e[0], e[1], strand, i))
    db = gffutils.create_db("\n".join(lines) + "\n", ":memory:", from_string=True, force=True, keep_order=True,
                            merge_strategy='error', sort_attribute_values=True, disable_infer_transcripts=True,
                            disable_infer_genes=True)
    gi = g.GeneInfo(list(db.features_of_type('gene')), db, delta=delta)
    all_introns = sorted(set((t[i][1] + 1, t[i + 1][0] - 1) for t in isos for i in range(len(t) - 1)))
    all_exons = sorted(set(e for t in isos for e in t))
    near = False
    for kind, prof, feats_exp, cmp_kind in (("intron", gi.intron_profiles, all_introns, "equal"),
                                            ("exon", gi.exon_profiles, all_exons, "equal"),
                                            ("split_exon", gi.split_exon_profiles, None, "contains")):
        feats = [tuple(x) for x in prof.features]
        if feats_exp is not None and feats != feats_exp:
            ctx.violation("C19:gene_info:features:" + kind, {"got": feats, "expected": feats_exp}, case)
            continue
        if delta and any(f1 != f2 and abs(f1[0] - f2[0]) <= delta and abs(f1[1] - f2[1]) <= delta
                         for f1 in feats for f2 in feats):
            near = True
        for i, t in enumerate(isos):
            tid = "T%d" % i
            own = [(t[j][1] + 1, t[j + 1][0] - 1) for j in range(len(t) - 1)] if kind == "intron" else list(t)
            exp = _expected_isoform_profile(feats, own, (t[0][0], t[-1][1]), cmp_kind)
            got = list(prof.profiles.get(tid, []))
            if got != exp:
                ctx.violation("C19:gene_info:isoform_profile:" + kind,
                              {"features": feats, "isoform": own, "delta": delta, "got": got, "expected": exp}, case)
    ctx.cls("gene_info delta=%d" % delta, "features within delta of each other" if near else "no near features")
    if near:
        ctx.mark_nontrivial(case_hash_(case))
        ctx.sample({"family": "gene_info", "delta": delta, "isoforms": isos[:3]}, limit=2)


def case_hash_(case):
    from vlib.shard import case_hash
    return case_hash(case)


def stages(tier):
    q = tier == "quick"
    n = N_for(tier)
    return [
        Stage("ranges", "enum", eval_ranges, enumerate=_shard_cases(n=10 if q else 14), exhaustive=True),
        Stage("lists", "enum", eval_lists, enumerate=_shard_cases(n=n, kmax=3 if q else 4), exhaustive=True),
        Stage("binsearch", "enum", eval_binsearch, enumerate=_shard_cases(kmax=7 if q else 9), exhaustive=True),
        Stage("split", "enum", eval_split, enumerate=_shard_cases(n=5 if q else 6, kmax=3 if q else 4),
              exhaustive=True),
        Stage("profiles", "enum", eval_profiles, enumerate=_shard_cases(n=6 if q else 7, kmax=3), exhaustive=True),
        Stage("profiles_mid", "hyp", eval_mid, n=20000 if q else 600000, strategy=mid_profiles),
        Stage("gene_info", "hyp", eval_gene_info, n=3000 if q else 100000, strategy=gene_models),
        Stage("big", "hyp", eval_big, n=3000 if q else 100000, strategy=big_lists),
        # the same generator and oracle driven by libFuzzer (atheris) with coverage feedback from /repo/src
        Stage("fuzz_big", "hypfuzz", eval_big, n=6000 if q else 400000, strategy=big_lists, shards=4 if q else 16),
    ]
