"""C14 - corrected alignments are well-formed; junctions move only onto annotated ones."""
from hypothesis import strategies as st

from vlib import parse, pipeline, scenario as S, reads as R
from vlib.refmodel import bedcheck
from vlib.shard import Stage, case_hash

ID = "C14"
LEVEL = "exploration"
TECHNIQUE = "property-based testing (Hypothesis): reads with generated alignment artefacts through the pipeline under " \
            "every splice-correction strategy; validity predicate + provenance oracle for every corrected splice site"
RULE = ("Hypothesis-generated annotations with micro-exons/micro-introns and reads carrying junction noise within and "
        "beyond delta, skipped micro-exons, fake terminal exons, intron shifts, micro-intron retentions, mismatches "
        "next to junctions x 6 splice-correction strategies x data types; annotation-free stage with generated "
        "short-read BAMs (--illumina_bam). Non-trivial = at least one read whose corrected blocks differ from its "
        "input blocks; distinct by scenario hash. 15 % of the reads carry their tail as an aligned terminal exon; "
        "the short-read stage is repeated with the short reads split into two files (second half first).")
ASSUMPTIONS = ["a read's 'original' alignment is its exons column (CIGAR blocks after polyA-exon trimming); with "
               "strategy none it is additionally compared with the CIGAR-derived blocks",
               "tolerance for moving onto an annotated site that is not of a reported isoform: delta"]

STRATEGIES = ["none", "default_pacbio", "default_ont", "conservative_ont", "all", "assembly"]
END_MOVERS = {"default_ont", "all"}          # strategies with fake_terminal_exons and/or terminal_exons
FAKE_TERMINAL_ONLY = {"default_ont"}           # fake_terminal_exons without terminal_exons (isoquant.py table, docs)
NOISE = ["shift", "skipmicro", "faketerm", "microir", "mmjunction", "termmis", "termmis", "tinyterm", "tinyterm",
         "fakemicro", "tinyinner", "tinyinner"]


@st.composite
def scenarios(draw):
    src = S.DrawSrc(draw)
    sc = S.gen_annotation(src, n_chroms=(1, 2), genes_per_chrom=(1, 3), iso_per_gene=(1, 3), sep=0, max_exons=7,
                          micro_intron_p=0.15, exon_len=(25, 400))
    dt = src.choice(S.DATA_TYPES)
    strat = src.choice(STRATEGIES)
    ms = src.choice([None, "exact", "precise", "default", "loose"])
    delta = S.DELTAS[ms or S.DATA_DEFAULT_STRATEGY[dt]]
    # an explicit --delta replaces the tolerance of the preset (0 is a value like any other)
    xdelta = src.choice([None, None, None, 0, 0, 2, 9])
    if xdelta is not None:
        delta = xdelta
    k = 0
    for g, t in S.transcripts_of(sc):
        for _ in range(src.int(2, 8)):
            k += 1
            if src.bool(0.5):
                r, _t = S.read_from_chain(src, "r%d" % k, g["chr"], g["strand"], t["exons"], delta=delta,
                                          jitter_p=0.7)
            else:
                r = S.noisy_read(src, "r%d" % k, g["chr"], g["strand"], t["exons"], src.choice(NOISE))
                if r is None:
                    r, _t = S.read_from_chain(src, "r%d" % k, g["chr"], g["strand"], t["exons"], delta=delta)
            if src.bool(0.15):
                # the tail of the molecule aligned as an exon of its own (a T-rich block in front of a minus-strand read,
                # an A-rich block behind a plus-strand read) instead of being soft-clipped
                ln, gap = src.int(18, 40), src.int(120, 600)
                cg = [list(x) for x in r["cg"]]
                if g["strand"] == "-":
                    if cg and cg[0][0] == 4:
                        cg = cg[1:]
                        r.pop("sl", None)
                    if r["p"] - gap - ln > 5:
                        r["cg"] = [[0, ln], [3, gap]] + cg
                        r["p"] -= gap + ln
                        r["b0seq"] = "T"
                else:
                    if cg and cg[-1][0] == 4:
                        cg = cg[:-1]
                        r.pop("sr", None)
                    r["cg"] = cg + [[3, gap], [0, ln]]
                    r["bNseq"] = "A"
                r.pop("mm", None)
            if r["p"] + 10 < S.chrom_len(sc, g["chr"]) and R.cigar_blocks(r["p"], r["cg"])[-1][1] < S.chrom_len(sc, g["chr"]):
                sc["reads"].append(r)
    sc["opts"] = ["--data_type", dt, "--no_gzip", "--threads", "1", "--splice_correction_strategy", strat,
                  "--no_model_construction"]
    if ms:
        sc["opts"] += ["--matching_strategy", ms]
    if xdelta is not None:
        sc["opts"] += ["--delta", str(xdelta)]
    sc["strategy"] = strat
    sc["delta"] = delta
    return sc


def _sites(blocks):
    left = set(blocks[i][1] + 1 for i in range(len(blocks) - 1))    # intron starts
    right = set(blocks[i + 1][0] - 1 for i in range(len(blocks) - 1))  # intron ends
    return left, right


def evaluate(case, ctx):
    sc = case
    res = pipeline.run_case(sc, ctx)
    try:
        bedp = res.path("corrected_reads.bed")
        tsvp = res.path("read_assignments.tsv")
        if res.code != 0 or not bedp or not tsvp:
            ctx.note("crash:" + res.crash_signature())
            return
        lens = {c[0]: c[1] for c in sc["chroms"]}
        rows = parse.read_assignments(tsvp)
        by_read = {}
        for r in rows:
            by_read.setdefault((r["read_id"], r["chr"]), []).append(r)
        iso_introns = {}
        ann_left, ann_right = {}, {}
        for g in sc["genes"]:
            for t in g["transcripts"]:
                l, r_ = _sites(t["exons"])
                iso_introns[t["id"]] = (l, r_)
                ann_left.setdefault(g["chr"], set()).update(l)
                ann_right.setdefault(g["chr"], set()).update(r_)
        inputs = {}
        for r in sc["reads"]:
            inputs.setdefault((r["n"], r["c"]), []).append(R.cigar_blocks(r["p"], r["cg"]))
        strat = sc["strategy"]
        delta = sc["delta"]
        changed = 0
        for b in parse.bed12(bedp):
            probs = bedcheck.check_bed12(b, lens)
            if probs:
                ctx.violation("C14:invalid-bed12:" + probs[0].replace(" ", "-"), {"record": b["raw"], "problems": probs},
                              case)
                continue
            trs = by_read.get((b["name"], b["chr"]))
            if not trs:
                ctx.violation("C14:bed-record-without-assignment-row", {"record": b["raw"]}, case)
                continue
            # pick the TSV record of this alignment (a read id has one alignment per chromosome in this generator)
            orig = trs[0]["exons"]
            blocks = b["blocks"]
            if blocks != orig:
                changed += 1
            if strat == "none":
                if blocks != orig:
                    ctx.violation("C14:changed-under-strategy-none", {"read": b["name"], "orig": orig, "bed": blocks},
                                  case)
                cig = inputs.get((b["name"], b["chr"]), [None])[0]
                cig = [tuple(x) for x in cig] if cig else None
                if cig and blocks != cig:
                    # polyA-exon trimming (checked by C16) may only drop terminal blocks
                    k = len(blocks)
                    if not any(cig[i:i + k] == blocks for i in range(len(cig) - k + 1)):
                        ctx.violation("C14:none-strategy-differs-from-cigar", {"read": b["name"], "cigar": cig,
                                                                               "bed": blocks}, case)
                continue
            if (blocks[0][0], blocks[-1][1]) != (orig[0][0], orig[-1][1]) and strat not in END_MOVERS:
                ctx.violation("C14:ends-moved-without-terminal-correction",
                              {"read": b["name"], "strategy": strat, "orig": (orig[0][0], orig[-1][1]),
                               "bed": (blocks[0][0], blocks[-1][1])}, case)
            elif strat in FAKE_TERMINAL_ONLY and (blocks[0][0] not in [x[0] for x in orig] or
                                                  blocks[-1][1] not in [x[1] for x in orig]):
                # this strategy enables the removal of fake terminal exons only: an end may move to the boundary of
                # one of the read's own blocks, never to a position taken from the isoform
                ctx.violation("C14:end-moved-to-foreign-position-without-terminal-exon-correction",
                              {"read": b["name"], "strategy": strat, "orig": orig, "bed": blocks}, case)
            ol, orr = _sites(orig)
            cl, cr = _sites(blocks)
            isos = [t["isoform"] for t in trs if t["isoform"] in iso_introns]
            for side, cs, own, ann in (("left", cl, ol, ann_left.get(b["chr"], set())),
                                       ("right", cr, orr, ann_right.get(b["chr"], set()))):
                for s in cs:
                    if s in own:
                        continue
                    if any(s in iso_introns[i][0 if side == "left" else 1] for i in isos):
                        continue
                    if s in ann and any(abs(s - o) <= delta for o in own):
                        continue
                    ctx.violation("C14:splice-site-of-unknown-provenance:" + strat,
                                  {"read": b["name"], "side": side, "site": s, "orig": orig, "bed": blocks,
                                   "isoforms": isos, "delta": delta}, case)
            # an intron of the read that comes back with its ends moved by a few bases: unless the strategy corrects
            # intron shifts as well, this is the correction of a noisy junction and stays within delta
            own_introns = [(orig[i][1] + 1, orig[i + 1][0] - 1) for i in range(len(orig) - 1)]
            for i in range(len(blocks) - 1):
                ci = (blocks[i][1] + 1, blocks[i + 1][0] - 1)
                if ci in own_introns:
                    continue
                near = [o for o in own_introns if abs(o[0] - ci[0]) <= 12 and abs(o[1] - ci[1]) <= 12]
                if len(near) != 1:
                    continue
                dl, dr = ci[0] - near[0][0], ci[1] - near[0][1]
                if strat == "all":
                    continue        # 'all' also corrects intron shifts (tolerance max_intron_shift, not delta)
                if max(abs(dl), abs(dr)) > delta:
                    ctx.violation("C14:junction-moved-further-than-delta:" + strat,
                                  {"read": b["name"], "own_intron": near[0], "corrected_intron": ci, "delta": delta,
                                   "opts": sc["opts"]}, case)
        ctx.cls("strategy=" + strat, "changed>0" if changed else "changed=0")
        if changed:
            ctx.mark_nontrivial(case_hash(case))
            ctx.sample(pipeline.summarize(sc, {"records_changed": changed}))
    finally:
        res.cleanup()


# ---------------------------------------------------------------------------------- annotation-free + short reads

@st.composite
def illumina_scenarios(draw):
    src = S.DrawSrc(draw)
    sc = S.gen_annotation(src, n_chroms=(1, 2), genes_per_chrom=(1, 2), iso_per_gene=(1, 2), sep=0, max_exons=6,
                          exon_len=(20, 300))
    short = []
    k = 0
    for g, t in S.transcripts_of(sc):
        ex = t["exons"]
        for _ in range(src.int(2, 6)):
            k += 1
            # long read: junctions shifted by exactly +-4 on one side sometimes, or an internal micro-exon skipped
            blocks = [list(e) for e in ex]
            mode = src.choice(["exact", "shift4", "skip", "shift", "tiny_end", "tiny_start", "tiny_inner"])
            if mode == "shift4" and len(blocks) > 1:
                i = src.int(0, len(blocks) - 2)
                if src.bool():
                    blocks[i + 1][0] -= 4
                else:
                    blocks[i][1] += 4
            elif mode == "skip" and len(blocks) > 2:
                cand = [i for i in range(1, len(blocks) - 1) if blocks[i][1] - blocks[i][0] + 1 <= 50]
                if cand:
                    i = src.choice(cand)
                    d1, d2 = src.int(-20, 20), src.int(-20, 20)
                    blocks[i - 1][1] += d1
                    blocks[i + 1][0] += d2
                    blocks = blocks[:i] + blocks[i + 1:]
            elif mode == "shift" and len(blocks) > 1:
                i = src.int(0, len(blocks) - 2)
                blocks[i][1] += src.int(-10, 10)
                blocks[i + 1][0] += src.int(-10, 10)
            elif mode in ("tiny_end", "tiny_start") and len(blocks) > 2:
                # the read ends (starts) with a few bases that the aligner placed right before (after) the junction
                # the short reads support
                d = src.int(2, 6)
                if mode == "tiny_end":
                    i = src.int(1, len(blocks) - 2)
                    iend = blocks[i + 1][0] - 1
                    if iend - blocks[i][1] >= 60:
                        blocks = blocks[:i + 1] + [[iend - d + 1, iend]]
                else:
                    i = src.int(1, len(blocks) - 2)
                    istart = blocks[i - 1][1] + 1
                    if blocks[i][0] - istart >= 60:
                        blocks = [[istart, istart + d - 1]] + blocks[i:]
            elif mode == "tiny_inner" and len(blocks) > 2:
                i = src.int(0, len(blocks) - 2)
                iend = blocks[i + 1][0] - 1
                d, extra = src.int(4, 6), src.int(20, 30)
                if iend - blocks[i][1] >= 60 and blocks[i + 1][1] - blocks[i + 1][0] >= extra + 60:
                    blocks = blocks[:i + 1] + [[iend - d, iend - 1], [blocks[i + 1][0] + extra, blocks[i + 1][1]]] + \
                        blocks[i + 2:]
            if mode not in ("tiny_end", "tiny_start", "tiny_inner") and (
                    any(b[1] - b[0] < 5 for b in blocks) or any(blocks[i + 1][0] - blocks[i][1] < 5 for i in
                                                                range(len(blocks) - 1))):
                blocks = [list(e) for e in ex]
            sc["reads"].append(R.make_read("r%d" % k, g["chr"], blocks, flag=16 if g["strand"] == "-" else 0,
                                           polya=25 if g["strand"] == "+" else 0,
                                           polyt=25 if g["strand"] == "-" else 0))
        # short reads: one per annotated junction (+ overlapping variants)
        for i in range(len(ex) - 1):
            for _ in range(src.int(1, 3)):
                a = max(ex[i][0], ex[i][1] - 30)
                b = min(ex[i + 1][1], ex[i + 1][0] + 30)
                short.append(R.make_read("s%d" % len(short), g["chr"], [[a, ex[i][1]], [ex[i + 1][0], b]]))
            if src.bool(0.3) and ex[i][1] - ex[i][0] > 40 and ex[i + 1][1] - ex[i + 1][0] > 40:
                # a second short-read junction 4 bases beside the first one, on both sides: a long-read junction that is 4
                # bases off on one side is equally close to both
                d = src.choice([-4, 4])
                a = max(ex[i][0], ex[i][1] - 30)
                b = min(ex[i + 1][1], ex[i + 1][0] + 30)
                short.append(R.make_read("s%d" % len(short), g["chr"], [[a, ex[i][1] + d], [ex[i + 1][0] + d, b]]))
    sc["short_reads"] = short
    sc["hidden_genes"] = sc["genes"]
    sc["genes"] = []
    sc["opts"] = ["--data_type", src.choice(S.DATA_TYPES), "--no_gzip", "--threads", "1"]
    sc["strategy"] = src.choice([None, None, "none", "conservative_ont", "all"])
    if sc["strategy"]:
        sc["opts"] += ["--splice_correction_strategy", sc["strategy"]]
    return sc


def evaluate_illumina(case, ctx):
    import os
    from vlib import build
    sc = case
    d = ctx.scratch()
    paths = build.materialise(sc, os.path.join(d, "in"))
    ssc = {"chroms": sc["chroms"], "reads": sc["short_reads"], "nfiles": 1}
    sp = build.write_bams(ssc, paths["genome"], os.path.join(d, "in"), prefix="short")
    res = pipeline.run_case(sc, ctx, extra=["--illumina_bam"] + sp, d=d, paths=paths)
    try:
        bedp = res.path("corrected_reads.bed")
        if res.code != 0 or not bedp:
            ctx.note("crash:" + res.crash_signature())
            return
        if len(sc["short_reads"]) >= 2:
            # the same short reads given as two files (each with the contigs it has records on), second half first
            half = len(sc["short_reads"]) // 2
            ssc2 = {"chroms": sc["chroms"], "nfiles": 2, "prune_headers": True,
                    "reads": [dict(r, file=(0 if i >= half else 1)) for i, r in enumerate(sc["short_reads"])]}
            sp2 = build.write_bams(ssc2, paths["genome"], os.path.join(d, "in"), prefix="shortsplit")
            res2 = pipeline.run_case(sc, ctx, extra=["--illumina_bam"] + sp2, d=d, paths=paths, out_name="out_split",
                                     home=os.path.join(d, "home_split"))
            b2 = res2.path("corrected_reads.bed")
            if res2.code != 0 or not b2:
                ctx.violation("C14:illumina:split-short-read-files-fail:" + res2.crash_signature().split("@")[0],
                              {"log": res2.log_tail(8)}, case)
            elif sorted(parse.data_lines(bedp)) != sorted(parse.data_lines(b2)):
                a_, b_ = sorted(parse.data_lines(bedp)), sorted(parse.data_lines(b2))
                diff = [x for x in a_ if x not in b_][:1] + [x for x in b_ if x not in a_][:1]
                ctx.violation("C14:illumina:result-depends-on-how-the-short-reads-are-split-into-files",
                              {"records": [x[:200] for x in diff]}, case)
        lens = {c[0]: c[1] for c in sc["chroms"]}
        inputs = {(r["n"], r["c"]): [tuple(x) for x in R.cigar_blocks(r["p"], r["cg"])] for r in sc["reads"]}
        sl, sr = {}, {}
        for r in sc["short_reads"]:
            l, r_ = _sites(R.cigar_blocks(r["p"], r["cg"]))
            sl.setdefault(r["c"], set()).update(l)
            sr.setdefault(r["c"], set()).update(r_)
        changed = 0
        for b in parse.bed12(bedp):
            probs = bedcheck.check_bed12(b, lens)
            if probs:
                ctx.violation("C14:illumina:invalid-bed12:" + probs[0].replace(" ", "-"),
                              {"record": b["raw"], "problems": probs, "input": inputs.get((b["name"], b["chr"]))},
                              case)
                continue
            orig = inputs.get((b["name"], b["chr"]))
            if orig is None:
                continue
            blocks = b["blocks"]
            if blocks != orig:
                changed += 1
                if sc.get("strategy") == "none":
                    ctx.violation("C14:illumina:changed-under-strategy-none", {"read": b["name"], "orig": orig,
                                                                               "bed": blocks}, case)
            if (blocks[0][0], blocks[-1][1]) != (orig[0][0], orig[-1][1]):
                ctx.violation("C14:illumina:ends-moved", {"read": b["name"], "orig": orig, "bed": blocks}, case)
            ol, orr = _sites(orig)
            cl, cr = _sites(blocks)
            for s in cl:
                if s not in ol and s not in sl.get(b["chr"], ()):
                    ctx.violation("C14:illumina:site-of-unknown-provenance", {"read": b["name"], "site": s,
                                                                               "orig": orig, "bed": blocks}, case)
            for s in cr:
                if s not in orr and s not in sr.get(b["chr"], ()):
                    ctx.violation("C14:illumina:site-of-unknown-provenance", {"read": b["name"], "site": s,
                                                                               "orig": orig, "bed": blocks}, case)
        ctx.cls("illumina", "illumina:changed>0" if changed else "illumina:changed=0")
        if changed:
            ctx.mark_nontrivial(case_hash(case))
            ctx.sample(pipeline.summarize(sc, {"records_changed": changed, "short_reads": len(sc["short_reads"])}))
    finally:
        res.cleanup()


def stages(tier):
    q = tier == "quick"
    return [Stage("correction", "hyp", evaluate, n=256 if q else 4000, strategy=scenarios),
            Stage("illumina", "hyp", evaluate_illumina, n=96 if q else 1500, strategy=illumina_scenarios)]
