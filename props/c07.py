"""C07 - resuming an interrupted run yields the outputs of an uninterrupted run."""
import os
import shutil

import hypothesis
from hypothesis import strategies as st, settings, HealthCheck, given

from vlib import build, compare, crashwrap, pipeline, run, scenario as S, reads as R
from vlib.shard import Stage, case_hash

ID = "C07"
LEVEL = "fault_enumeration"
TECHNIQUE = "fault injection with exhaustive enumeration of crash points per generated scenario: the harness counts " \
            "every file-system mutation of the main process after .params is saved, kills the run before/after " \
            "mutation k, resumes it and compares all final outputs with an uninterrupted run"
RULE = ("Hypothesis-generated scenarios (1-3 chromosomes, annotated + novel isoforms) x option sets {no groups, "
        "--read_group tag, --read_group file:<table>} x {--keep_tmp, not} x {gzip, --no_gzip}, --threads 1; one clean "
        "run, one instrumented run listing the N mutation points (file creation, append-open, removal, directory "
        "creation, database creation), then for every k in 1..N, once crashing before and once after the mutation (quick: 2 scenarios, thorough: 6), "
        "a crashed run followed by `--resume`; and histories with two kills (the resumed run is killed at its own mutation k2, "
        "then resumed again). A case = (scenario, k, mode); distinct by construction; non-trivial = "
        "crash point after the first intermediate file was written (collection, construction, merging, clean-up "
        "phases). exhaustive=true: all points of every generated scenario were visited.")
ASSUMPTIONS = ["crash = os._exit at a Python-level file-system mutation of the main process (unflushed buffers are "
               "lost, as under kill -9); crashes inside sqlite/htslib are represented by one point before/after the call",
               "multi-process crash timing (threads > 1) is not enumerated"]


def phase_of(label, idx, labels):
    if label.startswith("remove:aux/") or label.startswith("remove:aux"):
        return "cleanup"
    if label.startswith("remove:") or (label.startswith("open:a:/") and "_CHR" not in label) or "tpm.tsv" in label or \
            "combined_" in label:
        return "merge"
    if "aux/" in label and ("save" in label) and "_processed" not in label and "_read_stat" not in label and \
            "_transcript_stat" not in label:
        return "collect"
    if label.startswith("makedirs") or "IsoQuant/" in label or "create_db" in label or ".fai" in label or \
            "read_group" in label or label.endswith("/tmp"):
        return "setup"
    return "construct"


class FirstSrc:
    """stands in for the draw source where a scenario is completed after generation: always the first choice"""

    def choice(self, xs):
        return list(xs)[0]

    def int(self, lo, hi):
        return lo

    def bool(self, p=0.5):
        return p >= 0.5


def add_multimappers(src, sc):
    """Multi-mapped reads whose alignments lie on different chromosomes and match no isoform (see scenarios())."""
    cand = [(g, t) for g in sc["genes"] for t in g["transcripts"] if len(t["exons"]) >= 3]
    if not cand:
        return False
    g, t = src.choice(cand)
    par = S.add_paralog(src, sc, g, new_chrom_p=1.0)
    ex = [list(e) for e in t["exons"]]
    off = par["offset"]
    for k in range(src.int(1, 3)):
        if len(ex) >= 4 and src.bool(0.7):
            i = src.int(1, len(ex) - 2)
            j = src.choice([x for x in range(1, len(ex) - 1) if x != i])
            one = ex[:i] + ex[i + 1:]
            two = ex[:j] + ex[j + 1:] if src.bool(0.5) else ex[:1] + ex[-1:]
        else:
            i = src.int(1, len(ex) - 2)
            one = ex[:i] + ex[i + 1:]                                    # an exon skipped
            two = ex[:i] + [[ex[i][0], ex[i + 1][1]]] + ex[i + 2:]         # an intron retained
        if src.bool(0.5):
            one, two = two, one
        fl = 256 | (16 if g["strand"] == "-" else 0)
        sc["reads"].append(R.make_read("mm%d" % k, g["chr"], one, flag=fl, mapq=src.choice([20, 20, 3])))
        sc["reads"].append(R.make_read("mm%d" % k, par["chr"], [[a + off, b + off] for a, b in two], flag=fl,
                                       mapq=src.choice([20, 20, 3])))
    return True


@st.composite
def scenarios(draw):
    src = S.DrawSrc(draw)
    sc = S.gen_discovery(src, n_chroms=(1, 3), genes_per_chrom=(1, 2), novel_per_gene=(0, 1), reads_known=(1, 3),
                         reads_novel=(3, 4), intergenic_p=0.2, max_exons=5, exact=True)
    sc.pop("truth", None)
    # state that only the intermediate files carry: most reads have a polyA tail (so the run decides to require tails
    # for novel models) while the reads of one unannotated isoform have none (its model appears iff that decision,
    # taken from the saved read statistics, changes)
    if sc.get("novel") and src.bool(0.7):
        nv = src.choice(sc["novel"])
        hit = [r for r in sc["reads"] if r["c"] == nv["chr"] and
               [list(b) for b in R.cigar_blocks(r["p"], r["cg"])] == [list(e) for e in nv["exons"]]]
        if hit and len(hit) * 4 <= len(sc["reads"]):
            for r in hit:
                r["cg"] = [x for x in r["cg"] if x[0] != 4]
                r.pop("sl", None)
                r.pop("sr", None)
    # multi-mapped reads whose alignments lie on different chromosomes (so that an interrupted collection has
    # finished one and not the other) and match no isoform: a copy of a spliced read without one inner block at the
    # same gene, another copy without another block at a paralogous gene, both secondary records (valid: the primary
    # one may have been filtered out before); which one is kept must not depend on where the run was interrupted
    sc["multimap"] = src.bool(0.45)
    if sc["multimap"]:
        add_multimappers(src, sc)
    lens = {c[0]: c[1] for c in sc["chroms"]}
    sc["reads"] = [r for r in sc["reads"] if R.cigar_blocks(r["p"], r["cg"])[-1][1] + 45 < lens[r["c"]]]
    for i in range(src.int(0, 3)):
        sc["reads"].append(S.unmapped_read("u%d" % i))
    grouping = src.choice(["none", "tag", "tag", "file"])
    names = src.choice([["gA", "gB"], ["gA", "gB"], [" T cell", "B cell ", "gC"]])   # blanks are part of a group name
    for r in sc["reads"]:
        if src.bool(0.8):
            r["tags"] = {"RG": src.choice(names)}
    sc["grouping"] = grouping
    sc["opts"] = ["--data_type", src.choice(["nanopore", "pacbio_ccs"]), "--threads", "1"]
    if src.bool(0.5):
        sc["opts"] += ["--no_gzip"]
    if src.bool(0.3):
        sc["opts"] += ["--keep_tmp"]
    if src.bool(0.3):
        sc["opts"] += ["--count_exons"]
    if src.bool(0.5 if sc["multimap"] else 0.2):
        sc["opts"] += ["--high_memory"]
    # state outside the run's own intermediate files: a plain-gzipped reference (unpacked into the output folder), and
    # an output folder that still holds a complete earlier run on other reads (the interrupted run uses --force)
    sc["gz_reference"] = src.bool(0.3)
    sc["stale_dir"] = src.bool(0.35)
    sc["stale_mask"] = [src.bool(0.5) for _ in sc["reads"]]
    sc["stale_other_reference"] = src.bool(0.5)
    sc["stale_force"] = src.bool(0.5)
    if src.bool(0.4):
        sc["opts"] += ["--check_canonical"]
    # how the inputs are named: a YAML description instead of --bam; paths relative to the working directory of the first
    # run (the resumed run is started from another directory); an output folder whose name means something to glob
    sc["input_mode"] = src.choice(["bam", "bam", "yaml"])
    sc["relative"] = src.bool(0.5)
    sc["out_suffix"] = src.choice(["", "", "[1]", "_x*"])
    # name of the experiment (= of its folder inside the output folder): a hidden folder is a folder like any other
    sc["prefix"] = src.choice(["OUT", "OUT", "OUT", ".v2", "s.1"])
    if sc["prefix"] != "OUT":
        sc["opts"] += ["--prefix", sc["prefix"]]
    return sc


def fresh_reference(paths):
    """every run starts without the index files that an earlier run left next to the reference"""
    for suf in (".fai", ".gzi"):
        if os.path.exists(paths["fasta"] + suf):
            os.remove(paths["fasta"] + suf)


def prepare(sc, d):
    paths = build.materialise(sc, os.path.join(d, "in"))
    if sc.get("gz_reference"):
        import gzip
        gz = paths["fasta"] + ".gz"
        with open(paths["fasta"], "rb") as f, gzip.open(gz, "wb") as g:
            g.write(f.read())
        os.remove(paths["fasta"])
        paths["fasta"] = gz
    extra = []
    if sc["grouping"] == "tag":
        extra = ["--read_group", "tag:RG"]
    elif sc["grouping"] == "file":
        tp = os.path.join(d, "in", "groups.tsv")
        with open(tp, "w") as f:
            for r in sc["reads"]:
                if r.get("tags"):
                    f.write("%s\t%s\n" % (r["n"], r["tags"]["RG"]))
        extra = ["--read_group", "file:" + tp]
    if sc.get("input_mode") == "yaml":
        import json
        yp = os.path.join(d, "in", "dataset.yaml")
        with open(yp, "w") as f:
            json.dump([{"data format": "bam"},
                       {"name": sc.get("prefix", "OUT"), "long read files": [os.path.basename(b) for b in paths["bams"]]}], f)
        paths["yaml"] = yp
    return paths, extra


def argv_for(sc, paths, out, extra):
    """command line of a (first) run and the directory it is started from"""
    argv = build.base_argv(sc, paths, out, extra)
    if paths.get("yaml"):
        i = argv.index("--bam")
        j = i + 1
        while j < len(argv) and not argv[j].startswith("--"):
            j += 1
        argv[i:j] = ["--yaml", paths["yaml"]]
        if "--prefix" in argv:                       # the YAML description names the experiment
            k_ = argv.index("--prefix")
            del argv[k_:k_ + 2]
    cwd = os.path.dirname(paths["fasta"])
    if sc.get("relative"):
        pre = cwd + os.sep
        argv = [a[len(pre):] if a.startswith(pre) else ("file:" + a[5 + len(pre):]) if a.startswith("file:" + pre) else a
                for a in argv]
    return argv, cwd


def first_run(sc, paths, out, extra, home, log, crash=None):
    """a run with the generated options, started from the folder of the inputs; crash = arguments of crashwrap.install"""
    argv, cwd = argv_for(sc, paths, out, extra)
    return run.run_fork(argv, home, log, env={"ABLAB_ISOQUANT_VERIF": "1"} if crash else None,
                        pre=at(cwd, (lambda: crashwrap.install(*crash)) if crash else None))


def at(cwd, then=None):
    def pre():
        import time
        time.sleep = lambda seconds: None          # the countdown before a previous run is overwritten
        os.chdir(cwd)
        if then:
            then()
    return pre


def make_stale(sc, d, paths, extra, ctx):
    """A complete earlier run (other reads, --keep_tmp) whose folder the interrupted run re-uses with --force."""
    if not sc.get("stale_dir"):
        return None
    sub = dict(sc)
    sub["reads"] = [r for r, keep in zip(sc["reads"], sc["stale_mask"]) if keep] or sc["reads"][:1]
    bams = build.write_bams(sub, paths["genome"], os.path.join(d, "in"), prefix="stale")
    p2 = dict(paths)
    p2["bams"] = bams
    stale = os.path.join(d, "stale")
    opts = [o for o in sc["opts"] if o != "--keep_tmp"] + ["--keep_tmp"]
    sub["opts"] = opts
    fresh_reference(paths)
    ctx.pipeline_runs += 1
    real = None
    if sc.get("gz_reference") and sc.get("stale_other_reference"):
        # the earlier run used the reference before it was corrected: same file name, every base complemented
        import gzip
        real = open(paths["fasta"], "rb").read()
        text = gzip.decompress(real).decode()
        comp = "\n".join(l if l.startswith(">") else l.translate(str.maketrans("ACGTacgt", "TGCAtgca"))
                         for l in text.split("\n"))
        with gzip.open(paths["fasta"], "wb") as g:
            g.write(comp.encode())
    try:
        if run.run_fork(build.base_argv(sub, p2, stale, extra), os.path.join(d, "home_stale"),
                        os.path.join(d, "stale.log")) != 0:
            return None
    finally:
        if real is not None:
            with open(paths["fasta"], "wb") as f:
                f.write(real)
            fresh_reference(paths)
    return stale


def start_dir(stale, out, force=True):
    if stale:
        shutil.copytree(stale, out)
        # without --force IsoQuant warns, counts down (the harness skips the waiting) and overwrites all the same
        return ["--force"] if force else []
    return []


def enumerate_scenario(sc, ctx, shard, nshards, modes, stride=1, double_stride=2):
    d = ctx.scratch()
    try:
        paths, extra = prepare(sc, d)
        home = os.path.join(d, "home")
        clean_out = os.path.join(d, "clean")
        ctx.pipeline_runs += 1
        fresh_reference(paths)
        if first_run(sc, paths, clean_out, extra, os.path.join(d, "home_clean"), os.path.join(d, "clean.log")) != 0:
            ctx.note("clean_run_failed")
            return
        stale = make_stale(sc, d, paths, extra, ctx)
        lab = os.path.join(d, "labels.txt")
        list_out = os.path.join(d, "listing" + sc.get("out_suffix", ""))
        ctx.pipeline_runs += 1
        fresh_reference(paths)
        code = first_run(sc, paths, list_out, extra + start_dir(stale, list_out, sc.get("stale_force", True)), os.path.join(d, "home_list"),
                         os.path.join(d, "list.log"), crash=(0, "before", lab))
        if code != 0 or not os.path.exists(lab):
            ctx.harness_errors.append("instrumented listing run failed")
            return
        labels = [l.rstrip("\n").split("\t", 1)[1] for l in open(lab)]
        shutil.rmtree(list_out, ignore_errors=True)
        n = len(labels)
        sc_hash = case_hash(sc)
        ctx.sample({"scenario": pipeline.summarize(sc), "mutation_points": n, "labels_head": labels[:8],
                    "labels_tail": labels[-6:]}, limit=2)
        for mode in modes:
            for k in range(1, n + 1):
                if ((k - 1) // 1) % nshards != shard or (k - 1) % stride:
                    continue
                ctx.evaluations += 1
                label = labels[k - 1]
                phase = phase_of(label, k, labels)
                ctx.cls("phase=" + phase, "mode=" + mode)
                if phase != "setup":
                    ctx.nontrivial_n += 1
                out = os.path.join(d, "crash_%s_%d%s" % (mode, k, sc.get("out_suffix", "")))
                h = os.path.join(d, "home_%s_%d" % (mode, k))
                ctx.pipeline_runs += 1
                fresh_reference(paths)
                code = first_run(sc, paths, out, extra + start_dir(stale, out, sc.get("stale_force", True)), h, os.path.join(d, "crash.log"),
                                 crash=(k, mode, None))
                case = {"scenario": sc, "k": k, "mode": mode, "label": label}
                if code != crashwrap.EXIT_CODE:
                    if code == 0:
                        ctx.note("crash_point_not_reached")
                    else:
                        ctx.note("crash_run_exit_%s" % code)
                    shutil.rmtree(out, ignore_errors=True)
                    continue
                ctx.pipeline_runs += 1
                rlog = os.path.join(d, "resume.log")
                rcode = run.run_fork(["--resume", "-o", out], h, rlog)
                if rcode != 0:
                    r = pipeline.Result(d, rcode, out, paths, rlog)
                    ctx.violation("C07:resume-aborts:%s-phase:%s" % (phase, r.crash_signature().split("@")[0]),
                                  {"k": k, "of": n, "mode": mode, "mutation": label, "exit": rcode,
                                   "log": r.log_tail(6)}, case)
                else:
                    diffs = compare.diff_dirs(clean_out, sc.get("prefix", "OUT"), out, sc.get("prefix", "OUT"))
                    for kind, f, det in diffs:
                        ctx.violation("C07:resumed-output-%s:%s-phase:%s" % (
                            "differs" if kind == "content" else "missing" if kind == "only-in-first" else "extra",
                            phase, f), {"k": k, "of": n, "mode": mode, "mutation": label, "file": f, "detail": det},
                            case)
                shutil.rmtree(out, ignore_errors=True)
                shutil.rmtree(h, ignore_errors=True)
        # histories with two kills: the run is killed at k, the resumed run is killed at its own mutation k2 (counted
        # from its first mutation, which is the rewriting of .params), and the second resumed run must finish with the
        # outputs of the clean run
        params_at = None
        for k in range(1, n + 1):
            if (k - 1) % nshards != shard or ((k - 1) // nshards) % double_stride:
                continue
            label = labels[k - 1]
            phase = phase_of(label, k, labels)
            if params_at is None:
                params_at = params_index(sc, d, paths, extra, stale, k, ctx)
            for k2, mode2 in ((params_at, "after"), (params_at + 1, "before"), (params_at + 1 + (k * 7) % 11, "after"),
                              (params_at + 12 + (k * 13) % 40, "before")):
                ctx.evaluations += 1
                ctx.cls("phase=" + phase, "mode=double")
                if phase != "setup":
                    ctx.nontrivial_n += 1
                case = {"scenario": sc, "k": k, "mode": "after", "label": label, "k2": k2, "mode2": mode2}
                double_kill(sc, d, paths, extra, stale, clean_out, case, phase, ctx, n)
    finally:
        shutil.rmtree(d, ignore_errors=True)


def params_index(sc, d, paths, extra, stale, k, ctx):
    """index of the mutation of a resumed run that rewrites .params (its first mutations are the same at every k)"""
    out = os.path.join(d, "plist" + sc.get("out_suffix", ""))
    h = os.path.join(d, "home_plist")
    lab = os.path.join(d, "plist.txt")
    try:
        ctx.pipeline_runs += 2
        fresh_reference(paths)
        code = first_run(sc, paths, out, extra + start_dir(stale, out, sc.get("stale_force", True)), h, os.path.join(d, "crash.log"),
                         crash=(k, "after", None))
        if code != crashwrap.EXIT_CODE:
            return 1
        run.run_fork(["--resume", "-o", out], h, os.path.join(d, "resume1.log"), env={"ABLAB_ISOQUANT_VERIF": "1"},
                     pre=lambda: crashwrap.install(0, "before", lab, armed=True))
        for l in open(lab):
            i, label = l.rstrip("\n").split("\t", 1)
            if label.endswith("/.params") or label.endswith("/.params.tmp"):
                return int(i)
        return 1
    finally:
        shutil.rmtree(out, ignore_errors=True)
        shutil.rmtree(h, ignore_errors=True)


def double_kill(sc, d, paths, extra, stale, clean_out, case, phase, ctx, n=None):
    k, k2, mode2, label = case["k"], case["k2"], case["mode2"], case["label"]
    out = os.path.join(d, "dbl_%d_%d%s" % (k, k2, sc.get("out_suffix", "")))
    h = os.path.join(d, "home_dbl_%d_%d" % (k, k2))
    try:
        ctx.pipeline_runs += 1
        fresh_reference(paths)
        code = first_run(sc, paths, out, extra + start_dir(stale, out, sc.get("stale_force", True)), h, os.path.join(d, "crash.log"),
                         crash=(k, case["mode"], None))
        if code != crashwrap.EXIT_CODE:
            ctx.note("crash_point_not_reached" if code == 0 else "crash_run_exit_%s" % code)
            return
        ctx.pipeline_runs += 1
        code2 = run.run_fork(["--resume", "-o", out], h, os.path.join(d, "resume1.log"),
                             env={"ABLAB_ISOQUANT_VERIF": "1"},
                             pre=lambda: crashwrap.install(k2, mode2, None, armed=True))
        rlog = os.path.join(d, "resume1.log")
        rcode = code2
        if code2 == crashwrap.EXIT_CODE:
            ctx.cls("second_kill_reached")
            ctx.pipeline_runs += 1
            rlog = os.path.join(d, "resume2.log")
            rcode = run.run_fork(["--resume", "-o", out], h, rlog)
        det = {"k": k, "of": n, "mode": "after", "mutation": label, "k2": k2, "mode2": mode2}
        if rcode != 0:
            r = pipeline.Result(d, rcode, out, paths, rlog)
            ctx.violation("C07:resume-aborts:%s-phase:%s:after-a-killed-resume" % (phase, r.crash_signature().split("@")[0]),
                          dict(det, exit=rcode, log=r.log_tail(6)), case)
        else:
            for kind, f, dd in compare.diff_dirs(clean_out, sc.get("prefix", "OUT"), out, sc.get("prefix", "OUT")):
                ctx.violation("C07:resumed-output-%s:%s-phase:%s:after-a-killed-resume" % (
                    "differs" if kind == "content" else "missing" if kind == "only-in-first" else "extra", phase, f),
                    dict(det, file=f, detail=dd), case)
    finally:
        shutil.rmtree(out, ignore_errors=True)
        shutil.rmtree(h, ignore_errors=True)


def run_enumeration(shard, nshards, seed, n, ctx, tier="quick"):
    # all shards generate the same scenarios (seed independent of the shard) and take disjoint crash points
    n_scen = 2 if tier == "quick" else 6
    modes = ("before", "after")
    base_seed = int(os.environ.get("VERIF_SEED", "1") or 1)

    counter = {"i": 0}

    @hypothesis.seed(base_seed * 7919 + 13)
    @settings(max_examples=n_scen, database=None, deadline=None, suppress_health_check=list(HealthCheck),
              phases=[hypothesis.Phase.generate])
    @given(scenarios())
    def body(sc):
        # the grouping modes (and, for the table mode, a run without --keep_tmp) rotate over the scenarios of a run so
        # that even the two scenarios of the quick tier cover the read-group table and its lock
        i = counter["i"]
        counter["i"] += 1
        sc["grouping"] = ["file", "tag", "none"][i % 3]
        if i % 3 == 0:
            sc["opts"] = [o for o in sc["opts"] if o != "--keep_tmp"]
        sc["stale_dir"] = i % 2 == 1
        sc["gz_reference"] = i % 2 == 0
        if not counter.get("mm") or i % 3 == 2:
            # multi-mapped reads on two chromosomes, kept in memory: the first scenario of a run that has a spliced
            # isoform to derive them from (the very first scenario is usually Hypothesis' minimal one), then every third
            if not any(r["n"].startswith("mm") for r in sc["reads"]):
                sc["multimap"] = add_multimappers(FirstSrc(), sc)
            if any(r["n"].startswith("mm") for r in sc["reads"]):
                counter["mm"] = True
                if "--high_memory" not in sc["opts"]:
                    sc["opts"] += ["--high_memory"]
        if i < 2:
            # relative names are made absolute when the parameters are saved: a superset of runs given absolute names
            sc["relative"] = True
            sc["input_mode"] = ["bam", "yaml"][i]
            sc["out_suffix"] = ["", "[1]"][i]
        if i % 2 == 1:
            # the earlier run in the re-used folder: with the same compressed reference, or with its uncorrected version
            sc["gz_reference"] = i % 4 == 1
            sc["stale_other_reference"] = True
            sc["stale_force"] = i % 4 == 3
            if i == 1 and "--prefix" not in sc["opts"]:
                sc["prefix"] = ".v2"
                sc["opts"] += ["--prefix", ".v2"]
            if "--check_canonical" not in sc["opts"]:
                sc["opts"] += ["--check_canonical"]
        enumerate_scenario(sc, ctx, shard, nshards, modes, double_stride=2 if tier == "quick" else 1)
    ctx.evaluations = 0
    body()


def eval_replay(case, ctx):
    sc = case["scenario"]
    d = ctx.scratch()
    try:
        paths, extra = prepare(sc, d)
        clean_out = os.path.join(d, "clean")
        ctx.pipeline_runs += 1
        fresh_reference(paths)
        if first_run(sc, paths, clean_out, extra, os.path.join(d, "home_clean"), os.path.join(d, "clean.log")) != 0:
            ctx.harness_errors.append("clean run failed in replay")
            return
        stale = make_stale(sc, d, paths, extra, ctx)
        if "k2" in case:
            double_kill(sc, d, paths, extra, stale, clean_out, case, phase_of(case["label"], case["k"], []), ctx)
            return
        out = os.path.join(d, "crash" + sc.get("out_suffix", ""))
        h = os.path.join(d, "home")
        k, mode = case["k"], case["mode"]
        fresh_reference(paths)
        code = first_run(sc, paths, out, extra + start_dir(stale, out, sc.get("stale_force", True)), h, os.path.join(d, "crash.log"),
                         crash=(k, mode, None))
        if code != crashwrap.EXIT_CODE:
            return
        rlog = os.path.join(d, "resume.log")
        rcode = run.run_fork(["--resume", "-o", out], h, rlog)
        phase = phase_of(case["label"], k, [])
        if rcode != 0:
            r = pipeline.Result(d, rcode, out, paths, rlog)
            ctx.violation("C07:resume-aborts:%s-phase:%s" % (phase, r.crash_signature().split("@")[0]),
                          {"k": k, "mode": mode, "mutation": case["label"], "exit": rcode, "log": r.log_tail(6)}, case)
        else:
            for kind, f, det in compare.diff_dirs(clean_out, sc.get("prefix", "OUT"), out, sc.get("prefix", "OUT")):
                ctx.violation("C07:resumed-output-%s:%s-phase:%s" % (
                    "differs" if kind == "content" else "missing" if kind == "only-in-first" else "extra", phase, f),
                    {"k": k, "mode": mode, "mutation": case["label"], "file": f, "detail": det}, case)
    finally:
        shutil.rmtree(d, ignore_errors=True)


def reuse_argv(sc, paths, out, saves, extra):
    argv = ["--reference", paths["fasta"], "-o", out, "--genedb", paths["gtf"], "--complete_genedb",
            "--read_assignments", saves] + list(sc["opts"]) + list(extra)
    return argv


def shared_saves_history(sc, d, paths, extra, saves, clean_out, case, ctx, n=None):
    """Run B (restarted from the saves) is killed after its mutation k1 and abandoned; run C - another run restarted
    from the same saves, own output folder - is killed before/after its mutation k2 and resumed. C must finish with the
    outputs of an undisturbed run restarted from those saves."""
    k1, k2, mode2 = case["k"], case["k2"], case["mode2"]
    outb = os.path.join(d, "B_%d_%d" % (k1, k2))
    outc = os.path.join(d, "C_%d_%d" % (k1, k2))
    hb, hc = outb + "_home", outc + "_home"
    aux = os.path.dirname(saves)
    before = set(os.listdir(aux))
    try:
        ctx.pipeline_runs += 2
        code = run.run_fork(reuse_argv(sc, paths, outb, saves, extra), hb, os.path.join(d, "B.log"),
                            env={"ABLAB_ISOQUANT_VERIF": "1"}, pre=lambda: crashwrap.install(k1, "after", None))
        if code != crashwrap.EXIT_CODE:
            ctx.note("first_kill_not_reached")
        code = run.run_fork(reuse_argv(sc, paths, outc, saves, extra), hc, os.path.join(d, "C.log"),
                            env={"ABLAB_ISOQUANT_VERIF": "1"}, pre=lambda: crashwrap.install(k2, mode2, None))
        if code != crashwrap.EXIT_CODE:
            ctx.note("crash_point_not_reached" if code == 0 else "crash_run_exit_%s" % code)
            return
        ctx.pipeline_runs += 1
        rlog = os.path.join(d, "Cresume.log")
        rcode = run.run_fork(["--resume", "-o", outc], hc, rlog)
        det = {"k1": k1, "of": n, "k2": k2, "mode2": mode2, "mutation": case["label"]}
        if rcode != 0:
            r = pipeline.Result(d, rcode, outc, paths, rlog)
            ctx.violation("C07:resume-aborts:%s:next-to-an-abandoned-run-on-the-same-saves" %
                          r.crash_signature().split("@")[0], dict(det, exit=rcode, log=r.log_tail(6)), case)
        else:
            for kind, f, dd in compare.diff_dirs(clean_out, "OUT0", outc, "OUT0"):
                ctx.violation("C07:resumed-output-%s:%s:next-to-an-abandoned-run-on-the-same-saves" % (
                    "differs" if kind == "content" else "missing" if kind == "only-in-first" else "extra", f),
                    dict(det, file=f, detail=dd), case)
    finally:
        for o in (outb, outc, hb, hc):
            shutil.rmtree(o, ignore_errors=True)
        # whatever the two runs left next to the saves is removed: every history starts from the same saved run
        for f in set(os.listdir(aux)) - before:
            os.remove(os.path.join(aux, f))


def saved_run(sc, d, ctx):
    paths, extra = prepare(sc, d)
    first = os.path.join(d, "first")
    ctx.pipeline_runs += 1
    fresh_reference(paths)
    opts = [o for o in sc["opts"] if o != "--keep_tmp"] + ["--keep_tmp"]
    if run.run_fork(build.base_argv(dict(sc, opts=opts), paths, first, extra), os.path.join(d, "home_first"),
                    os.path.join(d, "first.log")) != 0:
        return None
    saves = os.path.join(first, "OUT", "aux", "OUT.save")
    gextra = [e for e in extra] if sc["grouping"] == "tag" else []
    clean_out = os.path.join(d, "clean")
    ctx.pipeline_runs += 1
    if run.run_fork(reuse_argv(sc, paths, clean_out, saves, gextra), os.path.join(d, "home_clean"),
                    os.path.join(d, "clean.log")) != 0:
        return None
    return paths, gextra, saves, clean_out


def run_shared_saves(shard, nshards, seed, n, ctx, tier="quick"):
    n_scen = 1 if tier == "quick" else 4
    base_seed = int(os.environ.get("VERIF_SEED", "1") or 1)
    counter = {"i": 0}

    @hypothesis.seed(base_seed * 7919 + 29)
    @settings(max_examples=n_scen, database=None, deadline=None, suppress_health_check=list(HealthCheck),
              phases=[hypothesis.Phase.generate])
    @given(scenarios())
    def body(sc):
        i = counter["i"]
        counter["i"] += 1
        sc["grouping"] = ["tag", "none"][i % 2]
        sc["gz_reference"] = False
        sc["stale_dir"] = False
        if "--prefix" in sc["opts"]:
            k_ = sc["opts"].index("--prefix")
            del sc["opts"][k_:k_ + 2]
        sc["prefix"] = "OUT"
        d = ctx.scratch()
        try:
            got = saved_run(sc, d, ctx)
            if got is None:
                ctx.note("saved_run_failed")
                return
            paths, gextra, saves, clean_out = got
            lab = os.path.join(d, "labels.txt")
            list_out = os.path.join(d, "listing")
            aux = os.path.dirname(saves)
            before = set(os.listdir(aux))
            ctx.pipeline_runs += 1
            code = run.run_fork(reuse_argv(sc, paths, list_out, saves, gextra), os.path.join(d, "home_list"),
                                os.path.join(d, "list.log"), env={"ABLAB_ISOQUANT_VERIF": "1"},
                                pre=lambda: crashwrap.install(0, "before", lab))
            for f in set(os.listdir(aux)) - before:
                os.remove(os.path.join(aux, f))
            if code != 0 or not os.path.exists(lab):
                ctx.harness_errors.append("instrumented listing run (restart from saves) failed")
                return
            labels = [l.rstrip("\n").split("\t", 1)[1] for l in open(lab)]
            shutil.rmtree(list_out, ignore_errors=True)
            m = len(labels)
            ctx.sample({"scenario": pipeline.summarize(sc), "mutation_points_of_a_restart": m,
                        "labels_head": labels[:8]}, limit=1)
            for k1 in range(1, m + 1):
                if (k1 - 1) % nshards != shard:
                    continue
                for k2, mode2 in ((1 + (k1 * 5) % max(1, k1), "after"), (1 + (k1 * 11 + 3) % max(1, k1), "before"),
                                  (1 + (k1 * 7) % m, "after")):
                    ctx.evaluations += 1
                    ctx.cls("mode=shared_saves", "second_kill_%s_first" % ("before" if k2 <= k1 else "after"))
                    ctx.nontrivial_n += 1
                    case = {"scenario": sc, "k": k1, "k2": k2, "mode2": mode2, "label": labels[k2 - 1],
                            "history": "shared_saves"}
                    shared_saves_history(sc, d, paths, gextra, saves, clean_out, case, ctx, m)
        finally:
            shutil.rmtree(d, ignore_errors=True)
    body()


def eval_shared_replay(case, ctx):
    sc = case["scenario"]
    d = ctx.scratch()
    try:
        got = saved_run(sc, d, ctx)
        if got is None:
            ctx.harness_errors.append("saved run failed in replay")
            return
        paths, gextra, saves, clean_out = got
        shared_saves_history(sc, d, paths, gextra, saves, clean_out, case, ctx)
    finally:
        shutil.rmtree(d, ignore_errors=True)


def stages(tier):
    q = tier == "quick"
    return [Stage("crashpoints", "func", eval_replay, n=16,
                  run=lambda shard, nshards, seed, n, ctx: run_enumeration(shard, nshards, seed, n, ctx, tier),
                  exhaustive=True),
            Stage("shared_saves", "func", eval_shared_replay, n=16,
                  run=lambda shard, nshards, seed, n, ctx: run_shared_saves(shard, nshards, seed, n, ctx, tier),
                  exhaustive=False)]
