"""C01 - reads that follow an annotated isoform are assigned to compatible isoforms only."""
import os
from collections import Counter, defaultdict

from hypothesis import strategies as st

from vlib import build, parse, pipeline, scenario as S, reads as R
from vlib.refmodel import compat
from vlib.shard import Stage, case_hash

ID = "C01"
LEVEL = "exploration"
TECHNIQUE = "property-based testing (Hypothesis): well-separated generated annotations and reads derived from " \
            "isoforms by explicit recipes (ground truth carried by the generator), three-valued structural oracle"
RULE = ("Hypothesis-generated annotations (multi-isoform, overlapping and antisense genes, both strands, 1-3 "
        "chromosomes; distinct splice sites >= 40 bp apart) x matching strategy {exact, precise, default, loose} "
        "(explicit or via data type) x reads of class W (follow an annotated isoform within tolerances: junction "
        "shifts <= delta, exonic indels <= 5 bp, 5'/3' truncation, soft clips, polyA/polyT at the 3' end) and class F "
        "(unannotated structure differing from every overlapping isoform by wide-margin changes, verified by the "
        "reference model before the run). Non-trivial = W read with >= 1 junction and >= 1 applied perturbation in a "
        "locus where >= 2 isoforms overlap the read, or any F read; distinct by (scenario hash, read name). "
        "Stage files: a two-file experiment against each file alone (non-trivial = > 3 reported rows). Stage "
        "crowded_end: 2-8 isoforms with a donor 6-14 bp before the end of T, reads of T with a tail (every case "
        "non-trivial).")
ASSUMPTIONS = ["tolerances as documented: delta 0/4/6/12, minor elongation 50 bp; untruncated W ends lie inside T by "
               "0..delta (outward offsets are not a documented tolerance)",
               "SURE_INCOMPATIBLE needs a wide-margin witness (see vlib/refmodel/compat.py); everything else is "
               "UNSURE and never raises"]

CONSISTENT = {"unique", "unique_minor_difference", "ambiguous"}
F_EDITS = ["skip", "retain", "alt_donor", "alt_acceptor", "novel_exon", "alt_last_in", "alt_first_in", "far5end", "far3end",
           "exon_beyond_right", "exon_beyond_left"]


def far_chain(src, exons, annotated_sites, strand="+", info=None):
    """An unannotated chain derived from `exons` by a wide-margin change (or None)."""
    ex = [list(e) for e in exons]
    n = len(ex)
    kind = src.choice(F_EDITS)
    if info is not None:
        info["kind"] = kind
    if kind in ("far5end", "far3end"):
        # "distant ends": the intron chain of T, one end 400-700 bp beyond T's (major exon elongation)
        d = src.int(400, 700)
        left = (kind == "far5end") == (strand == "+")
        if left:
            if ex[0][0] - d < 60:
                return None
            ex[0][0] -= d
        else:
            ex[-1][1] += d
        return ex
    if kind in ("exon_beyond_right", "exon_beyond_left"):
        # the read shares no intron with T: it begins inside T's outermost exon (or inside a mono-exonic T), runs up to
        # T's end or a few bases past it, and splices to an unannotated exon 300-700 bp beyond the gene
        ln, gap, over = src.int(110, 260), src.int(300, 700), src.choice([0, 0, 3, 8, 15])
        if kind == "exon_beyond_right":
            e = ex[-1]
            a = e[0] + src.int(0, max(0, (e[1] - e[0]) // 2))
            return [[a, e[1] + over], [e[1] + over + gap, e[1] + over + gap + ln]]
        e = ex[0]
        b = e[1] - src.int(0, max(0, (e[1] - e[0]) // 2))
        if e[0] - over - gap - ln < 60:
            return None
        return [[e[0] - over - gap - ln, e[0] - over - gap], [e[0] - over, b]]
    if kind == "skip":
        cand = [i for i in range(1, n - 1) if ex[i][1] - ex[i][0] + 1 >= 160]
        if not cand:
            return None
        i = src.choice(cand)
        return ex[:i] + ex[i + 1:]
    if kind == "retain":
        cand = [i for i in range(n - 1) if ex[i + 1][0] - ex[i][1] - 1 >= 120]
        if not cand:
            return None
        i = src.choice(cand)
        return ex[:i] + [[ex[i][0], ex[i + 1][1]]] + ex[i + 2:]
    if kind in ("alt_donor", "alt_acceptor"):
        if n < 2:
            return None
        d = src.int(110, 200) * src.choice([-1, 1])
        if kind == "alt_donor":
            i = src.int(0, n - 2)
            ex[i][1] += d
            ok = ex[i][1] - ex[i][0] >= 40 and ex[i + 1][0] - ex[i][1] >= 160
            site = ex[i][1]
        else:
            i = src.int(1, n - 1)
            ex[i][0] += d
            ok = ex[i][1] - ex[i][0] >= 40 and ex[i][0] - ex[i - 1][1] >= 160
            site = ex[i][0]
        if not ok or any(abs(site - s) < 100 for s in annotated_sites):
            return None
        return ex
    if kind in ("alt_last_in", "alt_first_in"):
        # alternative terminal exon placed inside the terminal intron, of a length close to the annotated terminal exon
        if n < 3:
            return None
        if kind == "alt_last_in":
            gap = ex[-1][0] - ex[-2][1] - 1
            tl = ex[-1][1] - ex[-1][0] + 1
        else:
            gap = ex[1][0] - ex[0][1] - 1
            tl = ex[0][1] - ex[0][0] + 1
        ln = max(90, tl + src.int(-20, 20)) if src.bool(0.7) else src.int(90, 300)
        if gap < ln + 420:
            return None
        if kind == "alt_last_in":
            s_ = ex[-2][1] + src.int(200, gap - ln - 200)
            return ex[:-1] + [[s_, s_ + ln - 1]]
        s_ = ex[0][1] + src.int(200, gap - ln - 200)
        return [[s_, s_ + ln - 1]] + ex[1:]
    if kind == "novel_exon":
        cand = [i for i in range(n - 1) if ex[i + 1][0] - ex[i][1] - 1 >= 420]
        if not cand:
            return None
        i = src.choice(cand)
        gap = ex[i + 1][0] - ex[i][1] - 1
        ln = src.int(80, min(160, gap - 320))
        s = ex[i][1] + src.int(160, gap - ln - 160)
        return ex[:i + 1] + [[s, s + ln - 1]] + ex[i + 1:]
    return None


@st.composite
def scenarios(draw):
    src = S.DrawSrc(draw)
    sc = S.gen_annotation(src, n_chroms=(1, 3), genes_per_chrom=(1, 3), iso_per_gene=(1, 4), sep=40, max_exons=7,
                          overlap_p=0.3)
    dt = src.choice(S.DATA_TYPES)
    ms = src.choice([None, "exact", "precise", "default", "loose"])
    strategy = ms or S.DATA_DEFAULT_STRATEGY[dt]
    delta = S.DELTAS[strategy]
    by_chr = defaultdict(list)
    sites = defaultdict(set)
    for g, t in S.transcripts_of(sc):
        by_chr[g["chr"]].append(t)
        for e in t["exons"]:
            sites[g["chr"]].update(e)
    # isoforms whose 3' end is A-rich in the genome itself (T-rich on the minus strand): reads that follow them
    # exactly look as if they carried an aligned polyA tail
    for g, t in S.transcripts_of(sc):
        if src.bool(0.12):
            n = src.int(45, 64)
            rich = "".join("A" if (i % 6) else src.choice("CG") for i in range(n))
            if g["strand"] == "+":
                e = t["exons"][-1]
                n = min(n, e[1] - e[0] - 5)
                if n >= 41:
                    sc["overrides"].append([g["chr"], e[1] - n, rich[:n]])
                    sc.setdefault("arich", []).append([g["chr"], e[1] - n + 1, e[1], "+"])
            else:
                e = t["exons"][0]
                n = min(n, e[1] - e[0] - 5)
                if n >= 41:
                    sc["overrides"].append([g["chr"], e[0] - 1, rich[:n].replace("A", "T")])
                    sc.setdefault("arich", []).append([g["chr"], e[0], e[0] + n - 1, "-"])
    # ... and isoforms whose short 5' exon begins T-rich (A-rich on the minus strand), where no polyA tail can be
    for g, t in S.transcripts_of(sc):
        if len(t["exons"]) > 1 and src.bool(0.15):
            e = t["exons"][0] if g["strand"] == "+" else t["exons"][-1]
            ln = e[1] - e[0] + 1
            if 40 <= ln <= 100:
                n = min(ln - 8, max(30, (ln * 3) // 4))
                rich = "".join("T" if (i % 8) else src.choice("CG") for i in range(n))
                if g["strand"] == "+":
                    sc["overrides"].append([g["chr"], e[0] - 1, rich])
                    sc.setdefault("rich5", []).append([g["chr"], e[0], e[0] + n - 1, "+"])
                else:
                    sc["overrides"].append([g["chr"], e[1] - n, rich[::-1].replace("T", "A")])
                    sc.setdefault("rich5", []).append([g["chr"], e[1] - n + 1, e[1], "-"])
    truth = {}
    k = 0
    lens = {c[0]: c[1] for c in sc["chroms"]}
    for g, t in S.transcripts_of(sc):
        for _ in range(src.int(1, 5)):
            k += 1
            name = "r%d" % k
            if src.bool(0.72):
                r, tr = S.read_from_chain(src, name, g["chr"], g["strand"], t["exons"], delta=delta, trunc_p=0.35,
                                          jitter_p=0.5, indel_p=0.35, mapq=(20, 60))
                tr["cls"] = "W"
                tr["src"] = t["id"]
                if tr.get("polya") and src.bool(0.12):
                    # the tail of the molecule aligned as a block of its own (T-rich block in front of a minus-strand
                    # read, A-rich block behind a plus-strand read) instead of being soft-clipped
                    ln, gap = src.int(18, 40), src.int(120, 500)
                    cg = [list(x) for x in r["cg"]]
                    if g["strand"] == "-" and cg and cg[0][0] == 4 and r["p"] - gap - ln > 5:
                        r["cg"] = [[0, ln], [3, gap]] + cg[1:]
                        r.pop("sl", None)
                        r["p"] -= gap + ln
                        r["b0seq"] = "T"
                        tr["aligned_tail"] = True
                    elif g["strand"] == "+" and cg and cg[-1][0] == 4:
                        r["cg"] = cg[:-1] + [[3, gap], [0, ln]]
                        r.pop("sr", None)
                        r["bNseq"] = "A"
                        tr["aligned_tail"] = True
            else:
                info = {}
                ch = far_chain(src, t["exons"], sites[g["chr"]], g["strand"], info)
                if ch is None:
                    continue
                # a far 3' end carries no tail (a tail there is an alternative polyA site, a category of its own);
                # a far 5' end usually comes with a polyA tail at T's exact 3' end
                pp = {"far3end": 0.0, "far5end": 0.85, "exon_beyond_right": 0.0, "exon_beyond_left": 0.0}.get(
                    info["kind"], 0.7)
                r, tr = S.read_from_chain(src, name, g["chr"], g["strand"], ch, delta=0, trunc_p=0.0, jitter_p=0.0,
                                          indel_p=0.2, mapq=(20, 60), inward=False, polya_p=pp)
                tr["edit"] = info["kind"]
                blocks = tr["blocks"]
                # class F only if every annotated isoform overlapping the read span is surely incompatible
                ok = True
                for t2 in by_chr[g["chr"]]:
                    if t2["exons"][-1][1] < blocks[0][0] or t2["exons"][0][0] > blocks[-1][1]:
                        continue
                    if compat.sure_incompatible(blocks, t2["exons"], 12, far_ends=True) is None:
                        ok = False
                        break
                tr["cls"] = "F" if ok else "G"
                tr["src"] = t["id"]
            if R.cigar_blocks(r["p"], r["cg"])[-1][1] + 45 >= lens[g["chr"]]:
                continue
            sc["reads"].append(r)
            truth[name] = tr
    sc["truth"] = truth
    sc["opts"] = ["--data_type", dt, "--no_gzip", "--threads", "1", "--no_model_construction"]
    if ms:
        sc["opts"] += ["--matching_strategy", ms]
    sc["delta"], sc["strategy"] = delta, strategy
    return sc


def evaluate(case, ctx):
    sc = case
    res = pipeline.run_case(sc, ctx)
    try:
        tsvp = res.path("read_assignments.tsv")
        if res.code != 0 or not tsvp:
            ctx.note("crash:" + res.crash_signature())
            return
        rows = parse.read_assignments(tsvp)
        by_read = defaultdict(list)
        for r in rows:
            by_read[r["read_id"]].append(r)
        iso = {}
        by_chr = defaultdict(list)
        for g, t in S.transcripts_of(sc):
            iso[t["id"]] = (g["chr"], t["exons"])
            by_chr[g["chr"]].append(t["id"])
        delta = sc["delta"]
        chash = case_hash(case)
        strat = sc["strategy"]
        for name, tr in sc["truth"].items():
            rws = by_read.get(name)
            cls = tr["cls"]
            ctx.cls("class=" + cls)
            if cls == "G":
                ctx.grey += 1
                continue
            blocks = [tuple(b) for b in tr["blocks"]]
            if not rws:
                if cls == "W":
                    ctx.violation("C01:within-tolerance-read-not-reported", {"read": name, "truth": tr}, case)
                continue
            typ = rws[0]["type"]
            chrom = rws[0]["chr"]
            # root cause of a known finding: the read begins in a short 5' exon that is T-rich in the genome (A-rich on
            # the minus strand); the exon is cut off as if it were an aligned polyT head
            rich5 = False
            for c_, a_, b_, st_ in sc.get("rich5", []):
                blk = blocks[0] if st_ == "+" else blocks[-1]
                if c_ == chrom and blk[0] <= b_ and blk[1] >= a_:
                    rich5 = True

            def viol(sig, det, case_):
                if rich5:
                    sig = "C01:read-beginning-in-a-t-rich-genomic-5prime-exon:" + (
                        sig.split(":")[2] if sig.startswith("C01:read-ending-in-an-a-rich") else sig[4:].split(":")[0])
                ctx.violation(sig, det, case_)
            reported = [r["isoform"] for r in rws if r["isoform"] != "."]
            if cls == "F":
                ctx.mark_nontrivial(chash + name)
                if typ in CONSISTENT:
                    evs = sorted(set(e.split(":")[0] for r in rws for e in r["events"]))
                    ev = ",".join(evs)
                    base = set(x.rsplit("_", 1)[0] if x.rsplit("_", 1)[-1] in ("3", "5", "left", "right") else x
                               for x in evs)
                    key = [e for e in ("terminal_exon_misalignment", "exon_misalignment", "intron_shift",
                                       "fake_terminal_exon", "exon_elongation") if e in base]
                    viol("C01:far-read-reported-consistent:" + ("+".join(key) if key else "other"),
                                  {"read": name, "type": typ, "isoforms": reported, "events": ev, "blocks": blocks,
                                   "source": tr["src"], "source_exons": iso[tr["src"]][1], "strategy": strat}, case)
                continue
            # class W
            T = tr["src"]
            # root cause of a known finding: the last aligned bases of the read lie in an A-rich (T-rich) stretch of
            # the genome and are taken for an aligned polyA tail
            ar = ""
            for c_, a_, b_, st_ in sc.get("arich", []):
                if c_ != chrom:
                    continue
                blk = blocks[-1] if st_ == "+" else blocks[0]
                if blk[0] <= b_ and blk[1] >= a_:
                    ar = ":a-rich-genomic-3prime-end"
            n_pert = tr["jitter"] + tr["indels"] + int(tr["left_cut"]) + int(tr["right_cut"]) + int(tr["polya"])
            overlapping = [t for t in by_chr[chrom] if not (iso[t][1][-1][1] < blocks[0][0] or
                                                            iso[t][1][0][0] > blocks[-1][1])]
            if len(blocks) > 1 and n_pert and len(overlapping) >= 2:
                ctx.mark_nontrivial(chash + name)
            if typ not in CONSISTENT:
                ev = ",".join(sorted(set(e.split(":")[0] for r in rws for e in r["events"])))
                viol("C01:read-ending-in-an-a-rich-genomic-stretch:not-consistent" if ar else
                              "C01:within-tolerance-read-not-consistent:%s:%s" % (typ, strat),
                              {"read": name, "type": typ, "events": ev, "blocks": blocks, "T": T,
                               "T_exons": iso[T][1], "truth": {k: v for k, v in tr.items() if k != "blocks"},
                               "delta": delta}, case)
                continue
            for t in reported:
                if t in iso:
                    w = compat.sure_incompatible(blocks, iso[t][1], delta)
                    if w:
                        viol("C01:read-ending-in-an-a-rich-genomic-stretch:reported-isoform-incompatible" if ar else
                             "C01:reported-isoform-surely-incompatible:" + w.split(":")[0],
                                      {"read": name, "isoform": t, "witness": w, "blocks": blocks,
                                       "isoform_exons": iso[t][1], "type": typ, "T": T}, case)
            full = not tr["left_cut"] and not tr["right_cut"]
            if full and T not in reported:
                viol("C01:read-ending-in-an-a-rich-genomic-stretch:misses-its-isoform" if ar else
                              "C01:full-length-read-misses-its-isoform:" + strat,
                              {"read": name, "T": T, "reported": reported, "type": typ, "blocks": blocks,
                               "T_exons": iso[T][1], "others": {t: iso[t][1] for t in reported if t in iso},
                               "delta": delta}, case)
            others = [t for t in by_chr[chrom] if t != T]
            if all(compat.sure_incompatible(blocks, iso[t][1], delta) for t in others):
                if typ == "ambiguous" or reported != [T]:
                    viol("C01:read-ending-in-an-a-rich-genomic-stretch:only-compatible-isoform-not-unique" if ar else
                         "C01:only-compatible-isoform-not-unique",
                                  {"read": name, "T": T, "reported": reported, "type": typ, "blocks": blocks}, case)
        ctx.sample(pipeline.summarize(sc, {"classes": {c: sum(1 for t in sc["truth"].values() if t["cls"] == c)
                                                        for c in "WFG"}, "strategy": strat}), limit=2)
    finally:
        res.cleanup()


@st.composite
def twin_scenarios(draw):
    """'tight' annotations: tandem splice sites 1..delta apart (NAGNAG-like twins); reads follow one twin exactly."""
    src = S.DrawSrc(draw)
    sc = S.gen_annotation(src, n_chroms=(1, 2), genes_per_chrom=(1, 3), iso_per_gene=(1, 2), sep=40, max_exons=6,
                          overlap_p=0.1)
    dt = src.choice(S.DATA_TYPES)
    ms = src.choice([None, "precise", "default", "loose"])
    strategy = ms or S.DATA_DEFAULT_STRATEGY[dt]
    delta = S.DELTAS[strategy]
    truth = {}
    k = 0
    n_t = sum(len(g["transcripts"]) for g in sc["genes"])
    for g in sc["genes"]:
        twins = []
        for t in g["transcripts"]:
            ex = t["exons"]
            if len(ex) < 2 or not src.bool(0.7):
                continue
            new = [list(e) for e in ex]
            i = src.int(0, len(ex) - 2)
            d = src.int(1, delta) * src.choice([-1, 1])
            if src.bool():
                new[i][1] += d
            else:
                new[i + 1][0] += d
            if src.bool(0.3):
                d2 = src.int(1, delta) * src.choice([-1, 1])
                new[i + 1][0] += d2 if new[i + 1][0] == ex[i + 1][0] else 0
            if any(e[1] - e[0] < 30 for e in new) or any(new[j + 1][0] - new[j][1] < 60 for j in range(len(new) - 1)):
                continue
            n_t += 1
            twins.append({"id": "T%dw" % n_t, "exons": new})
        g["transcripts"] += twins
    lens = {c[0]: c[1] for c in sc["chroms"]}
    for g, t in S.transcripts_of(sc):
        for _ in range(src.int(1, 3)):
            k += 1
            name = "r%d" % k
            r = S.exact_read(name, g["chr"], g["strand"], t["exons"], polya=src.choice([0, 25]))
            if R.cigar_blocks(r["p"], r["cg"])[-1][1] + 45 >= lens[g["chr"]]:
                continue
            sc["reads"].append(r)
            truth[name] = {"cls": "X", "src": t["id"], "blocks": [list(e) for e in t["exons"]]}
    sc["truth"] = truth
    sc["opts"] = ["--data_type", dt, "--no_gzip", "--threads", "1", "--no_model_construction"]
    if ms:
        sc["opts"] += ["--matching_strategy", ms]
    sc["delta"], sc["strategy"] = delta, strategy
    return sc


def evaluate_twins(case, ctx):
    """exact full-length reads in annotations with twin splice sites: consistent, and the followed isoform is reported"""
    sc = case
    res = pipeline.run_case(sc, ctx)
    try:
        tsvp = res.path("read_assignments.tsv")
        if res.code != 0 or not tsvp:
            ctx.note("crash:" + res.crash_signature())
            return
        by_read = defaultdict(list)
        for r in parse.read_assignments(tsvp):
            by_read[r["read_id"]].append(r)
        iso = {t["id"]: t["exons"] for g, t in S.transcripts_of(sc)}
        chash = case_hash(case)
        n_twin_reads = 0
        for name, tr in sc["truth"].items():
            rws = by_read.get(name)
            T = tr["src"]
            twin = T.endswith("w") or (T + "w") in iso or any(x.endswith("w") for x in iso)
            if not rws:
                ctx.violation("C01:twins:exact-read-not-reported", {"read": name, "T": T}, case)
                continue
            typ = rws[0]["type"]
            reported = [r["isoform"] for r in rws]
            if T.endswith("w") or any(abs(a[0] - b[0]) + abs(a[1] - b[1]) <= 2 * sc["delta"] and (a != b)
                                      for t2, ex2 in iso.items() if t2 != T
                                      for a, b in zip(compat.introns(iso[T]), compat.introns(ex2))
                                      if len(ex2) == len(iso[T])):
                n_twin_reads += 1
                ctx.mark_nontrivial(chash + name)
            if typ not in CONSISTENT:
                ctx.violation("C01:twins:exact-read-not-consistent:" + typ,
                              {"read": name, "T": T, "T_exons": iso[T], "type": typ, "reported": reported,
                               "strategy": sc["strategy"]}, case)
            elif T not in reported:
                ctx.violation("C01:twins:exact-full-length-read-misses-its-isoform:" + sc["strategy"],
                              {"read": name, "T": T, "T_exons": iso[T], "type": typ, "reported": reported,
                               "reported_exons": {t: iso[t] for t in reported if t in iso}, "delta": sc["delta"]}, case)
        ctx.cls("twins:reads_with_twin>0" if n_twin_reads else "twins:none")
        ctx.sample(pipeline.summarize(sc, {"strategy": sc["strategy"], "twin_reads": n_twin_reads}), limit=1)
    finally:
        res.cleanup()


@st.composite
def crowded_end_scenarios(draw):
    """A gene in which n further isoforms use a donor site a few bases in front of the end of isoform T (their last exons
    lie beyond T): annotated introns that begin behind the polyA site of a read of T.  The read follows T exactly,
    ends a little before T's annotated end and carries a soft-clipped tail; isoform Y shares T's intron chain and ends
    100 bp earlier.  T is compatible, and the only isoform whose end the tail supports."""
    src = S.DrawSrc(draw)
    strand = src.choice(["+", "-"])
    base = src.int(400, 900)
    e1 = [base, base + src.int(200, 320)]
    e2 = [e1[1] + src.int(500, 800), 0]
    e2[1] = e2[0] + src.int(150, 220)
    e3 = [e2[1] + src.int(600, 900), 0]
    e3[1] = e3[0] + src.int(450, 520)
    T = [e1, e2, e3]
    Y = [list(e1), list(e2), [e3[0], e3[1] - 100]]
    n = src.int(2, 8)
    donor = e3[1] - src.int(6, 14)
    trs = [{"id": "T", "exons": T}, {"id": "Y", "exons": Y}]
    pos = e3[1] + src.int(400, 600)
    for i in range(n):
        last = [pos, pos + src.int(150, 250)]
        pos = last[1] + src.int(200, 400)
        trs.append({"id": "X%d" % (i + 1), "exons": [list(e1), list(e2), [e3[0], donor], last]})
    length = pos + src.int(800, 1500)
    short = src.int(12, 30)
    chain = [list(e1), list(e2), [e3[0], e3[1] - short]]
    if src.bool(0.3):
        chain = chain[1:]                    # a 5'-truncated read
    genes = [{"id": "G1", "chr": "chr1", "strand": "+", "canon": "canon", "transcripts": trs}]
    overrides = []
    for t in trs:
        overrides += build.splice_overrides("chr1", t["exons"], "+")
    reads = [S.exact_read("r%d" % (i + 1), "chr1", "+", chain, polya=src.int(22, 32)) for i in range(src.int(1, 3))]
    sc = {"chroms": [["chr1", length, src.int(1, 10 ** 6)]], "genes": genes, "overrides": overrides, "reads": reads,
          "nfiles": 1, "gtf": {"gene_records": True, "transcript_records": True},
          "opts": ["--data_type", src.choice(S.DATA_TYPES), "--no_gzip", "--threads", "1", "--no_model_construction"],
          "n_crowd": n}
    sc["mirror"] = strand == "-"
    return sc


def evaluate_crowded(case, ctx):
    sc = dict(case)
    if sc.get("mirror"):
        # the same locus on the minus strand (reverse complement of genome, annotation and reads)
        from vlib.refmodel import transform as T_
        genome = build.make_genome(sc)
        sc2, g2 = T_.reflect_inputs(sc, genome)
        sc2["opts"] = sc["opts"]
        d = ctx.scratch()
        ind = os.path.join(d, "in")
        os.makedirs(ind, exist_ok=True)
        fa = os.path.join(ind, "genome.fa")
        build.write_fasta(g2, fa, [c[0] for c in sc2["chroms"]])
        gp = os.path.join(ind, "annot.gtf")
        build.write_gtf(sc2, gp)
        paths = {"fasta": fa, "gtf": gp, "bams": build.write_bams(sc2, g2, ind), "genome": g2}
        res = pipeline.run_case(sc2, ctx, d=d, paths=paths)
    else:
        res = pipeline.run_case(sc, ctx)
    try:
        tsvp = res.path("read_assignments.tsv")
        if res.code != 0 or not tsvp:
            ctx.note("crash:" + res.crash_signature())
            return
        rows = parse.read_assignments(tsvp)
        ctx.cls("crowded:n=%d" % sc["n_crowd"])
        ctx.mark_nontrivial(case_hash(case))
        by = defaultdict(list)
        for r in rows:
            by[r["read_id"]].append(r)
        for r in sc["reads"]:
            rws = by.get(r["n"], [])
            isos = sorted(set(x["isoform"] for x in rws))
            typ = rws[0]["type"] if rws else None
            if typ not in CONSISTENT or "T" not in isos:
                ctx.violation("C01:read-of-T-with-a-tail-near-its-end:%s" % (
                    "not-reported" if not rws else "not-consistent" if typ not in CONSISTENT else "misses-T"),
                    {"read": r["n"], "type": typ, "isoforms": isos, "n_isoforms_with_the_late_donor": sc["n_crowd"],
                     "events": sorted(set(e.split(":")[0] for x in rws for e in x["events"]))}, case)
    finally:
        res.cleanup()


@st.composite
def file_scenarios(draw):
    """One experiment given as two BAM files (two samples): every read is assigned as it is when its file is given
    alone.  Read names are unique within a file; across the files they are distinct or - per-sample sequential names
    such as transcript/1 - coincide."""
    sc = draw(scenarios())
    src = S.DrawSrc(draw)
    sc["nfiles"] = 2
    policy = src.choice(["distinct", "distinct", "colliding"])
    a, b = [], []
    for i, r in enumerate(sc["reads"]):
        (a if src.bool(0.5) else b).append(r)
    if not a or not b:
        a, b = sc["reads"][::2], sc["reads"][1::2]
    for i, r in enumerate(a):
        r["file"] = 0
    for i, r in enumerate(b):
        r["file"] = 1
    if policy == "colliding":
        for i, r in enumerate(a):
            r["n"] = "transcript/%d" % (i + 1)
        for i, r in enumerate(b):
            r["n"] = "transcript/%d" % (i + 1)
    sc["name_policy"] = policy
    sc.pop("truth", None)
    return sc


def evaluate_files(case, ctx):
    sc = case
    res = pipeline.run_case(sc, ctx)
    try:
        tsvp = res.path("read_assignments.tsv")
        if res.code != 0 or not tsvp:
            ctx.note("crash:" + res.crash_signature())
            return
        joint = Counter(parse.data_lines(tsvp))
        separate = Counter()
        for fi in (0, 1):
            sub = dict(sc)
            sub["reads"] = [dict(r, file=0) for r in sc["reads"] if r.get("file", 0) == fi]
            sub["nfiles"] = 1
            if not sub["reads"]:
                continue
            r1 = pipeline.run_case(sub, ctx, d=os.path.join(res.dir, "only%d" % fi))
            p1 = r1.path("read_assignments.tsv")
            if r1.code != 0 or not p1:
                ctx.note("crash_single_file:" + r1.crash_signature())
                return
            separate.update(parse.data_lines(p1))
        ctx.cls("files:" + sc["name_policy"])
        shared = set(r["n"] for r in sc["reads"] if r.get("file", 0) == 0) & \
            set(r["n"] for r in sc["reads"] if r.get("file", 0) == 1)
        if len(joint) > 3:
            ctx.mark_nontrivial(case_hash(case))
        if joint != separate:
            diff = list((joint - separate).keys())[:2] + list((separate - joint).keys())[:2]
            names = set(l.split("\t")[0] for l in list((joint - separate).keys()) + list((separate - joint).keys()))
            sig = "C01:assignment-depends-on-the-other-file-of-the-experiment"
            if names and names <= shared:
                sig += ":same-read-name-in-both-files"
            ctx.violation(sig, {"rows": [l[:200] for l in diff], "policy": sc["name_policy"]}, case)
    finally:
        res.cleanup()


def stages(tier):
    q = tier == "quick"
    return [Stage("assign", "hyp", evaluate, n=384 if q else 8000, strategy=scenarios),
            Stage("twins", "hyp", evaluate_twins, n=192 if q else 3000, strategy=twin_scenarios),
            Stage("files", "hyp", evaluate_files, n=64 if q else 1000, strategy=file_scenarios),
            Stage("crowded_end", "hyp", evaluate_crowded, n=64 if q else 1000, strategy=crowded_end_scenarios)]
