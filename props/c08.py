"""C08 - multi-mapped reads resolve to one best locus, order-independently, counted once."""
import copy
import os
import sys
from collections import defaultdict

from hypothesis import strategies as st

from vlib import compare, REPO, parse, pipeline, scenario as S, reads as R, build
from vlib.refmodel import counting
from vlib.shard import Stage, case_hash

ID = "C08"
LEVEL = "exploration"
TECHNIQUE = "property-based testing (Hypothesis): resolver-level lists of per-locus assignments with a permutation " \
            "(reference model of the documented priority order) and pipeline-level paralogous loci under both memory " \
            "modes and permuted chromosome / record order"
RULE = ("(i) Hypothesis-generated lists of 2-7 per-locus assignment records of one read (every assignment type, "
        "primary/secondary, exact duplicates from the same or another region) plus a permutation, resolved by the real "
        "MultimapResolver; (ii) generated paralogous loci on 2-4 chromosomes with reads carrying primary + secondary "
        "(+ duplicate) records whose per-locus class is controlled by the recipe, run in default and --high_memory "
        "mode and with permuted chromosome lengths / tie order. Non-trivial = alignments in >= 2 priority classes or a "
        "tie of >= 2 kept loci; distinct by content hash. When models are built the scenario is also run "
        "without the alignments that lost (class losers_removed_compared).")
ASSUMPTIONS = ["an alignment's identity is (chromosome, start, end, isoform set): copies seen from two processing "
               "regions are one alignment",
               "within the inconsistent and uninformative classes the statement does not say which alignment wins; "
               "only order-independence, non-emptiness and class dominance are required there"]

_m = None


def M():
    global _m
    if _m is None:
        if REPO not in sys.path:
            sys.path.insert(0, REPO)
        import src.isoform_assignment as ia
        import src.multimap_resolver as mr
        _m = (ia, mr)
    return _m


TYPES = ["unique", "unique_minor_difference", "ambiguous", "inconsistent", "inconsistent_non_intronic",
         "inconsistent_ambiguous", "noninformative", "intergenic"]
CONSISTENT = {"unique", "unique_minor_difference", "ambiguous"}
INCONSISTENT = {"inconsistent", "inconsistent_non_intronic", "inconsistent_ambiguous"}


@st.composite
def record_lists(draw):
    n = draw(st.integers(2, 7))
    recs = []
    for i in range(n):
        if recs and draw(st.integers(0, 5)) == 0:
            # exact duplicate of an earlier record, same or different processing region
            r = dict(draw(st.sampled_from(recs)))
            if draw(st.booleans()):
                r["region"] = [r["region"][0] + 256 * draw(st.integers(1, 40)), r["region"][1] + 5000]
            recs.append(r)
            continue
        t = draw(st.sampled_from(TYPES))
        chrom = draw(st.sampled_from(["chr1", "chr2", "chr10", "chrX"]))
        start = draw(st.sampled_from([1000, 1000, 2000, 5000, 77777]))
        end = start + draw(st.sampled_from([500, 500, 900, 3000]))
        if t in ("unique", "unique_minor_difference", "inconsistent", "inconsistent_non_intronic"):
            k = 1
        elif t in ("ambiguous", "inconsistent_ambiguous"):
            k = draw(st.integers(2, 3))
        else:
            k = 0
        isos = ["%s_T%d" % (chrom, draw(st.integers(1, 4)) + 10 * j) for j in range(k)]
        genes = sorted(set("%s_G%d" % (chrom, (int(x.split("T")[1]) % 10 + 1) // 2) for x in isos))
        rs = draw(st.sampled_from([0, 0, 800, 1500, 4000]))
        recs.append({"chr": chrom, "start": start, "end": end, "region": [rs, rs + draw(st.sampled_from([3000, 9000]))],
                     "secondary": draw(st.booleans()), "type": t, "isoforms": isos, "genes": genes,
                     "penalty": 0.0 if t not in INCONSISTENT else draw(st.sampled_from([0.0, 0.0, 0.5, 1.0, 2.5])),
                     "polya": draw(st.booleans())})
    perm = draw(st.permutations(list(range(n))))
    return {"records": recs, "perm": list(perm)}


def build_records(recs):
    ia, mr = M()
    out = []
    for i, r in enumerate(recs):
        a = ia.BasicReadAssignment.__new__(ia.BasicReadAssignment)
        a.assignment_id = i + 1
        a.read_id = "read"
        a.chr_id = r["chr"]
        a.start, a.end = r["start"], r["end"]
        a.genomic_region = tuple(r["region"])
        a.multimapper = r["secondary"]
        a.polyA_found = r["polya"]
        a.assignment_type = ia.ReadAssignmentType[r["type"]]
        # gene-level type as ReadAssignment derives it: ambiguity among isoforms of one gene is unique at gene level
        gt = r["type"]
        if gt == "ambiguous" and len(r["genes"]) == 1:
            gt = "unique"
        elif gt == "inconsistent_ambiguous" and len(r["genes"]) == 1:
            gt = "inconsistent"
        a.gene_assignment_type = ia.ReadAssignmentType[gt]
        a.penalty_score = r["penalty"]
        a.isoforms = list(r["isoforms"])
        a.genes = list(r["genes"])
        out.append(a)
    return out


def ident(r):
    return (r["chr"], r["start"], r["end"], tuple(sorted(r["isoforms"])))


def klass(r):
    if r["type"] in ("unique", "unique_minor_difference") and not r["secondary"]:
        return 0
    if r["type"] in CONSISTENT:
        return 1
    if r["type"] in INCONSISTENT:
        return 2
    return 3


def resolve(recs):
    ia, mr = M()
    objs = build_records(recs)
    res = mr.MultimapResolver(mr.MultimapResolvingStrategy.take_best).resolve(objs)
    kept = []
    for o, r in zip(objs, recs):
        if o.assignment_type != ia.ReadAssignmentType.suspended:
            kept.append((ident(r), o.assignment_type.name, o.gene_assignment_type.name, o.multimapper, r))
        elif o.gene_assignment_type != ia.ReadAssignmentType.suspended:
            kept.append((ident(r), "HALF-SUSPENDED", o.gene_assignment_type.name, o.multimapper, r))
    return kept, objs, res


def eval_resolver(case, ctx):
    recs = case["records"]
    classes = [klass(r) for r in recs]
    top = min(classes)
    ids_top = set(ident(r) for r, c in zip(recs, classes) if c == top)
    try:
        kept, objs, res = resolve(recs)
        perm = [recs[i] for i in case["perm"]]
        kept_p, _, _ = resolve(perm)
    except Exception as e:
        ctx.violation("C08:resolver-raised:" + type(e).__name__, {"error": str(e)[:300]}, case)
        return
    if len(set(classes)) > 1 or (top <= 1 and len(ids_top) > 1):
        ctx.mark_nontrivial(case_hash(case))
        ctx.sample({"records": [[r["chr"], r["start"], r["end"], r["type"], "sec" if r["secondary"] else "pri",
                                 r["isoforms"]] for r in recs], "perm": case["perm"]}, limit=3)
    ctx.cls("top_class=%d" % top)
    kept_ids = [k[0] for k in kept]
    if not kept:
        ctx.violation("C08:all-alignments-suppressed", {"records": len(recs)}, case)
        return
    if any(k[1] == "HALF-SUSPENDED" for k in kept):
        ctx.violation("C08:alignment-half-suspended", {}, case)
    # 1. class dominance
    bad = [k for k in kept if klass(k[4]) != top]
    if bad:
        ctx.violation("C08:lower-priority-alignment-kept:class%d-over-class%d" % (klass(bad[0][4]), top),
                      {"kept": [k[:3] for k in kept], "top_class": top}, case)
    # duplicates: one representative per identity
    if len(kept_ids) != len(set(kept_ids)):
        ctx.violation("C08:duplicate-alignment-kept-twice", {"kept": kept_ids}, case)
    # ties among assigned loci are all kept
    if top <= 1 and set(kept_ids) != ids_top and not bad:
        ctx.violation("C08:tied-locus-dropped", {"kept": sorted(set(kept_ids)), "expected": sorted(ids_top)}, case)
    # ambiguity flags
    isos = set(i for k in kept for i in k[4]["isoforms"])
    genes = set(g for k in kept for g in k[4]["genes"])
    if len(set(kept_ids)) > 1 and len(isos) > 1:
        for k in kept:
            if k[1] not in ("ambiguous", "inconsistent_ambiguous"):
                ctx.violation("C08:tied-read-not-flagged-ambiguous", {"kept": [x[:3] for x in kept]}, case)
                break
    if len(set(kept_ids)) > 1 and len(genes) > 1:
        for k in kept:
            if k[2] not in ("ambiguous", "inconsistent_ambiguous"):
                ctx.violation("C08:tied-read-gene-level-not-flagged-ambiguous", {"kept": [x[:3] for x in kept]}, case)
                break
    # 4. order independence
    if set(kept_ids) != set(k[0] for k in kept_p):
        sig = "C08:retained-set-depends-on-order:class%d" % top
        ctx.violation(sig, {"original": sorted(set(kept_ids)), "permuted": sorted(set(k[0] for k in kept_p)),
                            "perm": case["perm"]}, case)


# ---------------------------------------------------------------------------------------------- pipeline level

@st.composite
def paralog_scenarios(draw):
    src = S.DrawSrc(draw)
    sc = S.gen_annotation(src, n_chroms=(1, 2), genes_per_chrom=(1, 2), iso_per_gene=(1, 3), sep=40, max_exons=5)
    base_genes = list(sc["genes"])
    pars = {}
    for g in base_genes:
        if src.bool(0.8):
            pars[g["id"]] = [S.add_paralog(src, sc, g)]
            if src.bool(0.3):
                pars[g["id"]].append(S.add_paralog(src, sc, g))
    k = 0
    reads = []
    for g in base_genes:
        novel = S.novel_chains(src, sc, g, k=1)
        for t in g["transcripts"]:
            for _ in range(src.int(1, 4)):
                k += 1
                kind = src.choice(["W", "W", "F", "intronic"])
                if kind == "F" and novel:
                    ex = novel[0]
                elif kind == "intronic" and len(t["exons"]) > 1 and t["exons"][1][0] - t["exons"][0][1] > 200:
                    a = t["exons"][0][1] + 40
                    ex = [[a, min(a + 100, t["exons"][1][0] - 40)]]
                else:
                    ex = t["exons"]
                r, _t = S.read_from_chain(src, "r%d" % k, g["chr"], g["strand"], ex, delta=4, trunc_p=0.3,
                                          mapq=(20, 60))
                r["q"] = 60
                reads.append(r)
                for p in pars.get(g["id"], []):
                    mode = src.choice(["same", "same", "worse", "none", "dup"])
                    if mode == "none":
                        continue
                    q = S.shift_read(r, p["chr"], p["offset"], flag_or=256 if src.bool(0.8) else 0, mapq=0 if src.bool(0.7) else 60)
                    if mode == "worse":
                        # make the copy inconsistent at the paralogous locus: drop its first block if spliced
                        b = R.cigar_blocks(q["p"], q["cg"])
                        if len(b) > 2:
                            b = [[b[0][0], b[0][1]]] + [list(x) for x in b[2:]]
                            q2 = R.make_read(q["n"], q["c"], b, flag=q["f"], mapq=q["q"])
                            q = q2
                    reads.append(q)
                    if mode == "dup":
                        reads.append(dict(q))
    lens = {c[0]: c[1] for c in sc["chroms"]}
    sc["reads"] = [r for r in reads if R.cigar_blocks(r["p"], r["cg"])[-1][1] + 45 < lens[r["c"]] and r["p"] >= 0]
    sc["opts"] = ["--data_type", src.choice(["nanopore", "pacbio_ccs"]), "--no_gzip", "--threads",
                  str(src.choice([1, 2])), "--transcript_quantification", src.choice(counting.STRATEGIES),
                  "--gene_quantification", src.choice(counting.STRATEGIES)]
    if src.bool(0.6):
        sc["opts"] += ["--no_model_construction"]
    # permuted presentation: different chromosome lengths (IsoQuant processes chromosomes by length) and tie order
    sc["len_bump"] = [src.int(0, 3) * 5000 for _ in sc["chroms"]]
    sc["tie_seed"] = src.int(0, 1000)
    return sc


def summarize_run(res):
    rows = parse.read_assignments(res.path("read_assignments.tsv"))
    recs = parse.records_of(rows)
    kept = defaultdict(set)
    for (rid, chrom, exons), rws in recs.items():
        kept[rid].add((chrom, exons, tuple(sorted(r["isoform"] for r in rws)), rws[0]["type"]))
    bed = defaultdict(set)
    for b in parse.bed12(res.path("corrected_reads.bed")):
        bed[b["name"]].add((b["chr"], b["start"], b["end"]))
    return recs, kept, bed


def eval_pipeline(case, ctx):
    sc = case
    res = pipeline.run_case(sc, ctx)
    try:
        if res.code != 0 or not res.path("read_assignments.tsv"):
            ctx.note("crash:" + res.crash_signature())
            return
        recs, kept, bed = summarize_run(res)
        n_records = defaultdict(int)
        for r in sc["reads"]:
            n_records[r["n"]] += 1
        nt = False
        for rid, ks in kept.items():
            types = [k[3] for k in ks]
            loci = set((k[0], k[1]) for k in ks)
            if len(loci) > 1:
                nt = True
                # several loci kept: all must be of the same priority class and flagged ambiguous
                cls = set("c" if t in CONSISTENT else "i" if t in INCONSISTENT else "n" for t in types)
                if len(cls) > 1:
                    ctx.violation("C08:pipeline:kept-loci-of-different-classes", {"read": rid, "kept": sorted(ks)},
                                  case)
                isos = set(i for k in ks for i in k[2] if i != ".")
                if len(isos) > 1 and any(t not in ("ambiguous", "inconsistent_ambiguous") for t in types):
                    ctx.violation("C08:pipeline:tied-read-not-flagged-ambiguous", {"read": rid, "kept": sorted(ks)},
                                  case)
                if cls == {"n"}:
                    ctx.violation("C08:pipeline:several-uninformative-loci-kept", {"read": rid}, case)
            # BED agrees with TSV on which alignments survive
            b = bed.get(rid, set())
            t_loci = set((k[0], int(k[1].split("-")[0]) - 1, int(k[1].rsplit("-", 1)[1])) for k in ks)
            if set((c, s, e) for c, s, e in b) != t_loci:
                # corrected ends may move under some strategies: compare chromosomes + counts
                if sorted(x[0] for x in b) != sorted(x[0] for x in t_loci):
                    ctx.violation("C08:pipeline:bed-and-tsv-keep-different-alignments",
                                  {"read": rid, "bed": sorted(b), "tsv": sorted(t_loci)}, case)
        mr = res.path("transcript_model_reads.tsv")
        # losers contribute nothing to tables: recount with the C02 model (multi-locus signature shared with C02)
        for level, path, opt in (("transcript", res.path("transcript_counts.tsv"), "--transcript_quantification"),
                                 ("gene", res.path("gene_counts.tsv"), "--gene_quantification")):
            strategy = sc["opts"][sc["opts"].index(opt) + 1]
            exp, specials, contrib, multi = counting.expected_counts(recs, level, strategy)
            table = parse.counts_simple(path)
            per_read_total = defaultdict(float)
            # the recorded defect, exactly: every record of a multi-locus read is counted as if it were a read of its own
            alt = defaultdict(float)
            for key_, rws_ in recs.items():
                if level == "transcript":
                    feats_ = set(r["isoform"] for r in rws_ if r["isoform"] != ".")
                    at_ = rws_[0]["type"]
                else:
                    feats_ = set(r["gene"] for r in rws_ if r["gene"] != ".")
                    at_ = rws_[0]["info"].get("gene_assignment", rws_[0]["type"])
                w_ = counting.weight(at_, len(feats_), strategy)
                for f_ in feats_:
                    alt[f_] += w_
            for f, v in table.items():
                if f.startswith("__"):
                    continue
                e = exp.get((f, "NA"), 0.0)
                if v != 0 and v > e + 0.005 + 1e-9:
                    known_ml = any(f in contrib[r][1] for r in multi) and abs(v - alt.get(f, 0.0)) <= 0.005 + 1e-9
                    sig = "C08:pipeline:read-counted-more-than-once:" + level if known_ml else \
                        "C08:pipeline:count-exceeds-reported-assignments:" + level
                    ctx.violation(sig, {"feature": f, "table": v, "expected": round(e, 3), "strategy": strategy}, case)
        # high-memory mode uses a different resolution path: must keep the same alignments
        res2 = pipeline.run_case(sc, ctx, extra=["--high_memory"], d=os.path.join(res.dir, "hm"))
        if res2.code == 0 and res2.path("read_assignments.tsv"):
            _, kept2, _ = summarize_run(res2)
            if kept2 != kept:
                diff = [r for r in set(kept) | set(kept2) if kept.get(r) != kept2.get(r)][:3]
                ctx.violation("C08:pipeline:memory-modes-keep-different-alignments",
                              {"reads": diff, "default": [sorted(kept.get(r, [])) for r in diff],
                               "high_memory": [sorted(kept2.get(r, [])) for r in diff]}, case)
        else:
            ctx.note("crash_hm:" + res2.crash_signature())
        # permuted presentation: other chromosome processing order, other tie order of equal-position records
        sc3 = copy.deepcopy(sc)
        for c, bump in zip(sc3["chroms"], sc["len_bump"]):
            c[1] += bump
        d3 = os.path.join(res.dir, "perm")
        genome3 = build.make_genome(sc3)
        os.makedirs(os.path.join(d3, "in"), exist_ok=True)
        fa = os.path.join(d3, "in", "genome.fa")
        order = [c[0] for c in reversed(sc3["chroms"])]
        build.write_fasta(genome3, fa, order)
        gp = os.path.join(d3, "in", "annot.gtf")
        build.write_gtf(sc3, gp)
        import random
        rnd = random.Random(sc["tie_seed"])
        tie = {i: rnd.random() for i in range(len(sc3["reads"]))}
        bams = build.write_bams(sc3, genome3, os.path.join(d3, "in"), order=lambda k, r: tie[k])
        paths3 = {"fasta": fa, "gtf": gp, "bams": bams, "genome": genome3}
        res3 = pipeline.run_case(sc3, ctx, d=d3, paths=paths3)
        if res3.code == 0 and res3.path("read_assignments.tsv"):
            _, kept3, _ = summarize_run(res3)
            if kept3 != kept:
                diff = [r for r in set(kept) | set(kept3) if kept.get(r) != kept3.get(r)][:3]
                cls = set()
                for r in diff:
                    for k in list(kept.get(r, [])) + list(kept3.get(r, [])):
                        cls.add("consistent" if k[3] in CONSISTENT else "inconsistent" if k[3] in INCONSISTENT
                                else "uninformative")
                ctx.violation("C08:pipeline:retained-alignments-depend-on-order:" + "+".join(sorted(cls)),
                              {"reads": diff, "first": [sorted(kept.get(r, [])) for r in diff],
                               "permuted": [sorted(kept3.get(r, [])) for r in diff]}, case)
        else:
            ctx.note("crash_perm:" + res3.crash_signature())
        # "suppressed everywhere": the same input without the alignments that lost gives the same outputs (assignments,
        # BED, counts and - when models are built - transcript models)
        losers = [r for r in sc["reads"] if r.get("c") is not None and not (r["f"] & 2048) and n_records[r["n"]] > 1 and
                  not any(k[0] == r["c"] and int(k[1].split("-")[0]) == R.cigar_blocks(r["p"], r["cg"])[0][0] and
                          int(k[1].rsplit("-", 1)[1]) == R.cigar_blocks(r["p"], r["cg"])[-1][1]
                          for k in kept.get(r["n"], ()))]
        winners_named = set(r["n"] for r in losers) & set(kept)
        if losers and winners_named and "--no_model_construction" not in sc["opts"]:
            sc4 = copy.deepcopy(sc)
            lose = set(id(r) for r in losers)
            sc4["reads"] = [r2 for r, r2 in zip(sc["reads"], sc4["reads"]) if id(r) not in lose]
            res4 = pipeline.run_case(sc4, ctx, d=os.path.join(res.dir, "nolosers"))
            if res4.code == 0 and res4.path("read_assignments.tsv"):
                ctx.cls("losers_removed_compared")
                for kind, f, det in compare.diff_dirs(res.out, "OUT", res4.out, "OUT", multiset=True):
                    ctx.violation("C08:pipeline:losing-alignment-changes-output:" + f,
                                  {"kind": kind, "file": f, "detail": det, "n_losers": len(losers)}, case)
            else:
                ctx.note("crash_nolosers:" + res4.crash_signature())
        ctx.cls("multi-locus-kept" if nt else "single-locus-only")
        if nt or any(v > 1 for v in n_records.values()):
            ctx.mark_nontrivial(case_hash(case))
            ctx.sample(pipeline.summarize(sc, {"reads_with_several_records": sum(1 for v in n_records.values() if v > 1)}),
                       limit=2)
    finally:
        res.cleanup()


def stages(tier):
    q = tier == "quick"
    return [Stage("resolver", "hyp", eval_resolver, n=48000 if q else 2000000, strategy=record_lists),
            Stage("pipeline", "hyp", eval_pipeline, n=128 if q else 3000, strategy=paralog_scenarios)]
