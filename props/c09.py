"""C09 - grouped tables partition the ungrouped ones; matrix and linear formats agree."""
import gzip
import os
from collections import defaultdict

from hypothesis import strategies as st

from vlib import build, parse, pipeline, scenario as S, reads as R
from vlib.refmodel import counting
from vlib.shard import Stage, case_hash

ID = "C09"
LEVEL = "exploration"
TECHNIQUE = "property-based testing (Hypothesis): generated group assignments under all four --read_group modes x " \
            "counts formats x thread counts x 16 interpreter hash seeds; per-group recount and matrix/linear " \
            "differential"
RULE = ("Hypothesis-generated scenarios: 1-3 chromosomes, 1-8 groups whose names sort differently from insertion "
        "order, reads lacking tag / delimiter / table row, groups absent from a chromosome; modes file_name (2-4 "
        "BAMs, optional labels), tag:RG/CB, read_id:<delim>, file:<tsv[.gz]>[:cols:delim]; --counts_format "
        "matrix/linear/both; every shard worker runs under its own PYTHONHASHSEED. Non-trivial = >=3 groups, >=1 "
        "ungroupable read and >=2 chromosomes with reads; distinct by scenario hash. Half of the runs build "
        "transcript models (their grouped tables are checked too).")
ASSUMPTIONS = ["group of a read per docs/cmd.md; a read without tag/delimiter/table row belongs to NA",
               "a feature zeroed as unconfirmed is zeroed in all groups (whole-feature rule of C02)"]

GROUP_POOL = ["b", "a", "zeta", "Alpha", "10", "9", "g_1", "NEU", "ctrl", "B2", "x",
              # names that contain words of the table headers
              "count_A", "discount", "TPM1"]


@st.composite
def scenarios(draw):
    src = S.DrawSrc(draw)
    sc = S.gen_annotation(src, n_chroms=(1, 3), genes_per_chrom=(1, 2), iso_per_gene=(1, 3), sep=40, max_exons=5)
    dt = src.choice(["nanopore", "pacbio_ccs"])
    delta = S.DELTAS[S.DATA_DEFAULT_STRATEGY[dt]]
    mode = src.choice(["tag", "read_id", "file", "file_name"])
    ng = src.int(1, 8)
    groups = src.shuffle(GROUP_POOL + (["gr\u00fcn", "\u03b2-cells"] if mode == "file" else []))[:ng]
    nfiles = 1
    if mode == "file_name":
        nfiles = src.int(2, 4)
        groups = groups[:nfiles] if len(groups) >= nfiles else (groups + ["f1", "f2", "f3", "f4"])[:nfiles]
    sc["nfiles"] = nfiles
    delim = src.choice(["_", "@", "-", "__"]) if mode == "read_id" else None
    # HP: integer-typed tag (haplotagging tools write HP:i:<n>); its groups are the numbers as text
    tag = src.choice(["RG", "CB", "HP"]) if mode == "tag" else None
    if tag == "HP":
        groups = [str(i + 1) for i in range(len(groups))]
    k = 0
    table = {}
    truth = {}
    reads = []
    for g, t in S.transcripts_of(sc):
        for _ in range(src.int(1, 6)):
            k += 1
            grp = src.choice(groups)
            ungroupable = src.bool(0.15) and mode != "file_name"
            name = "r%d" % k
            if mode == "read_id":
                name = ("m%d%sx%d" % (k, delim, k) + delim + grp) if not ungroupable else "m%dq" % k
            r, _t = S.read_from_chain(src, name, g["chr"], g["strand"], t["exons"], delta=delta, trunc_p=0.4)
            if mode == "tag" and not ungroupable:
                r["tags"] = {tag: int(grp) if tag == "HP" else grp}
            elif mode == "tag" and src.bool(0.5):
                r["tags"] = {"XX": grp}
            if mode == "file" and not ungroupable:
                table[name] = grp
            if mode == "file_name":
                r["file"] = groups.index(grp)
            truth[name] = "NA" if ungroupable else (grp if mode != "read_id" else name.split(delim)[-1])
            reads.append(r)
    # chimeric reads: a supplementary record of the same read id on another chromosome (never counted itself, but
    # seen by everything that scans the BAM by read id, e.g. the per-chromosome split of a group table)
    if len(sc["chroms"]) > 1:
        for r in list(reads):
            if src.bool(0.25):
                other = src.choice([c for c in sc["chroms"] if c[0] != r["c"]])
                p0 = src.int(50, max(51, other[1] - 400))
                sup = R.make_read(r["n"], other[0], [[p0, p0 + src.int(60, 200)]], flag=2048 | (r["f"] & 16), mapq=60)
                sup["file"] = r.get("file", 0)
                if r.get("tags"):
                    sup["tags"] = dict(r["tags"])
                reads.append(sup)
    for _ in range(src.int(0, 2)):
        k += 1
        r = S.intergenic_read(src, sc, "i%d" % k if mode != "read_id" else "i%d%sNEU" % (k, delim))
        if r is not None:
            reads.append(r)
    lens = {c[0]: c[1] for c in sc["chroms"]}
    sc["reads"] = [r for r in reads if R.cigar_blocks(r["p"], r["cg"])[-1][1] + 45 < lens[r["c"]]]
    if mode == "file_name":
        # every file needs at least one record to be a valid indexed BAM with content; empty files are fine too
        sc["labels"] = groups if src.bool(0.6) else None
        sc["file_names"] = ["%s.bam" % (x if not sc["labels"] else "lib%d" % i) for i, x in enumerate(groups)]
    fmt = src.choice(["matrix", "linear", "both", None])
    tq, gq = src.choice(counting.STRATEGIES), src.choice(counting.STRATEGIES)
    sc["opts"] = ["--data_type", dt, "--no_gzip", "--threads", str(src.choice([1, 2, 3])),
                  "--transcript_quantification", tq, "--gene_quantification", gq]
    # output prefix: words that also occur in the names of the output files
    sc["prefix"] = src.choice(["OUT", "OUT", "OUT", "linear", "grouped", "counts", "t", "sample_1", "tsv"])
    if sc["prefix"] != "OUT":
        sc["opts"] += ["--prefix", sc["prefix"]]
    if src.bool(0.5):
        sc["opts"] += ["--no_model_construction"]
    if fmt:
        sc["opts"] += ["--counts_format", fmt]
    sc["fmt"] = fmt or "both"
    sc["mode"], sc["delim"], sc["tag"], sc["table"], sc["truth"] = mode, delim, tag, table, truth
    sc["table_form"] = {"gz": src.bool(0.3), "custom": src.bool(0.4),
                        # file:<table>:<read column> - the other two fields keep their defaults (group column 1, tab)
                        "read_col_only": src.bool(0.25)} if mode == "file" else None
    sc["groups"] = groups
    sc["tq"], sc["gq"] = tq, gq
    # the files of the experiment given in a YAML file, with paths relative to it
    if mode == "file_name" and src.bool(0.5):
        sc["yaml_input"] = src.choice(["plain", "dot", "updown", "mixed", "absolute"])
    return sc


def expected_group(sc, name):
    if sc["mode"] == "file_name":
        return None
    return sc["truth"].get(name, "NA" if sc["mode"] != "read_id" else name.split(sc["delim"])[-1]
                           if sc["delim"] in name else "NA")


def multi_locus_reads(records):
    seen = defaultdict(set)
    for k_ in records:
        seen[k_[0]].add(k_[1:])
    return any(len(v) > 1 for v in seen.values())


def evaluate(case, ctx):
    sc = dict(case)
    hs = os.environ.get("PYTHONHASHSEED", "0")
    case = dict(case)
    case["_hashseed"] = hs
    d = ctx.scratch()
    paths = build.materialise(sc, os.path.join(d, "in"))
    mode = sc["mode"]
    if mode == "tag":
        rg = "tag:" + sc["tag"]
    elif mode == "read_id":
        rg = "read_id:" + sc["delim"]
    elif mode == "file_name":
        rg = "file_name"
    else:
        tf = sc["table_form"]
        tp = os.path.join(d, "in", "groups.tsv" + (".gz" if tf["gz"] else ""))
        op = gzip.open(tp, "wt") if tf["gz"] else open(tp, "w")
        with op as f:
            f.write("# read groups\n")
            for n, g in sc["table"].items():
                if tf.get("read_col_only"):
                    f.write("x\t%s\t%s\n" % (g, n))
                elif tf["custom"]:
                    f.write("x,%s,%s\n" % (g, n))
                else:
                    f.write("%s\t%s\n" % (n, g))
        rg = "file:" + tp + (":2" if tf.get("read_col_only") else ":2:1:," if tf["custom"] else "")
    res = pipeline.run_case(sc, ctx, extra=["--read_group", rg], d=d, paths=paths)
    try:
        if res.code != 0:
            ctx.violation("C09:run-aborted:%s:%s" % (mode, res.crash_signature().split("@")[0]),
                          {"exit": res.code, "log": res.log_tail(12)}, case)
            return
        tsvp = res.path("read_assignments.tsv", prefix=sc.get("prefix", "OUT"))
        rows = parse.read_assignments(tsvp)
        records = parse.records_of(rows)
        file_of = {}
        if mode == "file_name":
            labels = sc.get("labels")
            for r in sc["reads"]:
                fi = r.get("file", 0)
                file_of[r["n"]] = labels[fi] if labels else os.path.splitext(sc["file_names"][fi])[0]

        def group_of(rid):
            if mode == "file_name":
                return file_of.get(rid, "NA")
            if rid in sc["truth"]:
                return sc["truth"][rid]
            if mode == "read_id":
                return rid.split(sc["delim"])[-1] if sc["delim"] in rid else "NA"
            return "NA"
        fmt = sc["fmt"]
        n_groups_seen = set()
        for level, strategy in (("transcript", sc["tq"]), ("gene", sc["gq"])):
            exp, specials, contrib, multi = counting.expected_counts(records, level, strategy, group_of)
            ung = parse.counts_simple(res.path("%s_counts.tsv" % level, prefix=sc.get("prefix", "OUT")))
            mp = res.path("%s_grouped_counts.tsv" % level, prefix=sc.get("prefix", "OUT"))
            lp = res.path("%s_grouped_counts_linear.tsv" % level, prefix=sc.get("prefix", "OUT"))
            cells_m = cells_l = None
            if fmt in ("matrix", "both"):
                if not mp:
                    ctx.violation("C09:matrix-table-missing", {"level": level}, case)
                    continue
                groups, mat = parse.counts_matrix(mp)
                if groups is None:
                    if mat:
                        ctx.violation("C09:matrix-without-header", {"level": level}, case)
                    groups = []
                cells_m = {}
                for f, vals in mat.items():
                    if len(vals) != len(groups):
                        ctx.violation("C09:matrix-row-width-differs-from-header", {"level": level, "feature": f}, case)
                        continue
                    for g, v in zip(groups, vals):
                        cells_m[(f, g)] = v
                if len(set(groups)) != len(groups):
                    ctx.violation("C09:duplicate-group-column", {"level": level, "groups": groups}, case)
            if fmt in ("linear", "both"):
                if not lp:
                    ctx.violation("C09:linear-table-missing", {"level": level}, case)
                    continue
                cells_l = {}
                for f, g, v in parse.counts_linear(lp):
                    if (f, g) in cells_l:
                        ctx.violation("C09:linear-duplicate-cell", {"level": level, "feature": f, "group": g}, case)
                    cells_l[(f, g)] = cells_l.get((f, g), 0.0) + v
            # matrix vs linear
            if cells_m is not None and cells_l is not None:
                for key in set(cells_m) | set(cells_l):
                    a, b = cells_m.get(key, 0.0), cells_l.get(key, 0.0)
                    if abs(a - b) > 1e-9:
                        ctx.violation("C09:matrix-and-linear-disagree:" + level,
                                      {"cell": key, "matrix": a, "linear": b, "hashseed": hs}, case)
            for name, cells in (("matrix", cells_m), ("linear", cells_l)):
                if cells is None:
                    continue
                by_feat = defaultdict(dict)
                for (f, g), v in cells.items():
                    by_feat[f][g] = v
                    if v:
                        n_groups_seen.add(g)
                feats = set(by_feat) | set(f for f, _ in exp)
                for f in feats:
                    row = by_feat.get(f, {})
                    erow = {g: v for (ff, g), v in exp.items() if ff == f and v > 0}
                    zeroed = all(v == 0 for v in row.values())
                    tol = 0.005 + 1e-9
                    if not zeroed:
                        for g in set(row) | set(erow):
                            if abs(row.get(g, 0.0) - erow.get(g, 0.0)) > tol:
                                known_ml = any(f in contrib[r][1] for r in multi)
                                sig = "C09:%s-cell-differs-from-group-recount:%s" % (name, level)
                                if known_ml:
                                    sig = "C09:multi-locus-read:%s" % level
                                ctx.violation(sig, {"feature": f, "group": g, "table": row.get(g, 0.0),
                                                    "expected": round(erow.get(g, 0.0), 4), "mode": mode,
                                                    "hashseed": hs}, case)
                    # partition of the ungrouped table
                    tot = sum(row.values())
                    u = ung.get(f, 0.0)
                    if abs(tot - u) > 0.005 * max(1, len(row)) + 1e-9 and not (f.startswith("__")):
                        ctx.violation("C09:%s-groups-do-not-sum-to-ungrouped:%s" % (name, level),
                                      {"feature": f, "sum": tot, "ungrouped": u, "row": row}, case)
            # grouped TPM: each column rescales its own column
            tpmp = res.path("%s_grouped_tpm.tsv" % level, prefix=sc.get("prefix", "OUT"))
            if tpmp and cells_m is not None and mp:
                g2, tm = parse.counts_matrix(tpmp)
                if g2 is not None and groups and g2 != groups:
                    ctx.violation("C09:grouped-tpm-header-differs-from-the-count-table",
                                  {"level": level, "counts": groups, "tpm": g2}, case)
                if g2 is not None and groups and g2 == groups:
                    for j, g in enumerate(groups):
                        col = sum(cells_m.get((f, g), 0.0) for f in mat)
                        for f, vals in tm.items():
                            e = 1e6 * cells_m.get((f, g), 0.0) / col if col > 0 else 0.0
                            if abs(vals[j] - e) > 1e-5 * max(1.0, e):
                                ctx.violation("C09:grouped-tpm-not-a-rescaling", {"feature": f, "group": g,
                                                                                  "tpm": vals[j], "expected": e}, case)
        # transcript models: the grouped table partitions the ungrouped one, matrix and linear agree, and a read that
        # supports exactly one model counts 1 in the column of its group
        pref = sc.get("prefix", "OUT")
        ump = res.path("transcript_model_counts.tsv", prefix=pref)
        if ump:
            ung = {f: v for f, v in parse.counts_simple(ump).items() if not f.startswith("__")}
            mp = res.path("transcript_model_grouped_counts.tsv", prefix=pref)
            lp = res.path("transcript_model_grouped_counts_linear.tsv", prefix=pref)
            tables = {}
            if fmt in ("matrix", "both") and mp:
                groups, mat = parse.counts_matrix(mp)
                tables["matrix"] = {(f, g): v for f, vals in mat.items() for g, v in zip(groups or [], vals)}
            elif fmt in ("matrix", "both") and sum(ung.values()) > 0:
                ctx.violation("C09:matrix-table-missing", {"level": "transcript_model"}, case)
            if fmt in ("linear", "both") and lp:
                tables["linear"] = {}
                for f, g, v in parse.counts_linear(lp):
                    tables["linear"][(f, g)] = tables["linear"].get((f, g), 0.0) + v
            if len(tables) == 2:
                for key in set(tables["matrix"]) | set(tables["linear"]):
                    a, b = tables["matrix"].get(key, 0.0), tables["linear"].get(key, 0.0)
                    if abs(a - b) > 1e-9:
                        ctx.violation("C09:matrix-and-linear-disagree:transcript_model",
                                      {"cell": key, "matrix": a, "linear": b}, case)
            mrp = res.path("transcript_model_reads.tsv", prefix=pref)
            sole = defaultdict(float)
            model_exp = defaultdict(float)
            if mrp:
                per_read = defaultdict(set)
                for rid, tid in parse.model_reads(mrp):
                    if tid not in ("*", "."):
                        per_read[rid].add(tid)
                for rid, tids in per_read.items():
                    if len(tids) == 1:
                        sole[(next(iter(tids)), group_of(rid))] += 1.0
                    # a read that supports n models weighs 1 (n = 1) or what the transcript strategy gives an ambiguous
                    # read with n features, in the column of its own group
                    w_ = 1.0 if len(tids) == 1 else counting.weight("ambiguous", len(tids), sc["tq"])
                    for tid in tids:
                        model_exp[(tid, group_of(rid))] += w_
            for name, cells in tables.items():
                rows_ = defaultdict(dict)
                for (f, g), v in cells.items():
                    rows_[f][g] = v
                for f in set(rows_) | set(ung):
                    tot = sum(rows_.get(f, {}).values())
                    if abs(tot - ung.get(f, 0.0)) > 0.005 * max(1, len(rows_.get(f, {}))) + 1e-9:
                        ctx.violation("C09:%s-groups-do-not-sum-to-ungrouped:transcript_model" % name,
                                      {"feature": f, "sum": tot, "ungrouped": ung.get(f, 0.0),
                                       "row": rows_.get(f, {})}, case)
                if "--transcript_quantification" in sc["opts"] and not multi_locus_reads(records):
                    for (f, g) in set(model_exp) | set(cells):
                        if ung.get(f, 0.0) > 0 and abs(cells.get((f, g), 0.0) - model_exp.get((f, g), 0.0)) > 0.0051 * max(
                                1, sum(1 for k_ in model_exp if k_[0] == f)):
                            ctx.violation("C09:%s-cell-differs-from-the-reads-of-the-group:transcript_model" % name,
                                          {"feature": f, "group": g, "table": cells.get((f, g), 0.0),
                                           "expected": round(model_exp.get((f, g), 0.0), 4)}, case)
                            break
                    for (f, g), v in sole.items():
                        if ung.get(f, 0.0) > 0 and cells.get((f, g), 0.0) + 0.005 < v:
                            ctx.violation("C09:%s-cell-below-the-reads-of-the-group:transcript_model" % name,
                                          {"feature": f, "group": g, "table": cells.get((f, g), 0.0),
                                           "reads_supporting_only_this_model": v}, case)
        ungroupable = sum(1 for k_ in records if group_of(k_[0]) == "NA")
        chroms = set(k_[1] for k_ in records)
        ctx.cls("mode=" + mode, "fmt=" + fmt)
        if len(n_groups_seen) >= 3 and ungroupable >= 1 and len(chroms) >= 2:
            ctx.mark_nontrivial(case_hash(case))
            ctx.sample(pipeline.summarize(sc, {"mode": mode, "read_group": rg if mode != "file" else "file:...",
                                               "groups": sc["groups"], "hashseed": hs}))
        elif len(n_groups_seen) >= 3 and len(chroms) >= 2 and mode == "file_name":
            ctx.mark_nontrivial(case_hash(case))
    finally:
        res.cleanup()


def stages(tier):
    q = tier == "quick"
    return [Stage("groups", "hyp", evaluate, n=288 if q else 4000, strategy=scenarios, vary_hashseed=True)]
