"""C17 - identifiers in the outputs are unique, collision-free and functional."""
import os

from hypothesis import strategies as st

from vlib import parse, pipeline, scenario as S
from vlib.refmodel import gtfcheck
from vlib.shard import Stage, case_hash

ID = "C17"
LEVEL = "exploration"
TECHNIQUE = "property-based testing: generated multi-chromosome discovery scenarios (Hypothesis), output-only " \
            "oracle over both GTFs; two-step history feeding IsoQuant's own annotation back as --genedb"
RULE = ("Hypothesis-generated scenarios (1-3 chromosomes, annotated + unannotated isoforms sharing exons, optional "
        "reference exon_id attributes / IsoQuant-style reference ids), full pipeline run; stage 'feedback' runs a "
        "second generation on the first run's extended annotation. Non-trivial = some exon printed >= 2 times and "
        ">= 1 novel transcript reported; distinct by scenario hash.")
ASSUMPTIONS = ["exon identity is (chromosome, start, end, strand) as in the statement",
               "reads are synthetic alignments written with pysam; no aligner involved"]


def _scenario(draw, feedback=False):
    src = S.DrawSrc(draw)
    sc = S.gen_discovery(src, n_chroms=(1, 3), genes_per_chrom=(1, 2), novel_per_gene=(1, 3), reads_known=(0, 4),
                         reads_novel=(3, 6), intergenic_p=0.5, max_exons=5)
    fl = sc["gtf"]
    fl["exon_ids"] = src.bool(0.4)
    if fl["exon_ids"]:
        fl["exon_id_fmt"] = src.choice(["E%d", "%d", "{chr}.%d", "ENSE%05d"])
    if src.bool(0.4):
        # reference ids that imitate IsoQuant's own
        n = 0
        for g in sc["genes"]:
            if src.bool(0.5):
                g["id"] = "novel_gene_%s_%d" % (g["chr"], src.int(1, 4))
            for t in g["transcripts"]:
                if src.bool(0.5):
                    n += 1
                    t["id"] = "transcript%d.%s.%s" % (src.int(1, 6), g["chr"], src.choice(["nic", "nnic"]))
        # keep ids unique in the reference itself (a GTF with duplicate ids is not a valid input)
        seen_t, seen_g = set(), {}
        for g in sc["genes"]:
            while g["id"] in seen_g:
                g["id"] += "x"
            seen_g[g["id"]] = 1
            for t in g["transcripts"]:
                while t["id"] in seen_t:
                    t["id"] = t["id"].replace(".", "9.", 1) if "." in t["id"] else t["id"] + "9"
                seen_t.add(t["id"])
    sc["opts"] = ["--data_type", src.choice(["nanopore", "pacbio_ccs"]), "--no_gzip", "--threads",
                  str(src.choice([1, 1, 2])), "--model_construction_strategy", src.choice(["default_ont", "default_pacbio", "sensitive_pacbio", "all"])]
    sc.pop("truth", None)
    return sc


@st.composite
def scenarios(draw):
    return _scenario(draw)


def ref_exon_ids_of(gtf_path):
    g = parse.gtf(gtf_path)
    out = {}
    for rec in g["lines"]:
        if rec["type"] == "exon" and "exon_id" in rec["attrs"]:
            out[(rec["chr"], rec["start"], rec["end"], rec["strand"])] = rec["attrs"]["exon_id"]
    return out


def _check_outputs(res, sc, ref_ids, ctx, case, tag=""):
    mg = res.path("transcript_models.gtf")
    eg = res.path("extended_annotation.gtf")
    if res.code != 0 or not mg:
        ctx.note("crashed_or_no_output" + tag)
        return None
    gt = {"transcript_models": parse.gtf(mg)}
    if eg:
        gt["extended_annotation"] = parse.gtf(eg)
    for sig, det in gtfcheck.check_ids(gt, sc, ref_ids):
        ctx.violation(sig + tag, det, case)
    # classification
    novel = [t for t in gt["transcript_models"]["transcripts"] if t not in gtfcheck.ref_table(sc)]
    seen = {}
    repeated = False
    for g in gt.values():
        for rec in g["lines"]:
            if rec["type"] == "exon":
                k = (rec["chr"], rec["start"], rec["end"], rec["strand"])
                seen[k] = seen.get(k, 0) + 1
                if seen[k] > 1:
                    repeated = True
    chrs = set(rec["chr"] for rec in gt["transcript_models"]["lines"])
    ctx.cls("novel>0" if novel else "novel=0", "chroms_with_output=%d" % len(chrs))
    return {"novel": len(novel), "repeated": repeated, "chroms": len(chrs), "eg": eg}


def evaluate(case, ctx):
    sc = case
    res = pipeline.run_case(sc, ctx)
    try:
        ref_ids = ref_exon_ids_of(res.paths["gtf"]) if (sc["gtf"].get("exon_ids")) else None
        info = _check_outputs(res, sc, ref_ids, ctx, case)
        if info and info["novel"] and info["repeated"]:
            ctx.mark_nontrivial(case_hash(case))
            ctx.sample(pipeline.summarize(sc, {"novel_reported": info["novel"]}))
    finally:
        res.cleanup()


def evaluate_feedback(case, ctx):
    """History of two runs: the extended annotation of run 1 is the reference of run 2."""
    sc = case
    res = pipeline.run_case(sc, ctx)
    try:
        info = _check_outputs(res, sc, None, ctx, case, tag="")
        if not info or not info["eg"]:
            return
        # second generation: reads of further unannotated isoforms -- reuse the same reads with a shifted subset:
        # keep reads of every second novel chain out of run 1 by splitting the read set in two halves by name parity
        g1 = parse.gtf(info["eg"])
        sc2 = dict(sc)
        sc2["genes"] = []
        tt = gtfcheck.transcript_table(g1)
        by_gene = {}
        for tid, t in tt.items():
            by_gene.setdefault(t["gene"], []).append((tid, t))
        ok = True
        for gid, lst in by_gene.items():
            trs = []
            for tid, t in lst:
                eids = [r["attrs"].get("exon_id") for r in sorted(t["exon_recs"], key=lambda r: r["start"])]
                trs.append({"id": tid, "exons": [list(e) for e in t["exons"]], "exon_ids": eids})
            strands = set(t["strand"] for _, t in lst)
            if len(strands) != 1:
                ok = False
            sc2["genes"].append({"id": gid, "chr": lst[0][1]["chr"], "strand": lst[0][1]["strand"],
                                 "transcripts": trs})
        if not ok:
            ctx.note("feedback_skipped_mixed_strand_gene")
            return
        sc2["gtf"] = {"gene_records": True, "transcript_records": True, "exon_ids": True}
        sc2["reads"] = sc["reads2"]
        sc2["overrides"] = sc["overrides"]
        d2 = os.path.join(res.dir, "second")
        res2 = pipeline.run_case(sc2, ctx, d=d2)
        ref_ids = ref_exon_ids_of(res2.paths["gtf"])
        info2 = _check_outputs(res2, sc2, ref_ids, ctx, case, tag="")
        if info2 and info2["novel"]:
            ctx.mark_nontrivial(case_hash(case))
            ctx.cls("feedback_novel>0")
            ctx.sample(pipeline.summarize(sc, {"second_run_novel": info2["novel"], "first_run_novel": info["novel"]}))
    finally:
        res.cleanup()


@st.composite
def feedback_scenarios(draw):
    sc = _scenario(draw)
    src = S.DrawSrc(draw)
    # second-generation reads: further unannotated isoforms of the same genes + a new intergenic gene
    reads2 = []
    k = 0
    genes = sc["genes"]
    for g in genes:
        for ex in S.novel_chains(src, sc, g, k=2):
            S.add_canon(sc, g["chr"], ex, g["strand"])
            for _ in range(src.int(3, 6)):
                k += 1
                reads2.append(S.exact_read("s%d" % k, g["chr"], g["strand"], ex, polya=25))
    sc["reads2"] = reads2 or list(sc["reads"])
    sc["gtf"]["exon_ids"] = False
    return sc


def stages(tier):
    q = tier == "quick"
    return [Stage("ids", "hyp", evaluate, n=160 if q else 2400, strategy=scenarios),
            Stage("feedback", "hyp", evaluate_feedback, n=64 if q else 800, strategy=feedback_scenarios)]
