"""C17 - identifiers in the outputs are unique, collision-free and functional."""
import os

from hypothesis import strategies as st

from vlib import build, parse, pipeline, scenario as S
from vlib.refmodel import gtfcheck
from vlib.shard import Stage, case_hash

ID = "C17"
LEVEL = "exploration"
TECHNIQUE = "property-based testing: generated multi-chromosome discovery scenarios (Hypothesis), output-only " \
            "oracle over both GTFs; two-step history feeding IsoQuant's own annotation back as --genedb; the id " \
            "distributors in isolation (Hypothesis and coverage-guided via atheris) against a string-level oracle"
RULE = ("Hypothesis-generated scenarios (1-3 chromosomes, annotated + unannotated isoforms sharing exons, optional "
        "reference exon_id attributes / IsoQuant-style reference ids), full pipeline run; stage 'feedback' runs a "
        "second generation on the first run's extended annotation. Non-trivial = some exon printed >= 2 times and "
        ">= 1 novel transcript reported; distinct by scenario hash. Stages distributor / fuzz_distributor: generated "
        "reference id strings (IsoQuant-like and near-miss shapes, contig names with '.', '_', '-', numbers 1-12) in "
        "a real in-memory gffutils database, 1-25 increments of ExcludingIdDistributor and 1-25 get_id requests to "
        "FeatureIdStorage; the ids IsoQuant forms from each number must not occur in the reference, exon ids must be "
        "a preserved/injective function; non-trivial = reference has IsoQuant-shaped ids and exon ids on that contig.")
ASSUMPTIONS = ["exon identity is (chromosome, start, end, strand) as in the statement",
               "reads are synthetic alignments written with pysam; no aligner involved"]


def _scenario(draw, feedback=False):
    src = S.DrawSrc(draw)
    if not feedback and src.bool(0.1):
        # a gene whose reads form two separate clusters, with another gene's cluster between them
        sc = S.gen_islands_locus(src, nested=src.bool(0.8))
        sc["gtf"]["exon_ids"] = src.bool(0.4)
        sc["opts"] = ["--data_type", src.choice(["nanopore", "pacbio_ccs"]), "--no_gzip", "--threads",
                      str(src.choice([1, 1, 2]))]
        return sc
    sc = S.gen_discovery(src, n_chroms=(1, 3), genes_per_chrom=(1, 2), novel_per_gene=(1, 3), reads_known=(0, 4),
                         reads_novel=(3, 6), intergenic_p=0.5, max_exons=5)
    fl = sc["gtf"]
    fl["exon_ids"] = src.bool(0.4)
    if fl["exon_ids"]:
        fl["exon_id_fmt"] = src.choice(["E%d", "%d", "{chr}.%d", "ENSE%05d"])
        if src.bool(0.4):
            # GENCODE style: per-transcript ids for exons with the same coordinates, CDS records repeating the exon's id
            fl["exon_ids_per_transcript"] = True
            fl["cds"] = True
            fl["cds_exon_ids"] = True
    if src.bool(0.4):
        # reference ids that imitate IsoQuant's own
        n = 0
        for g in sc["genes"]:
            if src.bool(0.5):
                g["id"] = "novel_gene_%s_%d" % (g["chr"], src.int(1, 4))
            for t in g["transcripts"]:
                if src.bool(0.5):
                    n += 1
                    t["id"] = "transcript%d.%s.%s" % (src.int(1, 6), g["chr"], src.choice(["nic", "nnic"]))
        # keep ids unique in the reference itself (a GTF with duplicate ids is not a valid input)
        seen_t, seen_g = set(), {}
        for g in sc["genes"]:
            while g["id"] in seen_g:
                g["id"] += "x"
            seen_g[g["id"]] = 1
            for t in g["transcripts"]:
                while t["id"] in seen_t:
                    t["id"] = t["id"].replace(".", "9.", 1) if "." in t["id"] else t["id"] + "9"
                seen_t.add(t["id"])
    if src.bool(0.3) and len(sc["chroms"]) < len(S.CHROM_NAMES):
        # a copy of one gene (and of its reads) at the very same coordinates of another contig: exons that differ in
        # nothing but the contig
        g = src.choice(sc["genes"])
        name = [n for n in S.CHROM_NAMES if n not in set(c[0] for c in sc["chroms"])][0]
        length = [c[1] for c in sc["chroms"] if c[0] == g["chr"]][0]
        sc["chroms"].append([name, length, src.int(1, 10 ** 6)])
        clone = {"id": g["id"] + "_copy", "chr": name, "strand": g["strand"], "canon": g.get("canon", "canon"),
                 "transcripts": [{"id": t["id"] + "_copy", "exons": [list(e) for e in t["exons"]]}
                                 for t in g["transcripts"]]}
        sc["genes"].append(clone)
        sc["overrides"] += [[name, o[1], o[2]] for o in sc["overrides"] if o[0] == g["chr"]]
        gs = min(t["exons"][0][0] for t in g["transcripts"]) - 100
        ge = max(t["exons"][-1][1] for t in g["transcripts"]) + 100
        for r in list(sc["reads"]):
            if r.get("c") == g["chr"] and gs <= r["p"] <= ge:
                sc["reads"].append(S.shift_read(r, name, 0, name=r["n"] + "c"))
    sc["opts"] = ["--data_type", src.choice(["nanopore", "pacbio_ccs"]), "--no_gzip", "--threads",
                  str(src.choice([1, 1, 2])), "--model_construction_strategy", src.choice(["default_ont", "default_pacbio", "sensitive_pacbio", "all"])]
    sc.pop("truth", None)
    return sc


@st.composite
def scenarios(draw):
    return _scenario(draw)


def ref_exon_ids_of(gtf_path):
    g = parse.gtf(gtf_path)
    out = {}
    for rec in g["lines"]:
        if rec["type"] == "exon" and "exon_id" in rec["attrs"]:
            out[(rec["chr"], rec["start"], rec["end"], rec["strand"])] = rec["attrs"]["exon_id"]
    return out


def _check_outputs(res, sc, ref_ids, ctx, case, tag=""):
    mg = res.path("transcript_models.gtf")
    eg = res.path("extended_annotation.gtf")
    if res.code != 0 or not mg:
        ctx.note("crashed_or_no_output" + tag)
        return None
    gt = {"transcript_models": parse.gtf(mg)}
    if eg:
        gt["extended_annotation"] = parse.gtf(eg)
    for sig, det in gtfcheck.check_ids(gt, sc, ref_ids if not (sc.get("gtf") or {}).get("exon_ids_per_transcript") else None):
        if (sc.get("gtf") or {}).get("exon_ids_per_transcript") and sig.startswith("C17:exon-id-not-a-function"):
            continue          # the reference itself has two ids for one exon: only the clauses below apply
        ctx.violation(sig + tag, det, case)
    if (sc.get("gtf") or {}).get("exon_ids") and res.paths.get("gtf"):
        # an exon_id of the reference - on a record of any type - never names other coordinates in the output
        owner = {}
        for rec in parse.gtf(res.paths["gtf"])["lines"]:
            if "exon_id" in rec["attrs"]:
                owner.setdefault(rec["attrs"]["exon_id"], set()).add((rec["chr"], rec["start"], rec["end"],
                                                                      rec["strand"]))
        for name, g_ in gt.items():
            for rec in g_["lines"]:
                eid = rec["attrs"].get("exon_id")
                key = (rec["chr"], rec["start"], rec["end"], rec["strand"])
                if eid in owner and key not in owner[eid]:
                    ctx.violation("C17:exon-id-of-the-reference-names-other-coordinates" + tag,
                                  {"file": name, "id": eid, "type": rec["type"], "now": key,
                                   "in_reference": sorted(owner[eid])[:3]}, case)
                    break
    # classification
    novel = [t for t in gt["transcript_models"]["transcripts"] if t not in gtfcheck.ref_table(sc)]
    seen = {}
    repeated = False
    for g in gt.values():
        for rec in g["lines"]:
            if rec["type"] == "exon":
                k = (rec["chr"], rec["start"], rec["end"], rec["strand"])
                seen[k] = seen.get(k, 0) + 1
                if seen[k] > 1:
                    repeated = True
    chrs = set(rec["chr"] for rec in gt["transcript_models"]["lines"])
    ctx.cls("novel>0" if novel else "novel=0", "chroms_with_output=%d" % len(chrs))
    return {"novel": len(novel), "repeated": repeated, "chroms": len(chrs), "eg": eg}


@st.composite
def split_scenarios(draw):
    """Loci processed in several regions (generator of C03/C05): a reference gene across a split point supported by
    different reads on both sides - every id is still reported once."""
    from props import c03
    sc = draw(c03.split_scenarios())
    sc.setdefault("gtf", {"gene_records": True, "transcript_records": True})
    sc["gtf"]["exon_ids"] = draw(st.booleans())
    return sc


def evaluate(case, ctx):
    sc = case
    res = pipeline.run_case(sc, ctx)
    try:
        ref_ids = ref_exon_ids_of(res.paths["gtf"]) if (sc["gtf"].get("exon_ids")) else None
        info = _check_outputs(res, sc, ref_ids, ctx, case)
        if info and info["novel"] and info["repeated"]:
            ctx.mark_nontrivial(case_hash(case))
            ctx.sample(pipeline.summarize(sc, {"novel_reported": info["novel"]}))
    finally:
        res.cleanup()


def evaluate_feedback(case, ctx):
    """History of two runs: the extended annotation of run 1 is the reference of run 2."""
    sc = case
    res = pipeline.run_case(sc, ctx)
    try:
        info = _check_outputs(res, sc, None, ctx, case, tag="")
        if not info or not info["eg"]:
            return
        # second generation: reads of further unannotated isoforms -- reuse the same reads with a shifted subset:
        # keep reads of every second novel chain out of run 1 by splitting the read set in two halves by name parity
        g1 = parse.gtf(info["eg"])
        sc2 = dict(sc)
        sc2["genes"] = []
        tt = gtfcheck.transcript_table(g1)
        by_gene = {}
        for tid, t in tt.items():
            by_gene.setdefault(t["gene"], []).append((tid, t))
        ok = True
        for gid, lst in by_gene.items():
            trs = []
            for tid, t in lst:
                eids = [r["attrs"].get("exon_id") for r in sorted(t["exon_recs"], key=lambda r: r["start"])]
                trs.append({"id": tid, "exons": [list(e) for e in t["exons"]], "exon_ids": eids})
            strands = set(t["strand"] for _, t in lst)
            if len(strands) != 1:
                ok = False
            sc2["genes"].append({"id": gid, "chr": lst[0][1]["chr"], "strand": lst[0][1]["strand"],
                                 "transcripts": trs})
        if not ok:
            ctx.note("feedback_skipped_mixed_strand_gene")
            return
        sc2["gtf"] = {"gene_records": True, "transcript_records": True, "exon_ids": True}
        sc2["reads"] = sc["reads2"]
        sc2["overrides"] = sc["overrides"]
        d2 = os.path.join(res.dir, "second")
        paths2 = None
        if sc.get("verbatim_feedback"):
            # the file itself is the reference of the second run (with its CDS / codon records and their exon_id's)
            import shutil
            paths2 = build.materialise(sc2, os.path.join(d2, "in"))
            shutil.copyfile(info["eg"], paths2["gtf"])
        res2 = pipeline.run_case(sc2, ctx, d=d2, paths=paths2)
        ref_ids = ref_exon_ids_of(res2.paths["gtf"])
        info2 = _check_outputs(res2, sc2, ref_ids, ctx, case, tag="")
        if info2:
            # an exon_id that the reference uses - on a record of any type - names the same coordinates afterwards
            owner = {}
            for rec in parse.gtf(res2.paths["gtf"])["lines"]:
                if "exon_id" in rec["attrs"]:
                    owner.setdefault(rec["attrs"]["exon_id"], set()).add((rec["chr"], rec["start"], rec["end"],
                                                                          rec["strand"]))
            for fn in ("transcript_models.gtf", "extended_annotation.gtf"):
                p_ = res2.path(fn)
                for rec in (parse.gtf(p_)["lines"] if p_ else []):
                    eid = rec["attrs"].get("exon_id")
                    key = (rec["chr"], rec["start"], rec["end"], rec["strand"])
                    if eid in owner and key not in owner[eid]:
                        ctx.violation("C17:exon-id-of-the-reference-names-other-coordinates",
                                      {"file": fn, "id": eid, "type": rec["type"], "now": key,
                                       "in_reference": sorted(owner[eid])[:3]}, case)
                        break
        if info2 and info2["novel"]:
            ctx.mark_nontrivial(case_hash(case))
            ctx.cls("feedback_novel>0")
            ctx.sample(pipeline.summarize(sc, {"second_run_novel": info2["novel"], "first_run_novel": info["novel"]}))
    finally:
        res.cleanup()


@st.composite
def feedback_scenarios(draw):
    sc = _scenario(draw, feedback=True)
    src = S.DrawSrc(draw)
    # second-generation reads: further unannotated isoforms of the same genes + a new intergenic gene
    reads2 = []
    k = 0
    genes = sc["genes"]
    for g in genes:
        for ex in S.novel_chains(src, sc, g, k=2):
            S.add_canon(sc, g["chr"], ex, g["strand"])
            for _ in range(src.int(3, 6)):
                k += 1
                reads2.append(S.exact_read("s%d" % k, g["chr"], g["strand"], ex, polya=25))
    sc["reads2"] = reads2 or list(sc["reads"])
    sc["gtf"]["exon_ids"] = False
    sc["verbatim_feedback"] = src.bool(0.5)
    sc["gtf"]["cds"] = src.bool(0.6)
    return sc


# ------------------------------------------------------------------------------- id distributors in isolation

CHRS = ["chr1", "chr2", "2", "GL000.1", "scaffold_7", "chr1_alt", "c-1"]


@st.composite
def distributor_cases(draw):
    """A reference annotation made of id strings (shapes that imitate IsoQuant's own ids, numbers clustered at the low
    end where generated ids start, contig names with '.', '_' and '-') plus exon ids, and a history of id requests."""
    chrom = draw(st.sampled_from(CHRS))
    other = draw(st.sampled_from([c for c in CHRS if c != chrom]))
    num = st.integers(1, 12)

    # ids that embed a contig name embed the contig the feature lies on (that is what IsoQuant writes; an id naming
    # another contig than its own location is outside the domain of "previously generated by IsoQuant")
    def t_shape(c):
        return st.one_of(
            st.builds(lambda n, x: "transcript%d.%s.%s" % (n, c, x), num, st.sampled_from(["nic", "nnic"])),
            st.builds(lambda n: "transcript%d" % n, num),
            st.builds(lambda n: "transcript_%d" % n, num),
            st.builds(lambda n: "ENST%05d" % n, num),
            st.builds(lambda n: "transcriptX.%d" % n, num))

    def g_shape(c):
        return st.one_of(
            st.builds(lambda n: "novel_gene_%s_%d" % (c, n), num),
            st.builds(lambda n: "novel_gene_%d" % n, num),
            st.builds(lambda n: "G%d" % n, num),
            st.just("novel_gene_"), st.just("novel_gene_%s_x" % c))

    def e_shape(c):
        return st.one_of(st.none(), st.builds(lambda n: "%s.%d" % (c, n), num),
                         st.builds(lambda n: "E%d" % n, num), st.builds(lambda n: "%d" % n, num))
    genes = []
    seen_g, seen_t = set(), set()
    pos = 100
    exon_ids = {}
    for _ in range(draw(st.integers(0, 5))):
        gchr = draw(st.sampled_from([chrom, chrom, chrom, other]))
        gid = draw(g_shape(gchr))
        if gid in seen_g:
            continue
        seen_g.add(gid)
        strand = draw(st.sampled_from("+-"))
        trs = []
        for _t in range(draw(st.integers(1, 3))):
            tid = draw(t_shape(gchr))
            if tid in seen_t:
                continue
            seen_t.add(tid)
            exons = []
            p = pos
            for _e in range(draw(st.integers(1, 3))):
                ln = draw(st.sampled_from([50, 80, 120]))
                key = (gchr, p, p + ln - 1, strand)
                if key not in exon_ids:
                    eid = draw(e_shape(gchr))
                    # an annotation names an exon consistently and never gives one id to two exons
                    if eid is not None and eid in set(v for v in exon_ids.values() if v):
                        eid = None
                    exon_ids[key] = eid
                exons.append([p, p + ln - 1, exon_ids[key]])
                p += ln + draw(st.sampled_from([100, 150]))
            trs.append({"id": tid, "exons": exons})
        if trs:
            genes.append({"id": gid, "chr": gchr, "strand": strand, "transcripts": trs})
        pos += 1000
    # ids that name the contig under test but sit on another contig (an annotation lifted to an assembly with other
    # contig names keeps its ids): the distributor of a contig only looks at the features located on it
    if draw(st.integers(0, 5)) == 0:
        n_ = draw(num)
        mg = draw(st.sampled_from(["novel_gene_%s_%d" % (chrom, n_), "GX%d" % n_]))
        mt = "transcript%d.%s.%s" % (draw(num), chrom, draw(st.sampled_from(["nic", "nnic"])))
        if mg not in seen_g and mt not in seen_t:
            genes.append({"id": mg, "chr": other, "strand": "+", "misplaced": True,
                          "transcripts": [{"id": mt, "exons": [[pos, pos + 99, None]]}]})
    n_inc = draw(st.integers(1, 25))
    ref_keys = [list(k) for k in exon_ids if k[0] == chrom]
    ops = []
    for _ in range(draw(st.integers(1, 25))):
        if ref_keys and draw(st.integers(0, 3)) == 0:
            k = draw(st.sampled_from(ref_keys))
            ops.append([k[1], k[2], k[3]])
        else:
            a = draw(st.sampled_from([100, 150, 230, 300, 5000, 5100]))
            ops.append([a, a + draw(st.sampled_from([49, 79, 119])), draw(st.sampled_from("+-"))])
    return {"chr": chrom, "genes": genes, "n_inc": n_inc, "ops": ops}


def _gtf_text(case):
    lines = []
    for g in case["genes"]:
        lo = min(e[0] for t in g["transcripts"] for e in t["exons"])
        hi = max(e[1] for t in g["transcripts"] for e in t["exons"])
        lines.append('%s\tv\tgene\t%d\t%d\t.\t%s\t.\tgene_id "%s";' % (g["chr"], lo, hi, g["strand"], g["id"]))
        for t in g["transcripts"]:
            lines.append('%s\tv\ttranscript\t%d\t%d\t.\t%s\t.\tgene_id "%s"; transcript_id "%s";' % (
                g["chr"], t["exons"][0][0], t["exons"][-1][1], g["strand"], g["id"], t["id"]))
            for e in t["exons"]:
                lines.append('%s\tv\texon\t%d\t%d\t.\t%s\t.\tgene_id "%s"; transcript_id "%s";%s' % (
                    g["chr"], e[0], e[1], g["strand"], g["id"], t["id"],
                    (' exon_id "%s";' % e[2]) if e[2] is not None else ""))
    return "\n".join(lines) + "\n"


def evaluate_distributor(case, ctx):
    import gffutils
    from vlib import run
    run.preload()
    from src.id_policy import ExcludingIdDistributor, FeatureIdStorage, SimpleIDDistributor
    chrom = case["chr"]
    db = None
    if case["genes"]:
        db = gffutils.create_db(_gtf_text(case), ":memory:", from_string=True, force=True, keep_order=True,
                                merge_strategy="error", sort_attribute_values=True, disable_infer_transcripts=True,
                                disable_infer_genes=True)
    ref_t = set(t["id"] for g in case["genes"] for t in g["transcripts"])
    ref_g = set(g["id"] for g in case["genes"])
    dist = ExcludingIdDistributor(db, chrom)
    prev = 0
    for _ in range(case["n_inc"]):
        v = dist.increment()
        if not isinstance(v, int) or v <= prev:
            ctx.violation("C17:distributor:numbers-not-strictly-increasing", {"value": v, "previous": prev}, case)
            break
        prev = v
        # the ids IsoQuant forms from this number on this chromosome (graph_based_model_construction.py)
        made = ["transcript%d.%s.nic" % (v, chrom), "transcript%d.%s.nnic" % (v, chrom)]
        hit = [m for m in made if m in ref_t]
        if "novel_gene_%s_%d" % (chrom, v) in ref_g:
            hit.append("novel_gene_%s_%d" % (chrom, v))
        if hit:
            located = {}
            for g_ in case["genes"]:
                located[g_["id"]] = g_["chr"]
                for t_ in g_["transcripts"]:
                    located[t_["id"]] = g_["chr"]
            elsewhere = all(located.get(h) != chrom for h in hit)
            ctx.violation("C17:distributor:generated-id-exists-in-reference:" + ("gene" if hit[0].startswith("novel")
                                                                                 else "transcript") +
                          (":reference-id-sits-on-another-contig" if elsewhere else ""),
                          {"number": v, "collides_with": hit, "chr": chrom}, case)
    # exon ids
    storage = FeatureIdStorage(SimpleIDDistributor(), db, chrom, "exon")
    ref_e = {}
    for g in case["genes"]:
        for t in g["transcripts"]:
            for e in t["exons"]:
                if e[2] is not None and g["chr"] == chrom:
                    ref_e[(chrom, e[0], e[1], g["strand"])] = e[2]
    ref_all_ids = set(ref_e.values())
    got = {}
    for (a, b, strand) in case["ops"]:
        key = (chrom, a, b, strand)
        eid = storage.get_id(chrom, (a, b), strand)
        if key in got and got[key] != eid:
            ctx.violation("C17:distributor:exon-id-not-a-function", {"exon": key, "ids": [got[key], eid]}, case)
        got[key] = eid
        if key in ref_e and eid != ref_e[key]:
            ctx.violation("C17:distributor:reference-exon-id-not-preserved", {"exon": key, "reference": ref_e[key],
                                                                            "got": eid}, case)
        if key not in ref_e and eid in ref_all_ids:
            ctx.violation("C17:distributor:generated-exon-id-taken-by-reference", {"exon": key, "id": eid}, case)
    inv = {}
    for k, v in got.items():
        if v in inv and inv[v] != k:
            ctx.violation("C17:distributor:exon-id-shared-by-distinct-exons", {"id": v, "exons": [inv[v], k]}, case)
        inv[v] = k
    shaped = any(t.startswith("transcript") and t[10:11].isdigit() for t in ref_t) or \
        any(g.startswith("novel_gene_%s_" % chrom) for g in ref_g)
    ctx.cls("reference-has-isoquant-ids" if shaped else "plain-reference",
            "reference-exon-ids" if ref_e else "no-reference-exon-ids")
    if shaped and ref_e:
        ctx.mark_nontrivial(case_hash(case))
        ctx.sample({"chr": chrom, "genes": case["genes"][:2], "n_inc": case["n_inc"], "ops": case["ops"][:5]}, limit=2)


def stages(tier):
    q = tier == "quick"
    return [Stage("ids", "hyp", evaluate, n=160 if q else 2400, strategy=scenarios),
            Stage("split", "hyp", evaluate, n=32 if q else 400, strategy=split_scenarios),
            Stage("feedback", "hyp", evaluate_feedback, n=64 if q else 800, strategy=feedback_scenarios),
            Stage("distributor", "hyp", evaluate_distributor, n=4000 if q else 120000, strategy=distributor_cases),
            Stage("fuzz_distributor", "hypfuzz", evaluate_distributor, n=2000 if q else 120000,
                  strategy=distributor_cases, shards=4 if q else 16)]
