"""Parsers for IsoQuant output files.  No repository code is imported here."""
import gzip
import os
import re
from collections import OrderedDict, defaultdict


def _open(path):
    if path.endswith(".gz"):
        return gzip.open(path, "rt")
    return open(path, "r")


def find(path):
    """Return path or path.gz, whichever exists (None if neither)."""
    if os.path.exists(path):
        return path
    if os.path.exists(path + ".gz"):
        return path + ".gz"
    return None


# header lines of IsoQuant's text outputs: comments ("# ...", "##gff") and column names; read names and feature ids
# may themselves start with '#'
_HEADER_PREFIXES = ("# ", "##", "#read_id\t", "#feature_id\t", "#chr\t", "#chrom\t", "#isoform\t")


def is_header(line):
    return line.startswith(_HEADER_PREFIXES) or line.rstrip("\n") == "#"


def data_lines(path):
    with _open(path) as f:
        return [l.rstrip("\n") for l in f if not is_header(l) and l.strip()]


def parse_ranges(s):
    if s in (".", ""):
        return []
    out = []
    for x in s.split(","):
        a, b = x.split("-", 1)
        out.append((int(a), int(b)))
    return out


_EV_SPLIT = re.compile(r",(?=[A-Za-z_.])")


def split_events(s):
    if s in (".", ""):
        return []
    return _EV_SPLIT.split(s)


def parse_additional(s):
    d = {}
    for kv in s.split(";"):
        kv = kv.strip()
        if not kv or kv == "*":
            continue
        if "=" in kv:
            k, v = kv.split("=", 1)
            d[k.strip()] = v.strip()
    return d


def read_assignments(path):
    """List of rows: dict(read_id, chr, strand, isoform, gene, type, events(list of str), exons(list), info(dict), raw)."""
    rows = []
    for l in data_lines(path):
        f = l.split("\t")
        rows.append({"read_id": f[0], "chr": f[1], "strand": f[2], "isoform": f[3], "gene": f[4], "type": f[5],
                     "events": split_events(f[6]), "events_raw": f[6], "exons": parse_ranges(f[7]),
                     "exons_raw": f[7], "info": parse_additional(f[8]) if len(f) > 8 else {}, "raw": l})
    return rows


def records_of(rows):
    """Group TSV rows into alignment records keyed by (read_id, chr, exons_raw) preserving order."""
    recs = OrderedDict()
    for r in rows:
        recs.setdefault((r["read_id"], r["chr"], r["exons_raw"]), []).append(r)
    return recs


def bed12(path):
    recs = []
    for l in data_lines(path):
        f = l.split("\t")
        sizes = [int(x) for x in f[10].rstrip(",").split(",")] if f[10] else []
        starts = [int(x) for x in f[11].rstrip(",").split(",")] if f[11] else []
        recs.append({"chr": f[0], "start": int(f[1]), "end": int(f[2]), "name": f[3], "score": f[4], "strand": f[5],
                     "thick_start": int(f[6]), "thick_end": int(f[7]), "rgb": f[8], "count": int(f[9]),
                     "sizes": sizes, "starts": starts, "raw": l,
                     "blocks": [(int(f[1]) + s + 1, int(f[1]) + s + z) for s, z in zip(starts, sizes)]})
    return recs


_ATTR = re.compile(r'\s*([^\s;]+)\s+"([^"]*)"\s*;')


def gtf_attrs(s):
    d = OrderedDict()
    for k, v in _ATTR.findall(s):
        d.setdefault(k, v)
    return d


def gtf(path):
    """Returns dict(genes={gid:[rec]}, transcripts={tid:[rec]}, exons={tid:[rec]}, order=[...], lines=[...])."""
    genes = defaultdict(list)
    trs = defaultdict(list)
    exons = defaultdict(list)
    order = []
    lines = []
    for l in data_lines(path):
        f = l.split("\t")
        if len(f) < 9:
            continue
        a = gtf_attrs(f[8])
        rec = {"chr": f[0], "source": f[1], "type": f[2], "start": int(f[3]), "end": int(f[4]), "strand": f[6],
               "attrs": a, "raw": l}
        lines.append(rec)
        if f[2] == "gene":
            genes[a.get("gene_id")].append(rec)
        elif f[2] == "transcript":
            trs[a.get("transcript_id")].append(rec)
            order.append(a.get("transcript_id"))
        elif f[2] == "exon":
            exons[a.get("transcript_id")].append(rec)
    return {"genes": genes, "transcripts": trs, "exons": exons, "order": order, "lines": lines}


def counts_simple(path):
    """feature -> float for 2-column tables; specials (__ambiguous ...) kept as strings->float too."""
    d = OrderedDict()
    with _open(path) as f:
        for l in f:
            if is_header(l) or not l.strip():
                continue
            p = l.rstrip("\n").split("\t")
            d[p[0]] = float(p[1])
    return d


def counts_matrix(path):
    """Returns (groups, {feature: [values]}) for matrix grouped tables (header '#feature_id\\tg1\\tg2...')."""
    groups = None
    d = OrderedDict()
    with _open(path) as f:
        for l in f:
            if not l.strip():
                continue
            p = l.rstrip("\n").split("\t")
            if is_header(l):
                if p[0].lstrip("#").strip() in ("feature_id",):
                    groups = p[1:]
                continue
            d[p[0]] = [float(x) for x in p[1:]]
    return groups, d


def counts_linear(path):
    """Returns list of (feature, group, value) for linear grouped tables."""
    out = []
    with _open(path) as f:
        for l in f:
            if is_header(l) or not l.strip():
                continue
            p = l.rstrip("\n").split("\t")
            out.append((p[0], p[1], float(p[2])))
    return out


def feature_counts(path):
    """exon_counts / intron_counts rows."""
    rows = []
    for l in data_lines(path):
        p = l.split("\t")
        rows.append({"chr": p[0], "start": int(p[1]), "end": int(p[2]), "strand": p[3], "flags": p[4],
                     "genes": p[5], "group": p[6], "inc": int(p[7]), "exc": int(p[8]), "raw": l})
    return rows


def model_reads(path):
    out = []
    for l in data_lines(path):
        p = l.split("\t")
        out.append((p[0], p[1]))
    return out


_STAT = re.compile(r" - INFO - ([A-Za-z_]+): (\d+)\s*$")


def log_stats(path):
    """All 'name: number' INFO lines of isoquant.log as a list of (name, int) in order."""
    out = []
    with open(path, errors="replace") as f:
        for l in f:
            m = _STAT.search(l)
            if m:
                out.append((m.group(1), int(m.group(2))))
    return out


def log_regions(path):
    out = []
    rx = re.compile(r"Processing region \((\d+), (\d+)\)")
    with open(path, errors="replace") as f:
        for l in f:
            m = rx.search(l)
            if m:
                out.append((int(m.group(1)), int(m.group(2))))
    return out


def strip_header(path):
    """Lines of a text output without the run-specific header ('# Command line' / '# IsoQuant version')."""
    with _open(path) as f:
        return [l for l in f if not l.startswith("# Command line") and not l.startswith("# IsoQuant version")]


def sample_files(out_dir, prefix="OUT"):
    d = os.path.join(out_dir, prefix)
    res = {}
    if not os.path.isdir(d):
        return res
    for fn in sorted(os.listdir(d)):
        p = os.path.join(d, fn)
        if os.path.isfile(p):
            res[fn] = p
    return res
