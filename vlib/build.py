"""Materialise a scenario (plain JSON-able dict) into FASTA / GTF / BAM(+BAI) / YAML files.

Scenario keys (all coordinates of genes are 1-based closed, read positions are 0-based like BAM):
  chroms    : [[name, length, seed], ...]
  overrides : [[chrom, pos0, "SEQ"], ...]          explicit bases written over the filler
  genes     : [{"id","chr","strand","transcripts":[{"id","exons":[[s,e],...]}]}]
  gtf       : {"gene_records":bool,"transcript_records":bool,"exon_ids":bool,"extras":bool}
  reads     : [{"n","c","p","cg":[[op,len],...],"f","q","tags":{},"file":int,
                "sl": str (bases of the left soft clip), "sr": str (right soft clip), "mm":[query offsets]}]
  nfiles    : number of BAM files (reads carry "file")
"""
import gzip
import os
import random

import pysam

COMP = {"A": "T", "C": "G", "G": "C", "T": "A", "N": "N", "a": "t", "c": "g", "g": "c", "t": "a", "n": "n"}


def revcomp(s):
    return "".join(COMP[c] for c in reversed(s))


def filler(length, seed):
    """Background sequence: derived PRNG (the only one in the machinery, see DESIGN section 2).
    Every third base is G or C so that no 16-bp window holds 12 A or 12 T (no accidental polyA)."""
    rnd = random.Random(seed)
    n3 = length // 3 + 1
    a = rnd.choices("ACGT", k=n3)
    b = rnd.choices("ACGT", k=n3)
    c = rnd.choices("GC", k=n3)
    out = [None] * (3 * n3)
    out[0::3] = a
    out[1::3] = b
    out[2::3] = c
    return "".join(out[:length])


def make_genome(sc):
    genome = {}
    for name, length, seed in sc["chroms"]:
        genome[name] = filler(length, seed)
    ov = sc.get("overrides") or []
    if ov:
        per = {}
        for chrom, pos, seq in ov:
            per.setdefault(chrom, []).append((pos, seq))
        for chrom, lst in per.items():
            s = list(genome[chrom])
            for pos, seq in lst:
                if seq.startswith("@lower:"):
                    continue
                if pos < 0:
                    seq = seq[-pos:]
                    pos = 0
                seq = seq[:max(0, len(s) - pos)]
                s[pos:pos + len(seq)] = seq
            for pos, seq in lst:
                if seq.startswith("@lower:"):
                    n = int(seq.split(":")[1])
                    s[pos:pos + n] = [c.lower() for c in s[pos:pos + n]]
            genome[chrom] = "".join(s)
    return genome


def write_fasta(genome, path, order=None, width=60):
    with open(path, "w") as f:
        for name in (order or list(genome)):
            f.write(">%s\n" % name)
            s = genome[name]
            for i in range(0, len(s), width):
                f.write(s[i:i + width] + "\n")


def splice_overrides(chrom, exons, cls):
    """Overrides that give every intron of the exon chain the dinucleotide class `cls`:
    '+' GT-AG, '-' CT-AC (canonical on minus), 'n' non-canonical (CC-CC), 'gc' GC-AG, 'at' AT-AC,
    '-gc' CT-GC, '-at' GT-AT."""
    pairs = {"+": ("GT", "AG"), "-": ("CT", "AC"), "n": ("CC", "CC"), "gc": ("GC", "AG"), "at": ("AT", "AC"),
             "-gc": ("CT", "GC"), "-at": ("GT", "AT")}
    d, a = pairs[cls]
    out = []
    for i in range(len(exons) - 1):
        istart = exons[i][1] + 1        # 1-based first intron base
        iend = exons[i + 1][0] - 1      # 1-based last intron base
        if iend - istart + 1 < 4:
            continue
        out.append([chrom, istart - 1, d])
        out.append([chrom, iend - 2, a])
    return out


def gtf_lines(sc):
    fl = sc.get("gtf") or {}
    lines = []
    exon_counter = 0
    exon_id_map = {}
    for g in sc["genes"]:
        tr = g["transcripts"]
        gs = min(t["exons"][0][0] for t in tr)
        ge = max(t["exons"][-1][1] for t in tr)
        gattr = 'gene_id "%s";' % g["id"]
        if fl.get("extras"):
            gattr += ' gene_name "%s_n"; gene_type "protein_coding";' % g["id"]
        src = g.get("source", "verif")
        if fl.get("gene_records", True):
            lines.append("\t".join([g["chr"], src, "gene", str(gs), str(ge), ".", g["strand"], ".", gattr]))
        for t in tr:
            tattr = 'gene_id "%s"; transcript_id "%s";' % (g["id"], t["id"])
            if fl.get("extras"):
                tattr += ' gene_name "%s_n"; transcript_type "protein_coding";' % g["id"]
            if fl.get("canonical_attr"):
                # what an annotation written by an earlier IsoQuant run (--check_canonical) carries, right or stale
                v = fl["canonical_attr"]
                tattr += ' Canonical "%s"; exons "%d";' % (
                    v if v != "mixed" else ("True", "False")[(len(lines) + len(t["exons"])) % 2], len(t["exons"]))
            if fl.get("transcript_records", True):
                lines.append("\t".join([g["chr"], src, "transcript", str(t["exons"][0][0]), str(t["exons"][-1][1]),
                                        ".", g["strand"], ".", tattr]))
            exs = t["exons"] if g["strand"] == "+" or not fl.get("reverse_minus") else list(reversed(t["exons"]))
            for k, e in enumerate(exs):
                eattr = tattr + ' exon_number "%d";' % (k + 1)
                if fl.get("exon_ids"):
                    if "exon_ids" in t:
                        eattr += ' exon_id "%s";' % t["exon_ids"][k]
                    else:
                        key = (g["chr"], e[0], e[1], g["strand"])
                        if fl.get("exon_ids_per_transcript"):
                            # GENCODE has exons with the same coordinates and different ids in different transcripts
                            key = key + (t["id"],)
                        if key not in exon_id_map:
                            exon_counter += 1
                            exon_id_map[key] = (fl.get("exon_id_fmt") or "E%d").replace("{chr}", g["chr"]) % exon_counter
                        eattr += ' exon_id "%s";' % exon_id_map[key]
                lines.append("\t".join([g["chr"], src, "exon", str(e[0]), str(e[1]), ".", g["strand"], ".", eattr]))
                if fl.get("cds") and e[1] - e[0] > 10:
                    cattr = tattr
                    if fl.get("cds_exon_ids") and "exon_id" in eattr:
                        # ... and repeats the id of the exon on the CDS record inside it
                        cattr = tattr + ' exon_id "%s";' % eattr.split('exon_id "')[1].split('"')[0]
                    lines.append("\t".join([g["chr"], src, "CDS", str(e[0] + 1), str(e[1] - 1), ".", g["strand"],
                                            "0", cattr]))
    return lines


def write_gtf(sc, path, gz=False):
    data = "\n".join(gtf_lines(sc)) + "\n"
    if gz:
        with gzip.open(path, "wt") as f:
            f.write(data)
    else:
        with open(path, "w") as f:
            f.write(data)


_SUB = {"A": "C", "C": "G", "G": "T", "T": "A", "N": "A"}


def read_seq(r, genome):
    """Query sequence implied by CIGAR + genome (+ explicit soft clips and mismatch offsets)."""
    if r.get("seq") is not None:
        return r["seq"]
    g = genome[r["c"]]
    pos = r["p"]
    cg = r["cg"]
    out = []
    nops = len(cg)
    for i, (op, ln) in enumerate(cg):
        if op in (0, 7):
            out.append(g[pos:pos + ln].upper())
            pos += ln
        elif op == 8:
            out.append("".join(_SUB[c] for c in g[pos:pos + ln].upper()))
            pos += ln
        elif op == 1:
            out.append(("CG" * (ln // 2 + 1))[:ln])
        elif op in (2, 3):
            pos += ln
        elif op == 4:
            left = all(o in (4, 5) for o, _ in cg[:i])
            s = r.get("sl") if left else r.get("sr")
            if s is None or len(s) != ln:
                s = ("GCC" * (ln // 3 + 1))[:ln]
            out.append(s)
        elif op == 5:
            pass
    # explicit sequence of the first / last aligned segment (an aligned polyT head or polyA tail: the read says T's
    # or A's whatever the genome has there)
    if r.get("b0seq") or r.get("bNseq"):
        idx = [i for i, (op, ln) in enumerate(cg) if op in (0, 7, 8)]
        parts = []
        k = 0
        for i, (op, ln) in enumerate(cg):
            if op in (0, 1, 4, 7, 8):
                parts.append([i, out[k]])
                k += 1
        for i_, piece in parts:
            if r.get("b0seq") and i_ == idx[0]:
                piece_new = (r["b0seq"] * (len(piece) // len(r["b0seq"]) + 1))[:len(piece)]
                parts[[x[0] for x in parts].index(i_)][1] = piece_new
            if r.get("bNseq") and i_ == idx[-1]:
                piece_new = (r["bNseq"] * (len(piece) // len(r["bNseq"]) + 1))[:len(piece)]
                parts[[x[0] for x in parts].index(i_)][1] = piece_new
        out = [x[1] for x in parts]
    seq = "".join(out)
    mm = r.get("mm")
    if mm:
        s = list(seq)
        for o in mm:
            if 0 <= o < len(s):
                s[o] = _SUB[s[o]]
        seq = "".join(s)
    if len(seq) < sum(l for o, l in cg if o in (0, 1, 4, 7, 8)):
        # ran off the chromosome end: pad (scenario generators avoid this; keep BAM valid anyway)
        seq = seq + "C" * (sum(l for o, l in cg if o in (0, 1, 4, 7, 8)) - len(seq))
    return seq


def ref_end(r):
    return r["p"] + sum(l for o, l in r["cg"] if o in (0, 2, 3, 7, 8))


def write_bams(sc, genome, outdir, prefix="reads", order=None):
    """Writes nfiles coordinate-sorted indexed BAMs; returns their paths.  `order`: optional key function
    giving the tie order of records with equal (chrom, pos)."""
    names = [c[0] for c in sc["chroms"]]
    header = {"HD": {"VN": "1.6", "SO": "coordinate"},
              "SQ": [{"SN": c[0], "LN": c[1]} for c in sc["chroms"]]}
    idx = {n: i for i, n in enumerate(names)}
    nfiles = sc.get("nfiles", 1)
    paths = []
    fnames = sc.get("file_names")
    all_names = names
    for fi in range(nfiles):
        recs = [(k, r) for k, r in enumerate(sc["reads"]) if r.get("file", 0) == fi]
        if sc.get("prune_headers"):
            # the header of each file lists only the contigs the file has records on (per-chromosome BAM files, headers
            # pruned by the tools that split them); the order of the reference is kept
            used = set((r.get("c") or (r.get("placed") or [None])[0]) for _, r in recs)
            names = [n for n in all_names if n in used] or all_names[:1]
            lens_ = {c[0]: c[1] for c in sc["chroms"]}
            header = {"HD": {"VN": "1.6", "SO": "coordinate"}, "SQ": [{"SN": n, "LN": lens_[n]} for n in names]}
            idx = {n: i for i, n in enumerate(names)}
        tie = order or (lambda k, r: k)
        # an unmapped record may be "placed" (RNAME/POS set, SAM specification 1.4: unmapped mates, reads hanging over
        # a reference end): it sorts with the mapped records of that position
        recs.sort(key=lambda kr: ((idx[kr[1]["c"]], kr[1]["p"]) if kr[1].get("c") is not None
                                  else (idx[kr[1]["placed"][0]], kr[1]["placed"][1]) if kr[1].get("placed")
                                  else (len(names), 0), tie(kr[0], kr[1])))
        path = os.path.join(outdir, (fnames[fi] if fnames else "%s%d.bam" % (prefix, fi)))
        with pysam.AlignmentFile(path, "wb", header=header) as out:
            for k, r in recs:
                a = pysam.AlignedSegment(out.header)
                a.query_name = r["n"]
                a.flag = r["f"]
                if r.get("c") is None:
                    a.reference_id = idx[r["placed"][0]] if r.get("placed") else -1
                    a.reference_start = r["placed"][1] if r.get("placed") else -1
                    a.mapping_quality = 0
                    a.query_sequence = r.get("seq") or "ACGTACGTAC"
                else:
                    a.reference_id = idx[r["c"]]
                    a.reference_start = r["p"]
                    a.mapping_quality = r.get("q", 60)
                    a.cigartuples = [tuple(x) for x in r["cg"]]
                    if r.get("noseq"):
                        a.query_sequence = None
                    else:
                        a.query_sequence = read_seq(r, genome)
                for t, v in (r.get("tags") or {}).items():
                    a.set_tag(t, v)
                out.write(a)
        pysam.index(path)
        paths.append(path)
    return paths


def materialise(sc, outdir, gtf_form="gtf", prefix="reads"):
    """Writes genome.fa, annotation (if genes), BAMs.  Returns dict of paths."""
    os.makedirs(outdir, exist_ok=True)
    genome = make_genome(sc)
    fa = os.path.join(outdir, "genome.fa")
    write_fasta(genome, fa, [c[0] for c in sc["chroms"]])
    res = {"fasta": fa, "genome": genome, "gtf": None}
    if sc.get("genes"):
        if gtf_form == "gtf.gz":
            gp = os.path.join(outdir, "annot.gtf.gz")
            write_gtf(sc, gp, gz=True)
        else:
            gp = os.path.join(outdir, "annot.gtf")
            write_gtf(sc, gp)
        res["gtf"] = gp
    res["bams"] = write_bams(sc, genome, outdir, prefix)
    return res


def base_argv(sc, paths, out, extra=None):
    argv = ["--reference", paths["fasta"], "-o", out]
    if paths.get("gtf"):
        argv += ["--genedb", paths["gtf"]]
        fl = sc.get("gtf") or {}
        if fl.get("gene_records", True) and fl.get("transcript_records", True) and not sc.get("no_complete"):
            argv += ["--complete_genedb"]
    if sc.get("yaml_input"):
        # the same files described in a YAML file that lies next to them; the paths are written relative to the YAML
        # file ("x.bam", "./x.bam", "../<dir>/x.bam"), which the documentation allows
        import json
        ydir = os.path.dirname(paths["bams"][0])
        style = sc["yaml_input"]
        files = []
        for i, b in enumerate(paths["bams"]):
            rel = os.path.relpath(b, ydir)
            st_ = style if style != "mixed" else ["plain", "dot", "updown"][i % 3]
            files.append({"plain": rel, "dot": "./" + rel,
                          "updown": os.path.join("..", os.path.basename(ydir), rel), "absolute": b}[st_])
        ent = {"name": sc.get("prefix", "OUT"), "long read files": files}
        if sc.get("labels"):
            ent["labels"] = list(sc["labels"])
        yp = os.path.join(ydir, "experiment.yaml")
        with open(yp, "w") as f:
            json.dump([{"data format": "bam"}, ent], f)
        argv += ["--yaml", yp]
    else:
        argv += ["--bam"] + paths["bams"]
        if sc.get("labels"):
            argv += ["--labels"] + list(sc["labels"])
    argv += list(sc.get("opts") or [])
    if extra:
        argv += list(extra)
    return argv
