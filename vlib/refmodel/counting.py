"""Documented weighting of read assignments (docs/cmd.md, 'Quantification') as an independent recount."""
from collections import defaultdict

UNIQUE = ("unique", "unique_minor_difference")
STRATEGIES = ["unique_only", "with_ambiguous", "unique_splicing_consistent", "unique_inconsistent", "all"]


def admits_ambiguous(s):
    return s in ("with_ambiguous", "all")


def weight(atype, k, strategy):
    """Weight of one read for each of its k features."""
    if k == 0:
        return 0.0
    if atype in UNIQUE:
        return 1.0 if k == 1 else (1.0 / k if admits_ambiguous(strategy) else 0.0)
    if atype == "ambiguous":
        if k == 1:
            return 1.0
        return 1.0 / k if admits_ambiguous(strategy) else 0.0
    if atype == "inconsistent_ambiguous" or (atype.startswith("inconsistent") and k > 1):
        return 1.0 / k if strategy == "all" else 0.0
    if atype == "inconsistent":
        return 1.0 if strategy in ("unique_inconsistent", "all") else 0.0
    if atype == "inconsistent_non_intronic":
        return 1.0 if strategy in ("unique_splicing_consistent", "unique_inconsistent", "all") else 0.0
    return 0.0


def read_table(records, level):
    """records: OrderedDict from parse.records_of.  Returns per read id:
       list of (atype, features(set)) per alignment record for the requested level ('transcript'|'gene')."""
    per_read = defaultdict(list)
    for key, rows in records.items():
        rid = key[0]
        if level == "transcript":
            feats = set(r["isoform"] for r in rows if r["isoform"] != ".")
            atype = rows[0]["type"]
        else:
            feats = set(r["gene"] for r in rows if r["gene"] != ".")
            atype = rows[0]["info"].get("gene_assignment", rows[0]["type"])
        per_read[rid].append((atype, feats, key))
    return per_read


def expected_counts(records, level, strategy, group_of=None):
    """Expected (feature, group) -> sum of weights; plus per-read contributions and specials.
    A read kept on several loci is one read: its features are the union over its records."""
    per_read = read_table(records, level)
    exp = defaultdict(float)
    specials = {"ambiguous_reads": 0, "ambiguous_records": 0, "no_feature_reads": 0, "no_feature_records": 0}
    contrib = {}
    multi_locus = []
    for rid, recs in per_read.items():
        g = group_of(rid) if group_of else "NA"
        if len(recs) == 1:
            atype, feats, _ = recs[0]
        else:
            feats = set()
            for _, f, _ in recs:
                feats |= f
            types = set(a for a, _, _ in recs)
            if any(t.startswith("inconsistent") for t in types):
                atype = "inconsistent_ambiguous" if len(feats) > 1 else sorted(types)[0]
            elif types <= {"noninformative", "intergenic"}:
                atype = sorted(types)[0]
            else:
                atype = "ambiguous" if len(feats) > 1 else sorted(types)[0]
            multi_locus.append(rid)
        w = weight(atype, len(feats), strategy)
        contrib[rid] = (atype, feats, w)
        for f in feats:
            exp[(f, g)] += w
        n_amb = sum(1 for a, _, _ in recs if a == "ambiguous")
        if n_amb:
            specials["ambiguous_reads"] += 1
            specials["ambiguous_records"] += n_amb
        n_no = sum(1 for a, f, _ in recs if a in ("noninformative", "intergenic") or not f)
        if n_no:
            specials["no_feature_records"] += n_no
            if n_no == len(recs):
                specials["no_feature_reads"] += 1
    return exp, specials, contrib, multi_locus
