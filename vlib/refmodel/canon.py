"""Canonical splice-site rule from the FASTA only (GT-AG, GC-AG, AT-AC and their reverse complements)."""
FWD = {("GT", "AG"), ("GC", "AG"), ("AT", "AC")}
REV = {("CT", "AC"), ("CT", "GC"), ("GT", "AT")}


def sites(genome_chr, intron):
    """intron: 1-based closed (start, end).  Returns (left dinucleotide, right dinucleotide), upper case."""
    s, e = intron
    return genome_chr[s - 1:s + 1].upper(), genome_chr[e - 2:e].upper()


def intron_strand(genome_chr, intron):
    p = sites(genome_chr, intron)
    f, r = p in FWD, p in REV
    if f == r:
        return "."
    return "+" if f else "-"


def all_canonical(genome_chr, introns, strand):
    table = FWD if strand == "+" else REV
    return all(sites(genome_chr, i) in table for i in introns)
