"""Oracles over output GTFs (written from the GTF format description and the property statements only)."""
from collections import defaultdict


def transcript_table(g):
    """tid -> dict(chr, strand, gene, exons[(s,e)] sorted, n_records, rec) from a parsed GTF."""
    out = {}
    for tid, exs in g["exons"].items():
        out[tid] = {"chr": exs[0]["chr"], "strand": exs[0]["strand"], "gene": exs[0]["attrs"].get("gene_id"),
                    "exons_file_order": [(e["start"], e["end"]) for e in exs],
                    "exons": sorted((e["start"], e["end"]) for e in exs), "exon_recs": exs,
                    "records": g["transcripts"].get(tid, [])}
    for tid, recs in g["transcripts"].items():
        if tid not in out:
            out[tid] = {"chr": recs[0]["chr"], "strand": recs[0]["strand"], "gene": recs[0]["attrs"].get("gene_id"),
                        "exons_file_order": [], "exons": [], "exon_recs": [], "records": recs}
    return out


def ref_table(sc):
    ref = {}
    for g in sc["genes"]:
        for t in g["transcripts"]:
            ref[t["id"]] = {"chr": g["chr"], "strand": g["strand"], "gene": g["id"],
                            "exons": [tuple(e) for e in t["exons"]], "exon_ids": t.get("exon_ids")}
    return ref


def check_ids(out_gtfs, sc, ref_exon_ids=None):
    """C17 oracle.  out_gtfs: {name: parsed gtf}.  Returns list of (signature, detail)."""
    v = []
    ref = ref_table(sc)
    ref_genes = {g["id"]: g for g in sc["genes"]}
    exon_key_to_id = {}
    exon_id_to_key = {}
    for name, g in out_gtfs.items():
        # unique transcript / gene ids
        for tid, recs in g["transcripts"].items():
            if len(recs) != 1:
                v.append(("C17:dup-transcript-id", {"file": name, "transcript": tid, "records": len(recs)}))
        for gid, recs in g["genes"].items():
            if len(recs) != 1:
                v.append(("C17:dup-gene-id", {"file": name, "gene": gid, "records": len(recs)}))
        tt = transcript_table(g)
        for tid, t in tt.items():
            if tid in ref:
                r = ref[tid]
                if t["exons"] != sorted(r["exons"]) or t["chr"] != r["chr"]:
                    v.append(("C17:novel-id-collides-with-reference-transcript",
                              {"file": name, "transcript": tid, "out": t["exons"][:4], "ref": r["exons"][:4]}))
            if t["gene"] in ref_genes and tid not in ref:
                rg = ref_genes[t["gene"]]
                if rg["chr"] != t["chr"]:
                    v.append(("C17:novel-gene-id-collides-with-reference-gene",
                              {"file": name, "gene": t["gene"], "transcript": tid}))
        for gid, recs in g["genes"].items():
            if gid in ref_genes:
                rg = ref_genes[gid]
                gs = min(t["exons"][0][0] for t in rg["transcripts"])
                ge = max(t["exons"][-1][1] for t in rg["transcripts"])
                for rec in recs:
                    if rec["chr"] != rg["chr"] or rec["end"] < gs or rec["start"] > ge:
                        v.append(("C17:novel-gene-id-collides-with-reference-gene",
                                  {"file": name, "gene": gid, "rec": rec["raw"][:120]}))
        # exon ids
        for rec in g["lines"]:
            if rec["type"] != "exon":
                continue
            eid = rec["attrs"].get("exon_id")
            if eid is None:
                v.append(("C17:exon-without-id", {"file": name, "rec": rec["raw"][:160]}))
                continue
            key = (rec["chr"], rec["start"], rec["end"], rec["strand"])
            if key in exon_key_to_id and exon_key_to_id[key][0] != eid:
                a, b = sorted([exon_key_to_id[key][0], eid])
                kind = "first-vs-repeat" if a.isdigit() != b.isdigit() and (a.split(".")[-1] == b.split(".")[-1]) \
                    else "other"
                v.append(("C17:exon-id-not-a-function:" + kind,
                          {"exon": key, "ids": [exon_key_to_id[key], (eid, name)]}))
            exon_key_to_id.setdefault(key, (eid, name))
            if eid in exon_id_to_key and exon_id_to_key[eid][0] != key:
                other = exon_id_to_key[eid][0]
                if other[0] != key[0]:
                    kind = "cross-chromosome"
                elif ref_exon_ids and eid in ref_exon_ids.values():
                    kind = "reuses-reference-id"
                else:
                    kind = "same-chromosome"
                v.append(("C17:exon-id-shared-by-distinct-exons:" + kind,
                          {"id": eid, "exons": [other, key], "file": name}))
            exon_id_to_key.setdefault(eid, (key, name))
            if ref_exon_ids and key in ref_exon_ids and ref_exon_ids[key] != eid:
                v.append(("C17:reference-exon-id-not-preserved", {"exon": key, "ref": ref_exon_ids[key], "out": eid}))
    return v
