"""Oracles over output GTFs (written from the GTF format description and the property statements only)."""
from collections import defaultdict


def transcript_table(g):
    """tid -> dict(chr, strand, gene, exons[(s,e)] sorted, n_records, rec) from a parsed GTF."""
    out = {}
    for tid, exs in g["exons"].items():
        out[tid] = {"chr": exs[0]["chr"], "strand": exs[0]["strand"], "gene": exs[0]["attrs"].get("gene_id"),
                    "exons_file_order": [(e["start"], e["end"]) for e in exs],
                    "exons": sorted((e["start"], e["end"]) for e in exs), "exon_recs": exs,
                    "records": g["transcripts"].get(tid, [])}
    for tid, recs in g["transcripts"].items():
        if tid not in out:
            out[tid] = {"chr": recs[0]["chr"], "strand": recs[0]["strand"], "gene": recs[0]["attrs"].get("gene_id"),
                        "exons_file_order": [], "exons": [], "exon_recs": [], "records": recs}
    return out


def ref_table(sc):
    ref = {}
    for g in sc["genes"]:
        for t in g["transcripts"]:
            ref[t["id"]] = {"chr": g["chr"], "strand": g["strand"], "gene": g["id"],
                            "exons": [tuple(e) for e in t["exons"]], "exon_ids": t.get("exon_ids")}
    return ref


def check_ids(out_gtfs, sc, ref_exon_ids=None):
    """C17 oracle.  out_gtfs: {name: parsed gtf}.  Returns list of (signature, detail)."""
    v = []
    ref = ref_table(sc)
    ref_genes = {g["id"]: g for g in sc["genes"]}
    exon_key_to_id = {}
    exon_id_to_key = {}
    for name, g in out_gtfs.items():
        # unique transcript / gene ids
        for tid, recs in g["transcripts"].items():
            if len(recs) != 1:
                v.append(("C17:dup-transcript-id", {"file": name, "transcript": tid, "records": len(recs)}))
        for gid, recs in g["genes"].items():
            if len(recs) != 1:
                v.append(("C17:dup-gene-id", {"file": name, "gene": gid, "records": len(recs)}))
        tt = transcript_table(g)
        for tid, t in tt.items():
            if tid in ref:
                r = ref[tid]
                if t["exons"] != sorted(r["exons"]) or t["chr"] != r["chr"]:
                    v.append(("C17:novel-id-collides-with-reference-transcript",
                              {"file": name, "transcript": tid, "out": t["exons"][:4], "ref": r["exons"][:4]}))
            if t["gene"] in ref_genes and tid not in ref:
                rg = ref_genes[t["gene"]]
                if rg["chr"] != t["chr"]:
                    v.append(("C17:novel-gene-id-collides-with-reference-gene",
                              {"file": name, "gene": t["gene"], "transcript": tid}))
        for gid, recs in g["genes"].items():
            if gid in ref_genes:
                rg = ref_genes[gid]
                gs = min(t["exons"][0][0] for t in rg["transcripts"])
                ge = max(t["exons"][-1][1] for t in rg["transcripts"])
                for rec in recs:
                    if rec["chr"] != rg["chr"] or rec["end"] < gs or rec["start"] > ge:
                        v.append(("C17:novel-gene-id-collides-with-reference-gene",
                                  {"file": name, "gene": gid, "rec": rec["raw"][:120]}))
        # exon ids
        for rec in g["lines"]:
            if rec["type"] != "exon":
                continue
            eid = rec["attrs"].get("exon_id")
            if eid is None:
                v.append(("C17:exon-without-id", {"file": name, "rec": rec["raw"][:160]}))
                continue
            key = (rec["chr"], rec["start"], rec["end"], rec["strand"])
            if key in exon_key_to_id and exon_key_to_id[key][0] != eid:
                a, b = sorted([exon_key_to_id[key][0], eid])
                kind = "first-vs-repeat" if a.isdigit() != b.isdigit() and (a.split(".")[-1] == b.split(".")[-1]) \
                    else "other"
                v.append(("C17:exon-id-not-a-function:" + kind,
                          {"exon": key, "ids": [exon_key_to_id[key], (eid, name)]}))
            exon_key_to_id.setdefault(key, (eid, name))
            if eid in exon_id_to_key and exon_id_to_key[eid][0] != key:
                other = exon_id_to_key[eid][0]
                if other[0] != key[0]:
                    kind = "cross-chromosome"
                elif ref_exon_ids and eid in ref_exon_ids.values():
                    kind = "reuses-reference-id"
                else:
                    kind = "same-chromosome"
                v.append(("C17:exon-id-shared-by-distinct-exons:" + kind,
                          {"id": eid, "exons": [other, key], "file": name}))
            exon_id_to_key.setdefault(eid, (key, name))
            if ref_exon_ids and key in ref_exon_ids and ref_exon_ids[key] != eid:
                v.append(("C17:reference-exon-id-not-preserved", {"exon": key, "ref": ref_exon_ids[key], "out": eid}))
    return v


def check_wellformed(name, g, chrom_lens):
    """C03 part 1: every transcript well-formed, gene/transcript records consistent.  Returns [(sig, detail)]."""
    v = []
    tt = transcript_table(g)
    gene_members = defaultdict(list)
    for tid, t in tt.items():
        gene_members[t["gene"]].append(tid)
        if not t["exons"]:
            v.append(("C03:transcript-without-exons", {"file": name, "transcript": tid}))
            continue
        if len(t["records"]) != 1:
            v.append(("C03:transcript-record-count", {"file": name, "transcript": tid, "records": len(t["records"])}))
        ex = t["exons"]
        fo = t["exons_file_order"]
        if fo != ex and fo != list(reversed(ex)):
            v.append(("C03:exons-unsorted", {"file": name, "transcript": tid, "exons": fo[:6]}))
        if len(set(r["chr"] for r in t["exon_recs"])) != 1 or len(set(r["strand"] for r in t["exon_recs"])) != 1:
            v.append(("C03:exons-on-different-chr-or-strand", {"file": name, "transcript": tid}))
        L = chrom_lens.get(t["chr"])
        for i, (s, e) in enumerate(ex):
            if not (1 <= s <= e) or (L is not None and e > L):
                v.append(("C03:exon-coordinates-out-of-range", {"file": name, "transcript": tid, "exon": (s, e),
                                                                  "chr_len": L}))
            if i and s <= ex[i - 1][1]:
                v.append(("C03:exons-overlap", {"file": name, "transcript": tid, "exons": ex[i - 1:i + 1]}))
        # exon_number, where given, numbers the exons of the transcript 1..n (in 5'->3' order or by coordinate)
        nums = [r["attrs"].get("exon_number") for r in t["exon_recs"]]
        if nums and all(n is not None and str(n).isdigit() for n in nums):
            by_pos = [int(r["attrs"]["exon_number"]) for r in sorted(t["exon_recs"], key=lambda r: r["start"])]
            want = list(range(1, len(by_pos) + 1))
            if by_pos != want and by_pos != want[::-1]:
                v.append(("C03:exon-numbers-are-not-1-to-n", {"file": name, "transcript": tid, "exon_numbers": by_pos[:8]}))
        for rec in t["records"]:
            if (rec["start"], rec["end"]) != (ex[0][0], ex[-1][1]):
                v.append(("C03:transcript-span-differs-from-exons",
                          {"file": name, "transcript": tid, "record": (rec["start"], rec["end"]),
                           "exons": (ex[0][0], ex[-1][1])}))
            if rec["chr"] != t["chr"] or rec["strand"] != t["strand"]:
                v.append(("C03:transcript-record-chr-or-strand", {"file": name, "transcript": tid}))
            if rec["attrs"].get("gene_id") != t["gene"]:
                v.append(("C03:transcript-record-gene-differs", {"file": name, "transcript": tid}))
    for gid, tids in gene_members.items():
        recs = g["genes"].get(gid, [])
        if len(recs) != 1:
            v.append(("C03:gene-record-count", {"file": name, "gene": gid, "records": len(recs),
                                                "transcripts": tids[:4]}))
            continue
        rec = recs[0]
        for tid in tids:
            t = tt[tid]
            if not t["exons"]:
                continue
            if t["chr"] != rec["chr"]:
                v.append(("C03:gene-on-other-chromosome", {"file": name, "gene": gid, "transcript": tid}))
            elif t["strand"] != rec["strand"]:
                v.append(("C03:gene-strand-differs-from-transcript",
                          {"file": name, "gene": gid, "gene_strand": rec["strand"], "transcript": tid,
                           "transcript_strand": t["strand"]}))
            elif not (rec["start"] <= t["exons"][0][0] and t["exons"][-1][1] <= rec["end"]):
                v.append(("C03:gene-does-not-contain-transcript",
                          {"file": name, "gene": gid, "gene_span": (rec["start"], rec["end"]), "transcript": tid,
                           "span": (t["exons"][0][0], t["exons"][-1][1])}))
    for gid in g["genes"]:
        if gid not in gene_members:
            v.append(("C03:gene-without-transcripts", {"file": name, "gene": gid}))
    return v


def check_reference_verbatim(name, g, sc):
    v = []
    ref = ref_table(sc)
    tt = transcript_table(g)
    for tid, t in tt.items():
        if tid in ref:
            r = ref[tid]
            if t["exons"] != sorted(r["exons"]):
                v.append(("C03:reference-transcript-coordinates-changed",
                          {"file": name, "transcript": tid, "out": t["exons"][:6], "ref": r["exons"][:6]}))
            if t["strand"] != r["strand"] or t["chr"] != r["chr"]:
                v.append(("C03:reference-transcript-strand-or-chr-changed", {"file": name, "transcript": tid}))
            if t["gene"] != r["gene"]:
                v.append(("C03:reference-transcript-gene-changed",
                          {"file": name, "transcript": tid, "out": t["gene"], "ref": r["gene"]}))
    return v


def check_extended(models, extended, sc):
    """extended = all reference transcripts + exactly the novel transcripts of models, same coordinates."""
    v = []
    ref = ref_table(sc)
    tm = transcript_table(models)
    te = transcript_table(extended)
    for tid in ref:
        if tid not in te:
            v.append(("C03:extended-misses-reference-transcript", {"transcript": tid}))
    novel_m = {tid: t for tid, t in tm.items() if tid not in ref}
    novel_e = {tid: t for tid, t in te.items() if tid not in ref}
    for tid, t in novel_m.items():
        if tid not in novel_e:
            v.append(("C03:extended-misses-novel-transcript", {"transcript": tid}))
        else:
            e = novel_e[tid]
            if (e["exons"], e["strand"], e["chr"], e["gene"]) != (t["exons"], t["strand"], t["chr"], t["gene"]):
                v.append(("C03:extended-novel-transcript-differs",
                          {"transcript": tid, "models": [t["exons"][:4], t["strand"], t["gene"]],
                           "extended": [e["exons"][:4], e["strand"], e["gene"]]}))
    for tid in novel_e:
        if tid not in novel_m:
            v.append(("C03:extended-has-extra-transcript", {"transcript": tid}))
    return v
