"""Structural (in)compatibility of a read with an isoform from coordinates alone (three-valued, wide margins).
Written from the documentation of the matching tolerances (docs/cmd.md, docs/formats.md); no repository imports."""


def introns(blocks):
    return [(blocks[i][1] + 1, blocks[i + 1][0] - 1) for i in range(len(blocks) - 1)]


def overlap(a, b):
    return max(0, min(a[1], b[1]) - max(a[0], b[0]) + 1)


def sure_incompatible(read, iso, delta, max_intron_shift=60):
    """read, iso: sorted exon/block lists (1-based closed).  Returns a witness string or None (= unsure)."""
    if not any(overlap(r, e) for r in read for e in iso):
        return "no-exon-overlap"
    ri = introns(read)
    ii = introns(iso)
    M = max_intron_shift + 2 * delta + 10
    span = (iso[0][0], iso[-1][1])
    for r in ri:
        if r[1] - r[0] + 1 <= 100:
            continue
        if not (span[0] + 10 <= r[0] and r[1] <= span[1] - 10):
            continue
        if any(abs(r[0] - i[0]) <= M and abs(r[1] - i[1]) <= M for i in ii):
            continue
        # a read intron that swallows a short isoform exon may be called an exon misalignment: not sure
        inner = [e for e in iso if r[0] <= e[0] and e[1] <= r[1]]
        if any(e[1] - e[0] + 1 <= 120 + delta for e in inner):
            continue
        return "read-intron-without-counterpart:%d-%d" % tuple(r)
    for i in ii:
        if i[1] - i[0] + 1 < 100:
            continue
        for b in read:
            if b[0] + 20 <= i[0] and i[1] <= b[1] - 20:
                return "isoform-intron-retained:%d-%d" % tuple(i)
    for i in ii:
        for b in read:
            if overlap(b, i) >= 80 + delta:
                return "read-exon-inside-isoform-intron:%d-%d" % tuple(b)
    return None
