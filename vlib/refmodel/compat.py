"""Structural (in)compatibility of a read with an isoform from coordinates alone (three-valued, wide margins).
Written from the documentation of the matching tolerances (docs/cmd.md, docs/formats.md); no repository imports."""


def introns(blocks):
    return [(blocks[i][1] + 1, blocks[i + 1][0] - 1) for i in range(len(blocks) - 1)]


def overlap(a, b):
    return max(0, min(a[1], b[1]) - max(a[0], b[0]) + 1)


FAR_END = 300


def sure_incompatible(read, iso, delta, max_intron_shift=60, far_ends=False):
    """read, iso: sorted exon/block lists (1-based closed).  Returns a witness string or None (= unsure).
    far_ends: also accept as witness a terminal read block that overlaps the terminal exon of the isoform on the same
    side and runs >= FAR_END + delta bp beyond it (documented as major_exon_elongation, "exceeding" the minor
    extension of 50 bp; used for class-F reads only)."""
    if not any(overlap(r, e) for r in read for e in iso):
        return "no-exon-overlap"
    if far_ends:
        if overlap(read[0], iso[0]) and read[0][0] <= iso[0][0] - FAR_END - delta:
            return "read-start-far-beyond-isoform-start:%d" % (iso[0][0] - read[0][0])
        if overlap(read[-1], iso[-1]) and read[-1][1] >= iso[-1][1] + FAR_END + delta:
            return "read-end-far-beyond-isoform-end:%d" % (read[-1][1] - iso[-1][1])
    ri = introns(read)
    ii = introns(iso)
    if far_ends:
        # an intron of the read that begins at the isoform's end (or a little past it) and leads to a block of >= 100 bp
        # entirely beyond the isoform: an additional exon outside the annotated transcript (more than a fake terminal
        # exon of <= 40 bp, not an elongation)
        for k, r in enumerate(ri):
            if r[1] - r[0] + 1 < 250:
                continue
            nxt, prv = read[k + 1], read[k]
            if r[0] >= iso[-1][1] - 5 and overlap(prv, iso[-1]) and nxt[1] - nxt[0] + 1 >= 100:
                return "read-exon-beyond-isoform-end:%d-%d" % tuple(nxt)
            if r[1] <= iso[0][0] + 5 and overlap(nxt, iso[0]) and prv[1] - prv[0] + 1 >= 100:
                return "read-exon-before-isoform-start:%d-%d" % tuple(prv)
    M = max_intron_shift + 2 * delta + 10
    span = (iso[0][0], iso[-1][1])
    for r in ri:
        if r[1] - r[0] + 1 <= 100:
            continue
        if not (span[0] + 10 <= r[0] and r[1] <= span[1] - 10):
            continue
        if any(abs(r[0] - i[0]) <= M and abs(r[1] - i[1]) <= M for i in ii):
            continue
        # a read intron that swallows a short isoform exon may be called an exon misalignment: not sure
        inner = [e for e in iso if r[0] <= e[0] and e[1] <= r[1]]
        if any(e[1] - e[0] + 1 <= 120 + delta for e in inner):
            continue
        return "read-intron-without-counterpart:%d-%d" % tuple(r)
    for i in ii:
        if i[1] - i[0] + 1 < 100:
            continue
        for b in read:
            if b[0] + 20 <= i[0] and i[1] <= b[1] - 20:
                return "isoform-intron-retained:%d-%d" % tuple(i)
    for i in ii:
        for b in read:
            if overlap(b, i) >= 80 + delta:
                return "read-exon-inside-isoform-intron:%d-%d" % tuple(b)
    return None
