"""Coordinate translation and strand reflection of scenarios and of IsoQuant outputs (C11)."""
import copy
import re

from .. import build, reads as R

COORD_EVENTS = ("alternative_tss_left", "alternative_tss_right", "alternative_polya_site_left",
                "alternative_polya_site_right", "correct_polya_site_left", "correct_polya_site_right",
                "internal_polya_left", "internal_polya_right")
_RANGE = re.compile(r"^\d+-\d+(,\d+-\d+)*$")


# ------------------------------------------------------------------------------------------------ inputs

def shift_inputs(sc, genome, k):
    """k bases inserted at the start of every chromosome."""
    sc2 = copy.deepcopy(sc)
    g2 = {}
    for c in sc2["chroms"]:
        pre = build.filler(k, c[2] + 7919)
        g2[c[0]] = pre + genome[c[0]]
        c[1] += k
    for g in sc2["genes"]:
        for t in g["transcripts"]:
            t["exons"] = [[a + k, b + k] for a, b in t["exons"]]
    for r in sc2["reads"]:
        if r.get("c") is not None:
            r["seq"] = build.read_seq(r, genome)
            r["p"] += k
    return sc2, g2


def reflect_inputs(sc, genome):
    sc2 = copy.deepcopy(sc)
    g2 = {c[0]: build.revcomp(genome[c[0]]) for c in sc2["chroms"]}
    L = {c[0]: c[1] for c in sc2["chroms"]}
    for g in sc2["genes"]:
        g["strand"] = {"+": "-", "-": "+"}[g["strand"]]
        for t in g["transcripts"]:
            n = L[g["chr"]]
            t["exons"] = sorted([n + 1 - b, n + 1 - a] for a, b in t["exons"])
    for r in sc2["reads"]:
        if r.get("c") is None:
            continue
        seq = build.read_seq(r, genome)
        end = R.ref_end_of(r)
        r["p"] = L[r["c"]] - end
        r["cg"] = [list(x) for x in reversed(r["cg"])]
        r["seq"] = build.revcomp(seq)
        r["f"] ^= 16
        for key in ("sl", "sr", "mm"):
            r.pop(key, None)
    return sc2, g2


# ------------------------------------------------------------------------------------------------ outputs (shift)

def shift_ranges(s, k):
    return ",".join("%d-%d" % (int(a) + k, int(b) + k) for a, b in (x.split("-") for x in s.split(",")))


def shift_event(e, k):
    if ":" not in e:
        return e
    name, payload = e.split(":", 1)
    if _RANGE.match(payload):
        return name + ":" + shift_ranges(payload, k)
    if name in COORD_EVENTS:
        return name + ":" + str(int(payload) + k)
    return e


_EV_SPLIT = re.compile(r",(?=[A-Za-z_.])")


def shift_line(kind, line, k):
    """kind: file key as in compare.file_map.  Returns the line with all coordinates moved by k."""
    if line.startswith(("# ", "##", "#read_id\t", "#feature_id\t", "#chr\t", "#chrom\t", "#isoform\t")) or \
            not line.strip():
        return line
    nl = "\n" if line.endswith("\n") else ""
    f = line.rstrip("\n").split("\t")
    if kind == "read_assignments.tsv":
        if f[6] not in (".", ""):
            f[6] = ",".join(shift_event(e, k) for e in _EV_SPLIT.split(f[6]))
        if f[7] not in (".", ""):
            f[7] = shift_ranges(f[7], k)
    elif kind == "corrected_reads.bed":
        for i in (1, 2, 6, 7):
            f[i] = str(int(f[i]) + k)
    elif kind.endswith(".gtf"):
        if len(f) >= 5:
            f[3] = str(int(f[3]) + k)
            f[4] = str(int(f[4]) + k)
    elif kind in ("exon_counts.tsv", "intron_counts.tsv", "exon_grouped_counts.tsv", "intron_grouped_counts.tsv"):
        f[1] = str(int(f[1]) + k)
        f[2] = str(int(f[2]) + k)
    return "\t".join(f) + nl


# ------------------------------------------------------------------------------------------------ outputs (reflection)

def swap_lr(name):
    if name.endswith("_left"):
        return name[:-5] + "_right"
    if name.endswith("_right"):
        return name[:-6] + "_left"
    if "_left_" in name:
        return name.replace("_left_", "_right_")
    if "_right_" in name:
        return name.replace("_right_", "_left_")
    return name


def flip(strand):
    return {"+": "-", "-": "+"}.get(strand, strand)


def mirror_exons(exons, n):
    return sorted((n + 1 - b, n + 1 - a) for a, b in exons)
