"""Set-of-positions reference model for the interval primitives (C19).  Imports nothing from the repository."""
import itertools


def pos(iv):
    return set(range(iv[0], iv[1] + 1))


def lpos(lst):
    s = set()
    for iv in lst:
        s |= pos(iv)
    return s


def all_intervals(n):
    return [(a, b) for a in range(1, n + 1) for b in range(a, n + 1)]


def all_lists(n, kmax, kmin=1):
    """All sorted, pairwise disjoint (touching allowed) interval lists with kmin..kmax intervals over 1..n."""
    def gen(start, k):
        if k == 0:
            yield []
            return
        for a in range(start, n + 1):
            for b in range(a, n + 1):
                for rest in gen(b + 1, k - 1):
                    yield [(a, b)] + rest
    out = []
    for k in range(kmin, kmax + 1):
        out.extend(gen(1, k))
    return out


def to_intervals(s):
    """sorted maximal runs of a set of ints"""
    out = []
    for p in sorted(s):
        if out and out[-1][1] == p - 1:
            out[-1][1] = p
        else:
            out.append([p, p])
    return [tuple(x) for x in out]


def is_nontrivial_list(lst):
    """touching intervals or single-base intervals"""
    return any(lst[i + 1][0] == lst[i][1] + 1 for i in range(len(lst) - 1)) or any(a == b for a, b in lst)


def split_segments(exons):
    """Disjoint covering segments with a border at every exon start and after every exon end."""
    covered = lpos(exons)
    borders = set(e[0] for e in exons) | set(e[1] + 1 for e in exons)
    segs = []
    for p in sorted(covered):
        if segs and segs[-1][1] == p - 1 and p not in borders:
            segs[-1][1] = p
        else:
            segs.append([p, p])
    return [tuple(x) for x in segs]
