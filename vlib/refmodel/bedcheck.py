"""BED12 validity predicate (from the UCSC BED format description)."""


def check_bed12(rec, chrom_lens):
    """Returns list of problem strings for one parsed BED12 record."""
    p = []
    n = rec["count"]
    if n != len(rec["sizes"]) or n != len(rec["starts"]) or n < 1:
        p.append("blockCount/sizes/starts disagree")
        return p
    if any(z <= 0 for z in rec["sizes"]):
        p.append("non-positive block size")
    if rec["starts"][0] != 0:
        p.append("first blockStart is not 0")
    for i in range(1, n):
        if rec["starts"][i] < rec["starts"][i - 1] + rec["sizes"][i - 1]:
            p.append("blocks overlap or are not ascending")
            break
    if rec["starts"][-1] + rec["sizes"][-1] != rec["end"] - rec["start"]:
        p.append("last block does not end at chromEnd")
    L = chrom_lens.get(rec["chr"])
    if not (0 <= rec["start"] < rec["end"]) or (L is not None and rec["end"] > L):
        p.append("coordinates outside the chromosome")
    if rec["strand"] not in ("+", "-", "."):
        p.append("bad strand")
    return p
