"""Reference walk of a CIGAR per the SAM specification (no repository imports)."""
M, I, D, N, S, H, P, EQ, X = 0, 1, 2, 3, 4, 5, 6, 7, 8
ALIGNED = (M, EQ, X)


def walk(ref_start0, cigar):
    """Returns list of segments between N gaps: dict(ref=(s,e) 1-based closed or None, read=(qs,qe) 0-based closed or
    None, ops=(first_index,last_index), has_match=bool).  Query offsets count S, I and aligned bases (not H)."""
    segs = []
    rp = ref_start0 + 1
    qp = 0
    cur = None

    def close():
        nonlocal cur
        if cur is not None:
            segs.append(cur)
            cur = None
    for idx, (op, ln) in enumerate(cigar):
        if op in ALIGNED or op in (I, D):
            if cur is None:
                cur = {"ref_s": rp, "ref_e": rp - 1, "q_s": qp, "q_e": qp - 1, "op_s": idx, "op_e": idx,
                       "has_match": False}
            cur["op_e"] = idx
            if op in ALIGNED:
                rp += ln
                qp += ln
                cur["has_match"] = True
            elif op == I:
                qp += ln
            else:
                rp += ln
            cur["ref_e"] = rp - 1
            cur["q_e"] = qp - 1
        elif op == N:
            close()
            rp += ln
        elif op == S:
            close()
            qp += ln
        elif op in (H, P):
            pass
    close()
    return segs


def valid(cigar):
    """SAM-valid shape used by the enumerator: H only outermost, S only next to H/ends, N interior and not next to a clip,
    at least one aligned base.  Equal adjacent operations (MM, II, NN, ...) are allowed: the SAM specification only
    recommends merging them and CIGAR post-processing tools emit them."""
    n = len(cigar)
    ops = [o for o, _ in cigar]
    if not any(o in ALIGNED for o in ops):
        return False
    for i, o in enumerate(ops):
        if i and ops[i - 1] == o and o in (S, H):
            return False
        if o == H and i not in (0, n - 1):
            return False
        if o == S:
            left_ok = i == 0 or (i == 1 and ops[0] == H)
            right_ok = i == n - 1 or (i == n - 2 and ops[-1] == H)
            if not (left_ok or right_ok):
                return False
        if o == N:
            if i == 0 or i == n - 1:
                return False
            if ops[i - 1] in (S, H) or ops[i + 1] in (S, H):
                return False
    core = [o for o in ops if o not in (S, H)]
    if not core or core[0] == N or core[-1] == N:
        return False
    return True
