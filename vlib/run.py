"""Runners for IsoQuant: fork (fast, in a child of a process that pre-imported the repo) and spawn (fresh interpreter)."""
import os
import subprocess
import sys

from . import REPO, PYTHON

_isoquant = None


def preload():
    """Import the repository once in this process; pipeline code is only ever *run* in forked children."""
    global _isoquant
    if _isoquant is None:
        if REPO not in sys.path:
            sys.path.insert(0, REPO)
        import isoquant  # noqa
        _isoquant = isoquant
    return _isoquant


def run_fork(argv, home, log_path, env=None, pre=None, timeout=600):
    """Run isoquant.main(argv) in a forked child.  Returns exit code (0..255); -9 on timeout."""
    iq = preload()
    sys.stdout.flush()
    sys.stderr.flush()
    pid = os.fork()
    if pid == 0:
        code = 1
        try:
            os.environ["HOME"] = home
            if env:
                os.environ.update(env)
            os.makedirs(home, exist_ok=True)
            fd = os.open(log_path, os.O_WRONLY | os.O_CREAT | os.O_TRUNC, 0o644)
            os.dup2(fd, 1)
            os.dup2(fd, 2)
            devnull = os.open(os.devnull, os.O_RDONLY)
            os.dup2(devnull, 0)
            sys.argv = ["isoquant.py"] + list(argv)
            if pre:
                pre()
            try:
                iq.main(list(argv))
                code = 0
            except SystemExit as e:
                c = e.code
                code = 0 if c is None else (c & 0xff if isinstance(c, int) else 1)
            except BaseException:
                import traceback
                traceback.print_exc()
                code = 255
            try:
                sys.stdout.flush()
                sys.stderr.flush()
            except Exception:
                pass
        finally:
            os._exit(code)
    # parent
    import time
    t0 = time.time()
    while True:
        wpid, status = os.waitpid(pid, os.WNOHANG)
        if wpid == pid:
            break
        if time.time() - t0 > timeout:
            try:
                os.kill(pid, 9)
            except ProcessLookupError:
                pass
            os.waitpid(pid, 0)
            return -9
        time.sleep(0.002)
    if os.WIFEXITED(status):
        return os.WEXITSTATUS(status)
    return -os.WTERMSIG(status)


def run_spawn(argv, home, log_path, env=None, hashseed=None, timeout=900, wrapper=None, cwd=None):
    """Fresh interpreter: /venv/bin/python /repo/isoquant.py argv.  Returns exit code."""
    e = dict(os.environ)
    e["HOME"] = home
    os.makedirs(home, exist_ok=True)
    if hashseed is not None:
        e["PYTHONHASHSEED"] = str(hashseed)
    if env:
        e.update(env)
    cmd = [PYTHON] + (list(wrapper) if wrapper else [os.path.join(REPO, "isoquant.py")]) + list(argv)
    with open(log_path, "wb") as log:
        try:
            p = subprocess.run(cmd, stdout=log, stderr=subprocess.STDOUT, stdin=subprocess.DEVNULL, env=e,
                               timeout=timeout, cwd=cwd)
            return p.returncode & 0xff if p.returncode >= 0 else p.returncode
        except subprocess.TimeoutExpired:
            return -9
