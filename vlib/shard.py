"""Sharded execution of property stages, merging, known-findings handling, evidence and replay files.

A property module (props/cNN.py) defines:
    ID, LEVEL, RULE, TECHNIQUE (strings)
    stages(tier) -> list of Stage
and optionally  reduce(case, signature, evaluate) -> smaller case.

A Stage has a name, a kind:
    'hyp'  : strategy() -> hypothesis strategy of JSON-able cases; n = number of examples (split over shards)
    'enum' : enumerate(shard, nshards) -> iterator of cases (finite domain, partitioned)
    'list' : cases() -> list of cases (split over shards round-robin)
    'hypfuzz' : like 'hyp', but the strategy is driven by libFuzzer through atheris
             (`test.hypothesis.fuzz_one_input`): coverage-guided search over the same generator and oracle; the
             repository modules are imported under atheris instrumentation (coverage feedback from /repo only)
and evaluate(case, ctx) which records verdicts on ctx and never raises for a property violation.
"""
import hashlib
import json
import os
import shutil
import subprocess
import sys
import tempfile
import time
import traceback
from collections import Counter

from . import VERIF, PYTHON

NSHARDS = int(os.environ.get("VERIF_SHARDS", "16"))
MAX_KEEP_PER_SIG = 3


class CaseTimeout(Exception):
    pass


class time_limit:
    """Watchdog for in-process cases: a reader that lost byte alignment may loop over a garbage length."""

    def __init__(self, seconds):
        self.seconds = seconds

    def _raise(self, signum, frame):
        raise CaseTimeout("case exceeded %d s" % self.seconds)

    def __enter__(self):
        import signal
        self.old = signal.signal(signal.SIGALRM, self._raise)
        signal.alarm(self.seconds)

    def __exit__(self, *a):
        import signal
        signal.alarm(0)
        signal.signal(signal.SIGALRM, self.old)
        return False


def derive_seed(seed, *parts):
    h = hashlib.sha256(("%d|" % seed + "|".join(str(p) for p in parts)).encode()).hexdigest()
    return int(h[:12], 16)


def case_hash(obj):
    return hashlib.sha1(json.dumps(obj, sort_keys=True, default=str).encode()).hexdigest()[:16]


class Stage:
    def __init__(self, name, kind, evaluate, n=0, strategy=None, enumerate=None, cases=None, exhaustive=False,
                 shards=None, vary_hashseed=False, run=None, max_len=4096):
        self.name = name
        self.kind = kind
        self.evaluate = evaluate
        self.n = n
        self.strategy = strategy
        self.enumerate = enumerate
        self.cases = cases
        self.exhaustive = exhaustive
        self.shards = shards
        self.max_len = max_len      # kind 'hypfuzz': libFuzzer -max_len
        self.run = run      # kind 'func': run(shard, nshards, seed, n, ctx) drives its own search (e.g. a state machine)
        # when set, every shard worker (and the IsoQuant children it forks) runs under its own PYTHONHASHSEED
        self.vary_hashseed = vary_hashseed


class Ctx:
    """Per-worker accumulator handed to evaluate()."""

    def __init__(self, workdir=None):
        self.evaluations = 0
        self.nontrivial = set()
        self.nontrivial_n = 0     # cases distinct by construction (enumerations): counted, not hashed
        self.classes = Counter()
        self.samples = []
        self.violations = []      # dicts: sig, detail, case
        self.sig_counts = Counter()
        self.grey = 0
        self.pipeline_runs = 0
        self.crashed_runs = 0
        self.harness_errors = []
        self.workdir = workdir
        self.notes = Counter()
        self._n = 0

    def cls(self, *labels):
        for l in labels:
            self.classes[l] += 1

    def note(self, label, k=1):
        self.notes[label] += k

    def mark_nontrivial(self, key):
        self.nontrivial.add(key if isinstance(key, str) else case_hash(key))

    def sample(self, obj, limit=4):
        if len(self.samples) < limit:
            self.samples.append(obj)

    def violation(self, sig, detail, case):
        self.sig_counts[sig] += 1
        kept = [v for v in self.violations if v["sig"] == sig]
        size = len(json.dumps(case, default=str))
        if len(kept) < MAX_KEEP_PER_SIG:
            self.violations.append({"sig": sig, "detail": detail, "case": case, "size": size})
        else:
            big = max(kept, key=lambda v: v["size"])
            if size < big["size"]:
                self.violations.remove(big)
                self.violations.append({"sig": sig, "detail": detail, "case": case, "size": size})

    def scratch(self):
        self._n += 1
        d = os.path.join(self.workdir, "c%06d" % self._n)
        os.makedirs(d, exist_ok=True)
        return d

    def dump(self):
        return {"evaluations": self.evaluations, "nontrivial": sorted(self.nontrivial),
                "nontrivial_n": self.nontrivial_n,
                "classes": dict(self.classes), "samples": self.samples, "violations": self.violations,
                "sig_counts": dict(self.sig_counts), "grey": self.grey, "pipeline_runs": self.pipeline_runs,
                "crashed_runs": self.crashed_runs, "harness_errors": self.harness_errors[:5],
                "notes": dict(self.notes)}


def load_prop(pid):
    import importlib
    return importlib.import_module("props.%s" % pid.lower())


def _run_stage_in_worker(mod, stage, shard, nshards, seed, ctx):
    if stage.kind == "hyp":
        import hypothesis
        from hypothesis import given, settings, HealthCheck, Phase
        n = stage.n // nshards + (1 if shard < stage.n % nshards else 0)
        if n <= 0:
            return
        strat = stage.strategy()

        @hypothesis.seed(derive_seed(seed, mod.ID, stage.name, shard))
        @settings(max_examples=n, database=None, deadline=None, derandomize=False, report_multiple_bugs=False,
                  suppress_health_check=list(HealthCheck), phases=[Phase.generate])
        @given(strat)
        def body(case):
            ctx.evaluations += 1
            stage.evaluate(case, ctx)
        body()
    elif stage.kind == "enum":
        for case in stage.enumerate(shard, nshards):
            ctx.evaluations += 1
            stage.evaluate(case, ctx)
    elif stage.kind == "list":
        for i, case in enumerate(stage.cases()):
            if i % nshards == shard:
                ctx.evaluations += 1
                stage.evaluate(case, ctx)
    elif stage.kind == "hypfuzz":
        import atheris
        from hypothesis import given, settings, HealthCheck
        n = stage.n // nshards + (1 if shard < stage.n % nshards else 0)
        if n <= 0:
            return
        strat = stage.strategy()

        @settings(database=None, deadline=None, suppress_health_check=list(HealthCheck))
        @given(strat)
        def body(case):
            ctx.evaluations += 1
            with time_limit(30):
                stage.evaluate(case, ctx)
        fuzz_one = body.hypothesis.fuzz_one_input
        state = {"calls": 0}

        def one(data):
            state["calls"] += 1
            try:
                fuzz_one(data)
            except CaseTimeout:
                ctx.note("case_timeout")
            if ctx.evaluations >= n or state["calls"] >= 50 * n:
                ctx.note("fuzzer_calls", state["calls"])
                ctx.finish("ok")          # libFuzzer never returns control: the worker result is written from here
                sys.stdout.flush()
                os._exit(0)
        corpus = os.path.join(ctx.workdir, "corpus")
        os.makedirs(corpus, exist_ok=True)
        atheris.Setup([sys.argv[0], "-seed=%d" % (derive_seed(seed, mod.ID, stage.name, shard) % 2147483647 + 1),
                       "-max_len=%d" % stage.max_len, "-runs=2000000000", "-rss_limit_mb=0", "-timeout=120",
                       "-verbosity=0", "-print_final_stats=0", corpus], one)
        atheris.Fuzz()
    elif stage.kind == "func":
        n = stage.n // nshards + (1 if shard < stage.n % nshards else 0)
        if n > 0:
            stage.run(shard, nshards, derive_seed(seed, mod.ID, stage.name, shard), n, ctx)
    else:
        raise ValueError(stage.kind)


def replay_worker(argv):
    _, pid, path, tier, out = argv
    sys.path.insert(0, VERIF)
    res = {"status": "ok"}
    try:
        rp, ctx = replay(pid, path, tier)
        res.update(ctx.dump())
        res["stage"] = rp["stage"]
    except BaseException:
        res = {"status": "error", "harness_errors": [traceback.format_exc()]}
    with open(out, "w") as f:
        json.dump(res, f, default=str)


def run_regression(pid, tier, files=None):
    """Re-evaluate every committed replay file of this property (seconds-long regression tier)."""
    import glob
    if files is None:
        files = sorted(glob.glob(os.path.join(VERIF, "replays", pid, "*.json")))
    if not files:
        return []
    tmp = tempfile.mkdtemp(prefix="iqverif-reg-")
    env = dict(os.environ)
    env["PYTHONHASHSEED"] = "0"
    env["PYTHONPATH"] = VERIF + os.pathsep + env.get("PYTHONPATH", "")
    env["PYTHONWARNINGS"] = "ignore"
    out = []
    try:
        procs = []
        for i, fpath in enumerate(files):
            o = os.path.join(tmp, "g%d.json" % i)
            log = open(os.path.join(tmp, "g%d.log" % i), "wb")
            fenv = dict(env)
            try:
                with open(fpath) as f:
                    hs = json.load(f).get("case", {}).get("_hashseed")
                if hs is not None:
                    fenv["PYTHONHASHSEED"] = str(hs)
            except Exception:
                pass
            procs.append((subprocess.Popen([PYTHON, "-m", "vlib.shard", "--replay", pid, fpath, tier, o], cwd=VERIF,
                                           env=fenv, stdout=log, stderr=subprocess.STDOUT), o, log, fpath))
            if len(procs) >= NSHARDS:
                _drain(procs, out)
                procs = []
        _drain(procs, out)
    finally:
        shutil.rmtree(tmp, ignore_errors=True)
    return out


def _drain(procs, out):
    for p, o, log, fpath in procs:
        p.wait()
        log.close()
        if os.path.exists(o):
            with open(o) as f:
                r = json.load(f)
        else:
            with open(log.name, errors="replace") as f:
                r = {"status": "error", "harness_errors": ["replay worker died: " + f.read()[-2000:]]}
        r["file"] = fpath
        out.append(r)


def worker_main(argv):
    if argv and argv[0] == "--replay":
        return replay_worker(argv)
    pid, stage_name, shard, nshards, seed, tier, out = argv
    shard, nshards, seed = int(shard), int(nshards), int(seed)
    sys.path.insert(0, VERIF)
    workdir = tempfile.mkdtemp(prefix="iqverif-%s-%s-%d-" % (pid, stage_name, shard))
    ctx = Ctx(workdir)

    def finish(status):
        shutil.rmtree(workdir, ignore_errors=True)
        res = ctx.dump()
        res["status"] = status
        with open(out + ".tmp", "w") as f:
            json.dump(res, f, default=str)
        os.replace(out + ".tmp", out)
    ctx.finish = finish
    status = "ok"
    try:
        if stage_name.startswith("fuzz"):
            # coverage-guided stages: everything imported from the repository from here on is instrumented
            import atheris
            from . import run as _run
            with atheris.instrument_imports(include=["src", "isoquant"], enable_loader_override=False):
                _run.preload()
                mod = load_prop(pid)
                stage = [s for s in mod.stages(tier) if s.name == stage_name][0]
                _run_stage_in_worker(mod, stage, shard, nshards, seed, ctx)
        else:
            mod = load_prop(pid)
            stage = [s for s in mod.stages(tier) if s.name == stage_name][0]
            _run_stage_in_worker(mod, stage, shard, nshards, seed, ctx)
    except BaseException:
        status = "error"
        ctx.harness_errors.append(traceback.format_exc())
    finish(status)


def run_stage_sharded(pid, stage, seed, tier, nshards=None):
    nshards = stage.shards or nshards or NSHARDS
    if stage.kind in ("hyp", "func", "hypfuzz"):
        nshards = max(1, min(nshards, stage.n))
    tmp = tempfile.mkdtemp(prefix="iqverif-par-")
    procs = []
    env = dict(os.environ)
    env["PYTHONHASHSEED"] = "0"
    env["PYTHONPATH"] = VERIF + os.pathsep + env.get("PYTHONPATH", "")
    env["PYTHONWARNINGS"] = "ignore"
    try:
        for sh in range(nshards):
            out = os.path.join(tmp, "r%d.json" % sh)
            log = open(os.path.join(tmp, "w%d.log" % sh), "wb")
            wenv = env
            if stage.vary_hashseed:
                wenv = dict(env)
                wenv["PYTHONHASHSEED"] = str(derive_seed(seed, "hashseed", stage.name, sh) % 4294967295)
            p = subprocess.Popen([PYTHON, "-m", "vlib.shard", pid, stage.name, str(sh), str(nshards), str(seed), tier,
                                  out], cwd=VERIF, env=wenv, stdout=log, stderr=subprocess.STDOUT)
            procs.append((p, out, log))
        results = []
        for p, out, log in procs:
            p.wait()
            log.close()
            if os.path.exists(out):
                with open(out) as f:
                    results.append(json.load(f))
            else:
                with open(log.name, errors="replace") as f:
                    results.append({"status": "error", "harness_errors": ["worker died: " + f.read()[-3000:]]})
        return results
    finally:
        shutil.rmtree(tmp, ignore_errors=True)


def load_known():
    path = os.path.join(VERIF, "known_findings.jsonl")
    out = []
    if os.path.exists(path):
        for l in open(path):
            l = l.strip()
            if l and not l.startswith("#"):
                out.append(json.loads(l))
    return out


def write_replay(pid, stage_name, sig, v):
    d = os.path.join(os.environ.get("VERIF_SCRATCH_OUT") or VERIF, "replays", pid)
    os.makedirs(d, exist_ok=True)
    h = hashlib.sha1(sig.encode()).hexdigest()[:10]
    path = os.path.join(d, "%s.json" % h)
    if os.path.exists(path):
        # never overwrite a committed replay (e.g. of a repaired finding): a new violation with the same signature
        # gets its own file
        try:
            with open(path) as f:
                old = json.load(f)
            if old.get("case") != json.loads(json.dumps(v["case"], default=str)):
                path = os.path.join(d, "%s-%s.json" % (h, case_hash(v["case"])[:8]))
        except Exception:
            path = os.path.join(d, "%s-%s.json" % (h, case_hash(v["case"])[:8]))
    with open(path, "w") as f:
        json.dump({"property": pid, "stage": stage_name, "signature": sig, "detail": v["detail"], "case": v["case"]},
                  f, indent=1, default=str)
    return path


def replay(pid, path, tier="quick"):
    sys.path.insert(0, VERIF)
    mod = load_prop(pid)
    with open(path) as f:
        rp = json.load(f)
    stage = [s for s in mod.stages(tier) if s.name == rp["stage"]][0]
    workdir = tempfile.mkdtemp(prefix="iqverif-replay-")
    ctx = Ctx(workdir)
    try:
        ctx.evaluations += 1
        stage.evaluate(rp["case"], ctx)
    finally:
        shutil.rmtree(workdir, ignore_errors=True)
    return rp, ctx


def main_check(pid, tier, seed, replay_path=None):
    """Entry point used by /verif/check.  Returns the process exit code."""
    sys.path.insert(0, VERIF)
    t0 = time.time()
    pid = pid.upper()
    try:
        mod = load_prop(pid)
    except Exception:
        traceback.print_exc()
        return 2
    known = [k for k in load_known() if k.get("property") == pid]
    known_sigs = {k["signature"]: k for k in known if k.get("status") == "known"}

    if replay_path:
        r = run_regression(pid, tier, [os.path.abspath(replay_path)])[0]
        if r.get("status") != "ok":
            print((r.get("harness_errors") or ["replay failed"])[0])
            return 2
        sigs = set(v["sig"] for v in r["violations"])
        for s in sorted(sigs):
            if s in known_sigs:
                print("KNOWN-FINDING: property=%s %s" % (pid, known_sigs[s]["what"]))
            else:
                print("VIOLATION property=%s replay=%s" % (pid, replay_path))
                print("  signature: %s" % s)
                for v in r["violations"]:
                    if v["sig"] == s:
                        print("  detail: %s" % json.dumps(v["detail"], default=str)[:2000])
                        break
        if not sigs:
            print("replay %s: property holds on this case" % replay_path)
        return 1 if any(s not in known_sigs for s in sigs) else 0

    stages = mod.stages(tier)
    merged = {"evaluations": 0, "nontrivial": set(), "nontrivial_n": 0, "classes": Counter(), "samples": [], "violations": {},
              "sig_counts": Counter(), "grey": 0, "pipeline_runs": 0, "crashed_runs": 0, "notes": Counter()}
    harness = []
    per_stage = {}
    exhaustive_all = True
    reg = run_regression(pid, tier)
    reg_info = {"files": len(reg), "still_failing": 0}
    for r in reg:
        if r.get("status") != "ok":
            harness.extend(r.get("harness_errors") or ["replay failure"])
            continue
        merged["evaluations"] += r["evaluations"]
        merged["pipeline_runs"] += r["pipeline_runs"]
        merged["sig_counts"].update(r["sig_counts"])
        if r["violations"]:
            reg_info["still_failing"] += 1
        for v in r["violations"]:
            cur = merged["violations"].get(v["sig"])
            if cur is None or v["size"] < cur["size"]:
                v["stage"] = r["stage"]
                merged["violations"][v["sig"]] = v
    for st in stages:
        ts = time.time()
        results = run_stage_sharded(pid, st, seed, tier)
        ev = 0
        for r in results:
            if r.get("status") != "ok":
                harness.extend(r.get("harness_errors") or ["unknown worker failure"])
            if "evaluations" not in r:
                continue
            ev += r["evaluations"]
            merged["evaluations"] += r["evaluations"]
            merged["nontrivial"].update(r["nontrivial"])
            merged["nontrivial_n"] += r.get("nontrivial_n", 0)
            merged["classes"].update(r["classes"])
            merged["notes"].update(r["notes"])
            merged["sig_counts"].update(r["sig_counts"])
            merged["grey"] += r["grey"]
            merged["pipeline_runs"] += r["pipeline_runs"]
            merged["crashed_runs"] += r["crashed_runs"]
            for s in r["samples"]:
                if len([x for x in merged["samples"] if x.get("stage") == st.name]) < 3:
                    merged["samples"].append({"stage": st.name, "case": s})
            for v in r["violations"]:
                cur = merged["violations"].get(v["sig"])
                if cur is None or v["size"] < cur["size"]:
                    v["stage"] = st.name
                    merged["violations"][v["sig"]] = v
        per_stage[st.name] = {"evaluations": ev, "wall_s": round(time.time() - ts, 1), "kind": st.kind,
                              "exhaustive": bool(st.exhaustive)}
        if not st.exhaustive:
            exhaustive_all = False

    # known findings / violations
    new_sigs = [s for s in merged["violations"] if s not in known_sigs]
    seen_known = [s for s in merged["violations"] if s in known_sigs]
    for s in sorted(seen_known):
        print("KNOWN-FINDING: property=%s %s" % (pid, known_sigs[s]["what"]))
        if os.environ.get("VERIF_WRITE_KNOWN_REPLAYS") == "1":
            v = merged["violations"][s]
            print("  (developer mode) replay written: %s" % write_replay(pid, v["stage"], s, v))
    rc = 0
    replays = []
    for s in sorted(new_sigs):
        v = merged["violations"][s]
        stage = [x for x in stages if x.name == v["stage"]][0]
        if hasattr(mod, "reduce"):
            try:
                v = dict(v)
                v["case"] = mod.reduce(v["case"], s, stage)
            except Exception:
                traceback.print_exc()
        path = write_replay(pid, v["stage"], s, v)
        replays.append(path)
        print("VIOLATION property=%s replay=%s" % (pid, path))
        print("  signature: %s  (seen %d times)" % (s, merged["sig_counts"][s]))
        print("  detail: %s" % json.dumps(v["detail"], default=str)[:1500])
        rc = 1

    wall = time.time() - t0
    cov = {
        "evaluations": merged["evaluations"],
        "distinct_nontrivial": len(merged["nontrivial"]) + merged["nontrivial_n"],
        "rule": mod.RULE,
        "samples": merged["samples"][:8] or [{"note": "no sample recorded"}],
        "classes": dict(sorted(merged["classes"].items())),
        "grey": merged["grey"],
        "pipeline_runs": merged["pipeline_runs"],
        "crashed_runs": merged["crashed_runs"],
        "stages": per_stage,
        "regression_replays": reg_info,
        "known_findings_seen": {s: merged["sig_counts"][s] for s in seen_known},
        "new_signatures": {s: merged["sig_counts"][s] for s in new_sigs},
        "notes": dict(merged["notes"]),
        "exhaustive": bool(exhaustive_all and stages),
    }
    evidence = {"property_id": pid, "tier": tier, "seed": seed, "level": mod.LEVEL, "coverage": cov,
                "assumptions": list(getattr(mod, "ASSUMPTIONS", [])), "wall_s": round(wall, 2),
                "violations": len(new_sigs)}
    # VERIF_SCRATCH_OUT (developer switch, used when checks are run against seeded changes): evidence and replay files
    # go to that directory instead of /verif
    ev_root = os.environ.get("VERIF_SCRATCH_OUT") or VERIF
    os.makedirs(os.path.join(ev_root, "evidence"), exist_ok=True)
    with open(os.path.join(ev_root, "evidence", "%s.json" % pid), "w") as f:
        json.dump(evidence, f, indent=1, default=str)
    if harness:
        print("HARNESS-ERROR property=%s (%d worker problems); first:\n%s" % (pid, len(harness), harness[0] if len(harness[0]) <= 4000 else harness[0][:2000] + "\n  [...]\n" + harness[0][-2000:]))
        return 2 if rc == 0 else rc
    print("%s %s seed=%d: %d cases, %d distinct non-trivial, %d pipeline runs, %d known-finding signatures, "
          "%d new; %.1fs" % (pid, tier, seed, cov["evaluations"], cov["distinct_nontrivial"], cov["pipeline_runs"],
                             len(seen_known), len(new_sigs), wall))
    return rc


if __name__ == "__main__":
    worker_main(sys.argv[1:])
