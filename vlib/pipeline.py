"""Run one scenario through IsoQuant and collect its outputs."""
import os
import re
import shutil

from . import build, parse, run


class Result:
    def __init__(self, d, code, out, paths, log):
        self.dir = d
        self.code = code
        self.out = out
        self.paths = paths
        self.log = log

    def files(self, prefix="OUT"):
        return parse.sample_files(self.out, prefix)

    def path(self, suffix, prefix="OUT"):
        return parse.find(os.path.join(self.out, prefix, "%s.%s" % (prefix, suffix)))

    def log_tail(self, n=25):
        try:
            with open(self.log, errors="replace") as f:
                return "".join(f.readlines()[-n:])
        except OSError:
            return ""

    def crash_signature(self):
        """(exception type, innermost repository frame) of a crashed run, from the captured traceback."""
        txt = ""
        for p in (self.log, os.path.join(self.out, "isoquant.log")):
            try:
                with open(p, errors="replace") as f:
                    txt += f.read()
            except OSError:
                pass
        frames = re.findall(r'File "[^"]*/(src/[\w_]+\.py|isoquant\.py)", line \d+, in (\w+)', txt)
        exc = re.findall(r"^(\w+(?:\.\w+)*(?:Error|Exception|Exit|Interrupt)\w*)(?::|$)", txt, re.M)
        return "%s@%s" % (exc[-1] if exc else "exit%s" % self.code, ":".join(frames[-1]) if frames else "?")

    def cleanup(self):
        shutil.rmtree(self.dir, ignore_errors=True)


def run_case(sc, ctx, extra=None, runner="fork", gtf_form="gtf", hashseed=None, env=None, d=None, paths=None,
             out_name="out", home=None, timeout=900, pre=None):
    d = d or ctx.scratch()
    if paths is None:
        paths = build.materialise(sc, os.path.join(d, "in"), gtf_form=gtf_form)
    out = os.path.join(d, out_name)
    argv = build.base_argv(sc, paths, out, extra)
    home = home or os.path.join(d, "home")
    log = os.path.join(d, out_name + ".log")
    ctx.pipeline_runs += 1
    if runner == "fork":
        code = run.run_fork(argv, home, log, env=env, timeout=timeout, pre=pre)
    else:
        code = run.run_spawn(argv, home, log, env=env, hashseed=hashseed, timeout=timeout)
    if code != 0:
        ctx.crashed_runs += 1
    return Result(d, code, out, paths, log)


def summarize(sc, extra=None):
    """Compact description of a scenario for evidence samples."""
    return {"chroms": [[c[0], c[1]] for c in sc["chroms"]],
            "genes": [{"id": g["id"], "chr": g["chr"], "strand": g["strand"],
                       "transcripts": {t["id"]: t["exons"] for t in g["transcripts"]}} for g in sc["genes"][:3]],
            "n_genes": len(sc["genes"]), "n_reads": len(sc["reads"]),
            "reads_head": [{k: r[k] for k in ("n", "c", "p", "cg", "f", "q") if k in r} for r in sc["reads"][:3]],
            "opts": sc.get("opts"), **(extra or {})}
