"""Derive alignment records from exon chains (ground-truth recipes)."""

M, I, D, N, S, H, EQ, X = 0, 1, 2, 3, 4, 5, 7, 8


def blocks_to_cigar(blocks, indels=None, clip_l=0, clip_r=0, hard_l=0, hard_r=0):
    """blocks: 1-based closed aligned blocks.  indels: list of (block_index, offset_in_block, kind, length) with
    kind 'I' or 'D'; offset counted from block start, 1 <= offset and offset (+length for D) < block length."""
    per = {}
    for bi, off, kind, ln in (indels or []):
        per.setdefault(bi, []).append((off, kind, ln))
    cg = []
    if hard_l:
        cg.append([H, hard_l])
    if clip_l:
        cg.append([S, clip_l])
    for bi, (s, e) in enumerate(blocks):
        if bi > 0:
            cg.append([N, s - blocks[bi - 1][1] - 1])
        ln = e - s + 1
        cur = 0
        for off, kind, k in sorted(per.get(bi, [])):
            if kind == 'D':
                if off <= cur or off + k >= ln:
                    continue
                cg.append([M, off - cur])
                cg.append([D, k])
                cur = off + k
            else:
                if off <= cur or off >= ln:
                    continue
                cg.append([M, off - cur])
                cg.append([I, k])
                cur = off
        cg.append([M, ln - cur])
    if clip_r:
        cg.append([S, clip_r])
    if hard_r:
        cg.append([H, hard_r])
    return blocks[0][0] - 1, cg


def cut_blocks(exons, start, end):
    """Intersect an exon chain with [start, end] (1-based closed)."""
    out = []
    for s, e in exons:
        if e < start or s > end:
            continue
        out.append([max(s, start), min(e, end)])
    return out


def jitter_blocks(blocks, shifts):
    """shifts: list of (dl, dr) per junction: the donor-side end of block i moves by dl, the acceptor-side start of
    block i+1 by dr.  Returns None if a block would become shorter than 1."""
    b = [list(x) for x in blocks]
    for i, (dl, dr) in enumerate(shifts):
        if i + 1 >= len(b):
            break
        b[i][1] += dl
        b[i + 1][0] += dr
    for i, (s, e) in enumerate(b):
        if e < s:
            return None
        if i > 0 and s <= b[i - 1][1] + 1:
            return None
    return b


def cigar_blocks(pos0, cg):
    """Reference model: maximal reference intervals (1-based closed) covered by M/=/X/D between N gaps."""
    blocks = []
    cur = None
    p = pos0 + 1
    for op, ln in cg:
        if op in (M, EQ, X, D):
            if cur is None:
                cur = [p, p + ln - 1]
            else:
                cur[1] = p + ln - 1
            p += ln
        elif op == N:
            if cur is not None:
                blocks.append(cur)
                cur = None
            p += ln
    if cur is not None:
        blocks.append(cur)
    return blocks


def introns_of(blocks):
    return [(blocks[i][1] + 1, blocks[i + 1][0] - 1) for i in range(len(blocks) - 1)]


def make_read(name, chrom, blocks, flag=0, mapq=60, indels=None, polya=0, polyt=0, clip_l=0, clip_r=0, tags=None,
              file=0, extra=None):
    """polya: length of a soft-clipped A tail at the right end; polyt: soft-clipped T head at the left end."""
    sl = sr = None
    if polyt:
        clip_l = polyt
        sl = "T" * polyt
    if polya:
        clip_r = polya
        sr = "A" * polya
    pos0, cg = blocks_to_cigar(blocks, indels, clip_l, clip_r)
    r = {"n": name, "c": chrom, "p": pos0, "cg": cg, "f": flag, "q": mapq, "file": file}
    if sl:
        r["sl"] = sl
    if sr:
        r["sr"] = sr
    if tags:
        r["tags"] = tags
    if extra:
        r.update(extra)
    return r


def ref_end_of(r):
    """0-based exclusive reference end of a read record"""
    return r["p"] + sum(l for o, l in r["cg"] if o in (M, D, N, EQ, X))
