"""A process pool whose schedule the harness owns (C06 / C10).

`install(assign)` replaces `ProcessPoolExecutor` in src.dataset_processor (inside a forked run) by a pool with the
same observable contract - `map(fn, *iterables, chunksize=1)` evaluated in persistent worker *processes* forked from
the caller, results returned in submission order - but in which the assignment of tasks to workers is a generated
value instead of an accident of timing:

    assign[j][i] = worker that executes task i of the j-th pool created by the run   (taken modulo max_workers)

Every assignment is one the real pool can produce: its workers take tasks from one FIFO queue, so tasks start in
submission order, each on whichever worker happens to be idle; with arbitrary task durations any function
task -> worker is reachable, tasks of one worker run in increasing index order.  Tasks are executed one at a time (the
per-chromosome tasks of IsoQuant write disjoint files, so only the worker-local state a task inherits is scheduled).
"""
import os
import pickle
import struct
import sys
import traceback


class _Worker:
    def __init__(self, tasks, fn):
        self.to_r, self.to_w = os.pipe()
        self.from_r, self.from_w = os.pipe()
        sys.stdout.flush()
        sys.stderr.flush()
        self.pid = os.fork()
        if self.pid == 0:
            code = 0
            try:
                os.close(self.to_w)
                os.close(self.from_r)
                while True:
                    b = os.read(self.to_r, 4)
                    if len(b) < 4:
                        break
                    i = struct.unpack("<i", b)[0]
                    if i < 0:
                        break
                    try:
                        payload = pickle.dumps(("ok", fn(*tasks[i])))
                    except BaseException as e:  # noqa
                        traceback.print_exc()
                        payload = pickle.dumps(("err", "%s: %s" % (type(e).__name__, e)))
                    sys.stdout.flush()
                    sys.stderr.flush()
                    os.write(self.from_w, struct.pack("<q", len(payload)))
                    off = 0
                    while off < len(payload):
                        off += os.write(self.from_w, payload[off:off + 65536])
            except BaseException:
                traceback.print_exc()
                code = 1
            finally:
                try:
                    sys.stdout.flush()
                    sys.stderr.flush()
                except Exception:
                    pass
                os._exit(code)
        os.close(self.to_r)
        os.close(self.from_w)

    def _read(self, n):
        buf = b""
        while len(buf) < n:
            b = os.read(self.from_r, n - len(buf))
            if not b:
                raise RuntimeError("scheduled worker died")
            buf += b
        return buf

    def run(self, i):
        os.write(self.to_w, struct.pack("<i", i))
        n = struct.unpack("<q", self._read(8))[0]
        kind, val = pickle.loads(self._read(n))
        if kind == "err":
            raise RuntimeError("task failed in scheduled worker: " + val)
        return val

    def stop(self):
        try:
            os.write(self.to_w, struct.pack("<i", -1))
        except OSError:
            pass
        os.close(self.to_w)
        os.close(self.from_r)
        os.waitpid(self.pid, 0)


class State:
    def __init__(self, assign, trace_path=None):
        self.assign = assign
        self.pools = 0
        self.trace_path = trace_path


def make_pool_class(state):
    class SchedPool:
        def __init__(self, max_workers=None, **kw):
            self.max_workers = max(1, max_workers or 1)
            self.index = state.pools
            state.pools += 1
            self.workers = {}

        def __enter__(self):
            return self

        def __exit__(self, *a):
            for w in self.workers.values():
                w.stop()
            self.workers = {}
            return False

        def map(self, fn, *iterables, chunksize=1, timeout=None):
            tasks = list(zip(*iterables))
            plan = state.assign[self.index % len(state.assign)] if state.assign else []
            results = []
            used = []
            for i in range(len(tasks)):
                w = (plan[i % len(plan)] if plan else 0) % self.max_workers
                used.append(w)
                if w not in self.workers:
                    # like the real pool, a worker is forked from the submitting process and lives until shutdown
                    self.workers[w] = _Worker(tasks, fn)
                results.append(self.workers[w].run(i))
            if state.trace_path:
                with open(state.trace_path, "a") as f:
                    f.write("pool %d workers %d tasks %d assignment %s\n" % (self.index, self.max_workers, len(tasks),
                                                                            used))
            return iter(results)

        def shutdown(self, *a, **kw):
            self.__exit__()
    return SchedPool


def install(assign, trace_path=None):
    """Call inside the forked run before isoquant.main."""
    import src.dataset_processor as dp
    state = State(assign, trace_path)
    dp.ProcessPoolExecutor = make_pool_class(state)
    return state
