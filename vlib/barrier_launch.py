"""Starts one IsoQuant run for the concurrency smoke test: the interpreter imports the repository first, waits until the
start flag appears and only then calls isoquant.main - the runs of a case begin within the same millisecond instead of
being spread over the import times of their interpreters.
usage: barrier_launch.py <repo> <flag file> <isoquant arguments...>"""
import os
import sys
import time


def main():
    repo, flag, argv = sys.argv[1], sys.argv[2], sys.argv[3:]
    sys.path.insert(0, repo)
    import isoquant
    sys.argv = [os.path.join(repo, "isoquant.py")] + argv
    deadline = time.time() + 120
    while not os.path.exists(flag) and time.time() < deadline:
        time.sleep(0.0005)
    try:
        isoquant.main(argv)
    except SystemExit:
        raise
    except BaseException:
        import traceback
        traceback.print_exc()
        sys.exit(255)


if __name__ == "__main__":
    main()
