import argparse
import os
import sys

sys.path.insert(0, os.path.dirname(os.path.dirname(os.path.abspath(__file__))))
from vlib import shard  # noqa: E402


def main():
    ap = argparse.ArgumentParser()
    ap.add_argument("pid")
    ap.add_argument("--tier", default=os.environ.get("VERIF_TIER", "quick"), choices=["quick", "thorough"])
    ap.add_argument("--replay", default=None)
    ap.add_argument("--seed", type=int, default=None)
    a = ap.parse_args()
    seed = a.seed if a.seed is not None else int(os.environ.get("VERIF_SEED", "1") or 1)
    try:
        rc = shard.main_check(a.pid, a.tier, seed, a.replay)
    except Exception:
        import traceback
        traceback.print_exc()
        rc = 2
    sys.exit(rc)


if __name__ == "__main__":
    main()
