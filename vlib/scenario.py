"""Scenario generators: annotations, genomes, reads with ground-truth recipes.

All random choices go through a `Src`: either Hypothesis draws (DrawSrc) or a Hypothesis-provided Random
(RndSrc, from st.randoms(use_true_random=True) -- seeded by a Hypothesis draw, hence a pure function of VERIF_SEED).
"""
from hypothesis import strategies as st

from . import build, reads as R

CHROM_NAMES = ["chr1", "chr2", "chr10", "chrX", "chrM", "2", "scaffold_7", "GL000.1"]
DELTAS = {"exact": 0, "precise": 4, "default": 6, "loose": 12}
DATA_DEFAULT_STRATEGY = {"nanopore": "default", "pacbio_ccs": "precise", "assembly": "precise"}


class DrawSrc:
    def __init__(self, draw):
        self.draw = draw

    def int(self, a, b):
        return self.draw(st.integers(a, b))

    def choice(self, seq):
        return self.draw(st.sampled_from(list(seq)))

    def bool(self, p=0.5):
        if p >= 1:
            return True
        if p <= 0:
            return False
        k = max(1, min(39, int(round(p * 40))))
        return self.draw(st.sampled_from([True] * k + [False] * (40 - k)))

    def shuffle(self, seq):
        return list(self.draw(st.permutations(list(seq))))


class RndSrc:
    def __init__(self, rnd):
        self.rnd = rnd

    def int(self, a, b):
        return self.rnd.randint(a, b)

    def choice(self, seq):
        seq = list(seq)
        return seq[self.rnd.randrange(len(seq))]

    def bool(self, p=0.5):
        return self.rnd.random() < p

    def shuffle(self, seq):
        seq = list(seq)
        self.rnd.shuffle(seq)
        return seq


# ----------------------------------------------------------------------------------------------- annotation

def _sites(exons):
    """splice sites of a chain: donors-side (exon ends that precede an intron) and acceptor-side (starts)."""
    s = set()
    for i in range(len(exons) - 1):
        s.add(("d", exons[i][1]))
        s.add(("a", exons[i + 1][0]))
    return s


def _sites_ok(new_sites, all_sites, sep):
    """every pair of distinct positions (regardless of side) identical or >= sep apart."""
    pos = sorted(set(p for _, p in all_sites))
    import bisect
    for _, p in new_sites:
        i = bisect.bisect_left(pos, p - sep + 1)
        while i < len(pos) and pos[i] < p + sep:
            if pos[i] != p:
                return False
            i += 1
    return True


def _self_ok(exons, sep):
    pos = sorted(set(p for _, p in _sites(exons)))
    return all(b - a >= sep for a, b in zip(pos, pos[1:]))


def gen_chain(src, start, n_exons, exon_len=(80, 500), intron_len=(150, 2500), micro_intron_p=0.0):
    exons = []
    p = start
    for i in range(n_exons):
        ln = src.int(*exon_len)
        exons.append([p, p + ln - 1])
        p += ln
        if i < n_exons - 1:
            if micro_intron_p and src.bool(micro_intron_p):
                p += src.int(20, 50)
            else:
                p += src.int(*intron_len)
    return exons


EDITS = ["skip", "alt_donor", "alt_acceptor", "alt_first", "alt_last", "retain", "mono", "shift_tss", "shift_tes",
         "trunc5", "trunc3"]


def edit_chain(src, exons, kind, shift=(45, 140)):
    """Returns a new exon chain derived from `exons` by the named edit or None if not applicable."""
    ex = [list(e) for e in exons]
    n = len(ex)
    if kind == "skip":
        if n < 3:
            return None
        i = src.int(1, n - 2)
        j = src.int(i, min(n - 2, i + 1))
        return ex[:i] + ex[j + 1:]
    if kind == "alt_donor":
        if n < 2:
            return None
        i = src.int(0, n - 2)
        d = src.int(*shift) * src.choice([-1, 1])
        ex[i][1] += d
        if ex[i][1] - ex[i][0] < 40 or ex[i + 1][0] - ex[i][1] < 80:
            return None
        return ex
    if kind == "alt_acceptor":
        if n < 2:
            return None
        i = src.int(1, n - 1)
        d = src.int(*shift) * src.choice([-1, 1])
        ex[i][0] += d
        if ex[i][1] - ex[i][0] < 40 or ex[i][0] - ex[i - 1][1] < 80:
            return None
        return ex
    if kind == "alt_first":
        if n < 2:
            return None
        # new first exon inside the first intron (if large enough) or upstream
        gap = ex[1][0] - ex[0][1] - 1
        ln = src.int(60, 200)
        if gap > ln + 400 and src.bool(0.5):
            s = ex[0][1] + src.int(150, gap - ln - 150)
            return [[s, s + ln - 1]] + ex[1:]
        s = ex[0][0] - src.int(300, 900) - ln
        if s < 50:
            return None
        return [[s, s + ln - 1]] + ex[1:]
    if kind == "alt_last":
        if n < 2:
            return None
        gap = ex[-1][0] - ex[-2][1] - 1
        ln = src.int(60, 200)
        if gap > ln + 400 and src.bool(0.5):
            s = ex[-2][1] + src.int(150, gap - ln - 150)
            return ex[:-1] + [[s, s + ln - 1]]
        s = ex[-1][1] + src.int(300, 900)
        return ex[:-1] + [[s, s + ln - 1]]
    if kind == "retain":
        if n < 2:
            return None
        i = src.int(0, n - 2)
        return ex[:i] + [[ex[i][0], ex[i + 1][1]]] + ex[i + 2:]
    if kind == "mono":
        i = src.int(0, n - 1)
        return [[ex[i][0] - (src.int(0, 100) if i == 0 else 0), ex[i][1] + (src.int(0, 100) if i == n - 1 else 0)]]
    if kind == "shift_tss":
        d = src.int(60, 300)
        if src.bool(0.5) and ex[0][1] - ex[0][0] > d + 40:
            ex[0][0] += d
        else:
            ex[0][0] -= d
        return ex if ex[0][0] > 50 else None
    if kind == "shift_tes":
        d = src.int(60, 300)
        if src.bool(0.5) and ex[-1][1] - ex[-1][0] > d + 40:
            ex[-1][1] -= d
        else:
            ex[-1][1] += d
        return ex
    if kind in ("start_in_intron", "end_in_intron"):
        # alternative start (end) inside an intron: an inner exon extended into the intron before (after) it, the
        # exons before (after) it dropped; mirror images of each other
        if n < 3:
            return None
        k = src.int(1, n - 2)
        if kind == "start_in_intron":
            gap = ex[k][0] - ex[k - 1][1] - 1
            if gap < 260:
                return None
            return [[ex[k][0] - src.int(100, min(gap - 120, 600)), ex[k][1]]] + ex[k + 1:]
        gap = ex[k + 1][0] - ex[k][1] - 1
        if gap < 260:
            return None
        return ex[:k] + [[ex[k][0], ex[k][1] + src.int(100, min(gap - 120, 600))]]
    if kind == "trunc5":
        if n < 3:
            return None
        k = src.int(1, n - 2)
        return ex[k:]
    if kind == "trunc3":
        if n < 3:
            return None
        k = src.int(1, n - 2)
        return ex[:n - k]
    return None


def chain_key(exons):
    return tuple(tuple(e) for e in exons)


def intron_key(exons):
    return tuple(R.introns_of(exons))


def gen_annotation(src, n_chroms=(1, 3), genes_per_chrom=(1, 3), iso_per_gene=(1, 4), sep=40, max_exons=7,
                   overlap_p=0.25, micro_intron_p=0.0, chrom_names=None, edits=None, min_chrom_len=3000,
                   canon_classes=("canon",), tail_margin=(600, 3000), exon_len=(80, 500), intron_len=(150, 2500)):
    """Returns scenario skeleton: chroms, genes, overrides (splice dinucleotides).  With sep>0 all distinct annotated
    splice-site positions on a chromosome are >= sep apart ('well-separated' mode of the design)."""
    nch = src.int(*n_chroms)
    names = list(chrom_names or CHROM_NAMES)
    names = src.shuffle(names)[:nch] if len(names) > nch else names[:nch]
    chroms, genes, overrides = [], [], []
    gcount = 0
    tcount = 0
    for ci, cname in enumerate(names):
        ng = src.int(*genes_per_chrom)
        pos = src.int(300, 1500)
        sites = set()
        prev_span = None
        for gi in range(ng):
            gcount += 1
            strand = src.choice(["+", "-"])
            nex = src.int(1, max_exons)
            if prev_span and src.bool(overlap_p) and prev_span[1] - prev_span[0] > 600:
                start = prev_span[0] + src.int(100, (prev_span[1] - prev_span[0]) // 2)
            else:
                start = pos
            base = None
            for attempt in range(12):
                cand = gen_chain(src, start + attempt * (sep + 7), nex, micro_intron_p=micro_intron_p,
                                 exon_len=exon_len, intron_len=intron_len)
                if sep == 0 or (_self_ok(cand, sep) and _sites_ok(_sites(cand), sites, sep)):
                    base = cand
                    break
            if base is None:
                # fall back: place after everything seen so far (never conflicts)
                base = gen_chain(src, pos + 200, nex, exon_len=exon_len, intron_len=intron_len)
                if sep and not _self_ok(base, sep):
                    base = [base[0]]
            sites |= _sites(base)
            iso = [base]
            keys = {chain_key(base)}
            niso = src.int(*iso_per_gene)
            for k in range(niso - 1):
                parent = src.choice(iso)
                kind = src.choice(edits or EDITS)
                new = edit_chain(src, parent, kind)
                if new is None or chain_key(new) in keys or new[0][0] < 50:
                    continue
                if any(e[1] < e[0] for e in new):
                    continue
                if sep and not (_self_ok(new, sep) and _sites_ok(_sites(new), sites, sep)):
                    continue
                iso.append(new)
                keys.add(chain_key(new))
                sites |= _sites(new)
            gid = "G%d" % gcount
            trs = []
            for ex in iso:
                tcount += 1
                trs.append({"id": "T%d" % tcount, "exons": ex})
            cls = src.choice(canon_classes)
            g = {"id": gid, "chr": cname, "strand": strand, "transcripts": trs, "canon": cls}
            genes.append(g)
            code = {"canon": strand, "anti": "-" if strand == "+" else "+", "non": "n",
                    "gc": "gc" if strand == "+" else "-gc", "at": "at" if strand == "+" else "-at"}[cls]
            for ex in iso:
                overrides += build.splice_overrides(cname, ex, code)
            gs = min(e[0][0] for e in iso)
            ge = max(e[-1][1] for e in iso)
            prev_span = (gs, ge)
            pos = max(pos, ge + src.int(400, 2500))
        length = max(min_chrom_len, pos + src.int(*tail_margin))
        chroms.append([cname, length, src.int(1, 10 ** 6)])
    return {"chroms": chroms, "genes": genes, "overrides": overrides, "reads": [], "nfiles": 1,
            "gtf": {"gene_records": True, "transcript_records": True}}


def transcripts_of(sc):
    out = []
    for g in sc["genes"]:
        for t in g["transcripts"]:
            out.append((g, t))
    return out


def chrom_len(sc, name):
    for n, l, _ in sc["chroms"]:
        if n == name:
            return l
    raise KeyError(name)


# ----------------------------------------------------------------------------------------------- reads

def read_from_chain(src, name, chrom, strand, exons, delta=0, trunc_p=0.3, jitter_p=0.3, indel_p=0.3, polya_p=0.7,
                    flag_consistent_p=0.9, min_keep=12, inward=True, mapq=(20, 60), clip_p=0.2):
    """A read following the exon chain within tolerances (class W of the design).  Returns (read, truth)."""
    ex = [list(e) for e in exons]
    n = len(ex)
    truth = {"kind": "W", "trunc5": False, "trunc3": False, "jitter": 0, "indels": 0, "polya": False}
    # truncation (in genomic left/right terms; 5'/3' depends on strand)
    left_cut = right_cut = False
    i0, i1 = 0, n - 1
    if src.bool(trunc_p):
        if src.bool(0.5):
            i0 = src.int(0, n - 1)
            left_cut = True
        if src.bool(0.5) or not left_cut:
            i1 = src.int(i0, n - 1)
            right_cut = True
    blocks = [list(e) for e in ex[i0:i1 + 1]]
    if left_cut:
        e = blocks[0]
        if e[1] - e[0] + 1 > 2 * min_keep:
            e[0] = src.int(e[0] + (1 if i0 == 0 else 0), e[1] - min_keep)
        if i0 == 0 and e[0] - ex[0][0] <= delta:
            left_cut = False
    elif inward and delta:
        d = src.int(0, delta)
        if blocks[0][1] - blocks[0][0] > d + min_keep:
            blocks[0][0] += d
    if right_cut:
        e = blocks[-1]
        if e[1] - e[0] + 1 > 2 * min_keep:
            e[1] = src.int(e[0] + min_keep, e[1] - (1 if i1 == n - 1 else 0))
        if i1 == n - 1 and ex[-1][1] - e[1] <= delta:
            right_cut = False
    elif inward and delta:
        d = src.int(0, delta)
        if blocks[-1][1] - blocks[-1][0] > d + min_keep:
            blocks[-1][1] -= d
    # junction jitter
    if delta and len(blocks) > 1 and src.bool(jitter_p):
        shifts = []
        for _ in range(len(blocks) - 1):
            if src.bool(0.6):
                shifts.append((src.int(-delta, delta), src.int(-delta, delta)))
            else:
                shifts.append((0, 0))
        jb = R.jitter_blocks(blocks, shifts)
        if jb is not None and all(b[1] - b[0] + 1 >= min_keep for b in jb):
            blocks = jb
            truth["jitter"] = sum(1 for a, b in shifts if a or b)
    # indels
    indels = []
    if src.bool(indel_p):
        for _ in range(src.int(1, 3)):
            bi = src.int(0, len(blocks) - 1)
            ln = blocks[bi][1] - blocks[bi][0] + 1
            if ln < 40:
                continue
            k = src.int(1, 5)
            off = src.int(8, ln - 8 - k)
            indels.append((bi, off, src.choice(["I", "D"]), k))
        # keep at most one indel per block to avoid overlaps
        seen = set()
        indels = [x for x in indels if not (x[0] in seen or seen.add(x[0]))]
        truth["indels"] = len(indels)
    # polyA
    polya = polyt = 0
    three_cut = right_cut if strand == "+" else left_cut
    if not three_cut and src.bool(polya_p):
        ln = src.int(20, 40)
        if strand == "+":
            polya = ln
        else:
            polyt = ln
        truth["polya"] = True
    flag = 0
    rev = (strand == "-")
    if not src.bool(flag_consistent_p):
        rev = not rev
    if rev:
        flag |= 16
    clip_l = clip_r = 0
    if not polyt and src.bool(clip_p):
        clip_l = src.int(1, 30)
    if not polya and src.bool(clip_p):
        clip_r = src.int(1, 30)
    truth["trunc5"] = left_cut if strand == "+" else right_cut
    truth["trunc3"] = three_cut
    truth["left_cut"] = left_cut
    truth["right_cut"] = right_cut
    r = R.make_read(name, chrom, blocks, flag=flag, mapq=src.int(*mapq), indels=indels, polya=polya, polyt=polyt,
                    clip_l=clip_l, clip_r=clip_r)
    truth["blocks"] = blocks
    return r, truth


def exact_read(name, chrom, strand, exons, polya=25, mapq=60, file=0, tags=None):
    return R.make_read(name, chrom, [list(e) for e in exons], flag=16 if strand == "-" else 0, mapq=mapq,
                       polya=polya if strand == "+" else 0, polyt=polya if strand == "-" else 0, file=file, tags=tags)


def add_tail_gene(src, sc, gid, lengths, gaps, n_reads=(3, 6), polya=25):
    """One more annotated gene behind everything else on one of the chromosomes (the chromosome is made longer), with
    exact full-length reads; lengths/gaps give the exon chain (an exon may be a single base)."""
    c = src.choice(sc["chroms"])
    p_ = c[1] + src.int(200, 600)
    chain = []
    for i, ln in enumerate(lengths):
        chain.append([p_, p_ + ln - 1])
        if i < len(gaps):
            p_ += ln + gaps[i]
    strand = src.choice(["+", "-"])
    c[1] = chain[-1][1] + src.int(600, 1500)
    g = {"id": gid, "chr": c[0], "strand": strand, "canon": "canon", "transcripts": [{"id": gid + ".t1", "exons": chain}]}
    sc["genes"].append(g)
    sc["overrides"] += build.splice_overrides(c[0], chain, strand)
    for i in range(src.int(*n_reads)):
        sc["reads"].append(exact_read("%s_r%d" % (gid, i), c[0], strand, chain, polya=polya))
    return g


def novel_chains(src, sc, g, k=2, sep=40, edits=("skip", "alt_donor", "alt_acceptor", "alt_first", "alt_last")):
    """Unannotated isoforms of gene g derived with the same edit operators; intron chain differs from all annotated."""
    ann = {intron_key(t["exons"]) for t in g["transcripts"]}
    out = []
    for _ in range(k * 3):
        if len(out) >= k:
            break
        parent = src.choice(g["transcripts"])["exons"]
        new = edit_chain(src, parent, src.choice(edits))
        if new is None or len(new) < 2 or new[0][0] < 50:
            continue
        if any(e[1] - e[0] < 30 for e in new):
            continue
        ik = intron_key(new)
        if ik in ann or any(ik == intron_key(o) for o in out):
            continue
        if new[-1][1] >= chrom_len(sc, g["chr"]) - 60:
            continue
        if sep:
            # keep every new splice site identical to or >= sep away from all sites already on the chromosome
            sites = set()
            for g2 in sc["genes"]:
                if g2["chr"] == g["chr"]:
                    for t2 in g2["transcripts"]:
                        sites |= _sites(t2["exons"])
            for nv in sc.get("novel", []):
                if nv["chr"] == g["chr"]:
                    sites |= _sites(nv["exons"])
            for o in out:
                sites |= _sites(o)
            if not (_self_ok(new, sep) and _sites_ok(_sites(new), sites, sep)):
                continue
        out.append(new)
    return out


def add_canon(sc, chrom, exons, strand):
    sc["overrides"] += build.splice_overrides(chrom, exons, strand)


# ----------------------------------------------------------------------------------------------- composite scenarios

MODEL_STRATEGIES = ["reliable", "default_pacbio", "sensitive_pacbio", "fl_pacbio", "default_ont", "sensitive_ont",
                    "all", "assembly"]
DATA_TYPES = ["nanopore", "pacbio_ccs", "assembly"]


def gen_discovery(src, n_chroms=(1, 3), genes_per_chrom=(1, 3), with_annotation=True, novel_per_gene=(0, 2),
                  reads_known=(0, 6), reads_novel=(3, 10), noise_p=0.0, drop_iso_p=0.0, sep=40, intergenic_p=0.3,
                  exact=True, delta=0, max_exons=6, canon_classes=("canon",), name_prefix="r", overlap_p=0.25,
                  chrom_names=None, novel_edits=None):
    """Annotation + reads of annotated isoforms + reads of unannotated isoforms (+ optional graph noise).
    Transcripts dropped from the annotation with drop_iso_p become 'hidden' (unannotated) sources as well."""
    sc = gen_annotation(src, n_chroms=n_chroms, genes_per_chrom=genes_per_chrom, sep=sep, max_exons=max_exons,
                        canon_classes=canon_classes, overlap_p=overlap_p, chrom_names=chrom_names)
    k = 0
    truth = {}
    sc["novel"] = []
    for g in sc["genes"]:
        code = g["strand"] if g["canon"] == "canon" else None
        novel = novel_chains(src, sc, g, k=src.int(*novel_per_gene), sep=sep,
                             **({"edits": novel_edits} if novel_edits else {}))
        for ex in novel:
            if code:
                add_canon(sc, g["chr"], ex, code)
            sc["novel"].append({"chr": g["chr"], "strand": g["strand"], "exons": ex, "gene": g["id"]})
            for _ in range(src.int(*reads_novel)):
                k += 1
                nm = "%s%d" % (name_prefix, k)
                if exact:
                    r = exact_read(nm, g["chr"], g["strand"], ex, polya=src.int(20, 35))
                    t = {"kind": "N"}
                else:
                    r, t = read_from_chain(src, nm, g["chr"], g["strand"], ex, delta=delta, trunc_p=0.15)
                    t["kind"] = "N"
                sc["reads"].append(r)
                truth[nm] = t
        for t_ in g["transcripts"]:
            for _ in range(src.int(*reads_known)):
                k += 1
                nm = "%s%d" % (name_prefix, k)
                if exact:
                    r = exact_read(nm, g["chr"], g["strand"], t_["exons"], polya=src.int(20, 35))
                    t = {"kind": "W", "src": t_["id"]}
                else:
                    r, t = read_from_chain(src, nm, g["chr"], g["strand"], t_["exons"], delta=delta)
                    t["src"] = t_["id"]
                sc["reads"].append(r)
                truth[nm] = t
    # intergenic novel genes: placed in the tail margin of a chromosome when it fits
    for c in sc["chroms"]:
        if not src.bool(intergenic_p):
            continue
        gend = max([t["exons"][-1][1] for g in sc["genes"] if g["chr"] == c[0] for t in g["transcripts"]] or [0])
        for nv in sc["novel"]:
            if nv["chr"] == c[0]:
                gend = max(gend, nv["exons"][-1][1])
        start = gend + 700
        chain = gen_chain(src, start, src.int(2, 4), exon_len=(80, 300), intron_len=(150, 800))
        if chain[-1][1] + 200 > c[1]:
            c[1] = chain[-1][1] + src.int(300, 900)
        strand = src.choice(["+", "-"])
        add_canon(sc, c[0], chain, strand)
        sc["novel"].append({"chr": c[0], "strand": strand, "exons": chain, "gene": None})
        for _ in range(src.int(*reads_novel)):
            k += 1
            nm = "%s%d" % (name_prefix, k)
            sc["reads"].append(exact_read(nm, c[0], strand, chain, polya=src.int(20, 35)))
            truth[nm] = {"kind": "N", "intergenic": True}
    if noise_p:
        add_graph_noise(src, sc, truth, noise_p, name_prefix)
    if drop_iso_p:
        for g in sc["genes"]:
            keep = [t for t in g["transcripts"] if not src.bool(drop_iso_p)]
            if keep:
                g["transcripts"] = keep
    if not with_annotation:
        sc["hidden_genes"] = sc["genes"]
        sc["genes"] = []
    sc["truth"] = truth
    return sc


def add_graph_noise(src, sc, truth, p, name_prefix="r"):
    """Minority reads with shifted junctions (bulges), reads ending inside exons (tips), singleton introns."""
    base = list(sc["reads"])
    k = len(base)
    for r in base:
        if not src.bool(p):
            continue
        blocks = R.cigar_blocks(r["p"], r["cg"])
        if len(blocks) < 2:
            continue
        kind = src.choice(["bulge", "tip", "single"])
        k += 1
        nm = "%sn%d" % (name_prefix, k)
        strand = "-" if r["f"] & 16 else "+"
        if kind == "bulge":
            shifts = [(0, 0)] * (len(blocks) - 1)
            i = src.int(0, len(blocks) - 2)
            shifts[i] = (src.int(-25, 25), src.int(-25, 25))
            nb = R.jitter_blocks(blocks, shifts)
            if nb is None or any(b[1] - b[0] < 15 for b in nb):
                continue
        elif kind == "tip":
            i = src.int(0, len(blocks) - 1)
            nb = [list(b) for b in blocks[:i + 1]]
            if nb[-1][1] - nb[-1][0] > 40:
                nb[-1][1] = src.int(nb[-1][0] + 20, nb[-1][1] - 5)
        else:
            i = src.int(0, len(blocks) - 2)
            nb = [list(b) for b in blocks]
            ln = nb[i][1] - nb[i][0] + 1
            if ln < 120:
                continue
            a = nb[i][0] + src.int(30, ln // 2 - 10)
            b = a + src.int(40, ln // 2 - 20) if ln // 2 - 20 >= 40 else None
            if b is None or b >= nb[i][1] - 20:
                continue
            nb = nb[:i] + [[nb[i][0], a], [b, nb[i][1]]] + nb[i + 1:]
        nr = R.make_read(nm, r["c"], nb, flag=r["f"], mapq=r.get("q", 60),
                         polya=src.int(20, 30) if strand == "+" and src.bool(0.5) else 0,
                         polyt=src.int(20, 30) if strand == "-" and src.bool(0.5) else 0)
        sc["reads"].append(nr)
        truth[nm] = {"kind": "noise", "noise": kind}


def noisy_read(src, name, chrom, strand, exons, kind, mapq=60):
    """Reads with alignment artefacts beyond delta (C14 generator).  Returns read or None if not applicable."""
    ex = [list(e) for e in exons]
    n = len(ex)
    mm = None
    if kind == "shift":
        if n < 2:
            return None
        i = src.int(0, n - 2)
        d = src.int(-30, 30)
        same = src.bool(0.5)
        shifts = [(0, 0)] * (n - 1)
        shifts[i] = (d, d if same else src.int(-30, 30))
        ex = R.jitter_blocks(ex, shifts)
        if ex is None or any(b[1] - b[0] < 8 for b in ex):
            return None
    elif kind == "skipmicro":
        cand = [i for i in range(1, n - 1) if ex[i][1] - ex[i][0] + 1 <= 100]
        if not cand:
            return None
        i = src.choice(cand)
        ex = ex[:i] + ex[i + 1:]
    elif kind == "faketerm":
        ln = src.int(8, 40)
        if src.bool(0.5):
            gap = src.int(60, 600)
            s = ex[0][0] - gap - ln
            if s < 10:
                return None
            ex = [[s, s + ln - 1]] + ex
        else:
            gap = src.int(60, 600)
            s = ex[-1][1] + gap + 1
            ex = ex + [[s, s + ln - 1]]
    elif kind == "termmis":
        # misplaced terminal exon: the read follows the isoform up to its last (first) intron, whose far end and the
        # terminal exon after it sit somewhere else; same exon length within a few bases
        if n < 3:
            return None
        right = src.bool(0.5)
        te = ex[-1] if right else ex[0]
        ln = te[1] - te[0] + 1 + src.int(-3, 3)
        if ln < 12:
            return None
        if right:
            gap = ex[-1][0] - ex[-2][1] - 1
            if src.bool(0.5) and gap > ln + 160:
                s_ = ex[-2][1] + src.int(60, gap - ln - 60)         # inside the last intron
            else:
                s_ = ex[-1][1] + src.int(40, 400)                   # behind the annotated terminal exon
            ex = ex[:-1] + [[s_, s_ + ln - 1]]
        else:
            gap = ex[1][0] - ex[0][1] - 1
            if src.bool(0.5) and gap > ln + 160:
                e_ = ex[1][0] - src.int(60, gap - ln - 60)
            else:
                e_ = ex[0][0] - src.int(40, 400)
            if e_ - ln < 10:
                return None
            ex = [[e_ - ln + 1, e_]] + ex[1:]
    elif kind == "tinyterm":
        # the read ends (starts) with a 2-6 bp block that lies inside an annotated intron right before its acceptor
        # (after its donor): the read's terminal junction is within delta of the annotated one
        if n < 3:
            return None
        d = src.int(2, 6)
        if src.bool(0.5):
            i = src.int(1, n - 2)
            iend = ex[i + 1][0] - 1
            if iend - ex[i][1] < 60:
                return None
            ex = ex[:i + 1] + [[iend - d + 1, iend]]
        else:
            i = src.int(1, n - 2)
            istart = ex[i - 1][1] + 1
            if ex[i][0] - istart < 60:
                return None
            ex = [[istart, istart + d - 1]] + ex[i:]
    elif kind == "tinyinner":
        # an internal block of 4-6 bp right before an annotated acceptor, followed by a short extra intron that ends
        # inside the annotated exon: moving the first junction onto the annotated one makes it touch the second
        if n < 3:
            return None
        i = src.int(0, n - 2)
        iend = ex[i + 1][0] - 1
        d = src.int(4, 6)
        extra = src.int(20, 30)
        if iend - ex[i][1] < 60 or ex[i + 1][1] - ex[i + 1][0] < extra + 60:
            return None
        ex = ex[:i + 1] + [[iend - d, iend - 1], [ex[i + 1][0] + extra, ex[i + 1][1]]] + ex[i + 2:]
        # sequencing errors inside the tiny block (the corrector trusts a clean junction)
        off = sum(b[1] - b[0] + 1 for b in ex[:i + 1])
        mm = [off + j for j in range(0, d, 2)]
    elif kind == "fakemicro":
        # a short first block that spans an annotated micro-intron and is followed by an extra intron
        cand = [i for i in range(n - 1) if ex[i + 1][0] - ex[i][1] - 1 <= 50 and ex[i + 1][1] - ex[i + 1][0] > 160]
        if not cand:
            return None
        i = cand[0]
        a = ex[i][1] - src.int(3, 8)
        b = ex[i + 1][0] + src.int(6, 12)
        gap = src.int(60, 90)
        ex = [[a, b], [b + gap + 1, ex[i + 1][1]]] + ex[i + 2:]
    elif kind == "microir":
        cand = [i for i in range(n - 1) if ex[i + 1][0] - ex[i][1] - 1 <= 50]
        if not cand:
            return None
        i = src.choice(cand)
        ex = ex[:i] + [[ex[i][0], ex[i + 1][1]]] + ex[i + 2:]
    elif kind == "mmjunction":
        if n < 2:
            return None
        i = src.int(0, n - 2)
        d = src.int(-6, 6)
        shifts = [(0, 0)] * (n - 1)
        shifts[i] = (d, d)
        ex2 = R.jitter_blocks(ex, shifts)
        if ex2 is None or any(b[1] - b[0] < 8 for b in ex2):
            return None
        ex = ex2
        # mismatches right before the shifted donor
        off = sum(b[1] - b[0] + 1 for b in ex[:i + 1])
        mm = [off - k for k in range(1, src.int(2, 4))]
    else:
        return None
    polya = src.int(20, 30) if src.bool(0.6) else 0
    r = R.make_read(name, chrom, ex, flag=16 if strand == "-" else 0, mapq=mapq,
                    polya=polya if strand == "+" else 0, polyt=polya if strand == "-" else 0)
    if mm:
        r["mm"] = [o + (polya if strand == "-" else 0) for o in mm]
    return r


def add_paralog(src, sc, g, new_chrom_p=0.7):
    """Clone gene g (all isoforms) to another place: a new chromosome or the tail of an existing one.
    Returns the clone (same relative coordinates) or None."""
    gs = min(t["exons"][0][0] for t in g["transcripts"])
    ge = max(t["exons"][-1][1] for t in g["transcripts"])
    used = set(c[0] for c in sc["chroms"])
    if src.bool(new_chrom_p) and len(used) < len(CHROM_NAMES):
        name = [n for n in CHROM_NAMES if n not in used][0]
        off = src.int(200, 1500) - gs
        sc["chroms"].append([name, ge + off + src.int(500, 2000), src.int(1, 10 ** 6)])
        chrom = name
    else:
        c = src.choice(sc["chroms"])
        chrom = c[0]
        off = c[1] + src.int(100, 600) - gs
        c[1] = ge + off + src.int(500, 1500)
    idx = sum(1 for x in sc["genes"] if x["id"].startswith(g["id"] + "p")) + 1
    clone = {"id": "%sp%d" % (g["id"], idx), "chr": chrom, "strand": g["strand"], "canon": g.get("canon", "canon"),
             "paralog_of": g["id"], "offset": off,
             "transcripts": [{"id": "%sp%d" % (t["id"], idx), "exons": [[a + off, b + off] for a, b in t["exons"]]}
                             for t in g["transcripts"]]}
    sc["genes"].append(clone)
    code = g["strand"] if g.get("canon", "canon") == "canon" else None
    if code:
        for t in clone["transcripts"]:
            sc["overrides"] += build.splice_overrides(chrom, t["exons"], code)
    return clone


def shift_read(r, chrom, off, flag_or=0, mapq=None, name=None):
    """copy of read r placed at another locus (same CIGAR)"""
    q = dict(r)
    q["c"] = chrom
    q["p"] = r["p"] + off
    q["f"] = r["f"] | flag_or
    if mapq is not None:
        q["q"] = mapq
    if name:
        q["n"] = name
    return q


def intergenic_read(src, sc, name):
    """a mono- or two-block read placed in a gap between genes (or None)"""
    c = src.choice(sc["chroms"])
    spans = sorted((min(t["exons"][0][0] for t in g["transcripts"]), max(t["exons"][-1][1] for t in g["transcripts"]))
                   for g in sc["genes"] if g["chr"] == c[0])
    gaps = []
    prev = 1
    for a, b in spans:
        if a - prev > 500:
            gaps.append((prev + 150, a - 150))
        prev = max(prev, b)
    if c[1] - prev > 500:
        gaps.append((prev + 150, c[1] - 150))
    gaps = [g for g in gaps if g[1] - g[0] > 150]
    if not gaps:
        return None
    a, b = src.choice(gaps)
    s = src.int(a, b - 100)
    e = min(b, s + src.int(60, 300))
    return R.make_read(name, c[0], [[s, e]], flag=src.choice([0, 16]), mapq=src.int(20, 60))


def unmapped_read(name, file=0):
    return {"n": name, "c": None, "p": -1, "cg": [], "f": 4, "q": 0, "file": file}


# ----------------------------------------------------------------------------------------------- coverage templates

BIN = 256


def near_bin(src, lo_bin, hi_bin):
    """a 0-based position 256*k + small offset (offset biased to the boundary)"""
    k = src.int(lo_bin, hi_bin)
    off = src.choice([-2, -1, 0, 1, 2, 0, 1, -1, src.int(3, 252)])
    return max(0, k * BIN + off)


def gen_deep_locus(src, with_annotation=True, max_reads=2500, chrom="chr1", extra_chrom=True, front_cluster=False):
    """One chromosome with a read cluster that exceeds the splitting thresholds (>= 32768 bp and/or >= 1024 reads):
    pile-ups joined by bridge reads, valleys of depth 0-3 at chosen bins, short tail reads placed relative to
    256-bp bin boundaries (first/last bin of a sub-region), single-bin pile-ups."""
    nseg = src.int(2, 4)
    seg_gap_bins = [src.int(130, 170) for _ in range(nseg)]           # >= 128 bins between valley candidates
    start_bin = src.int(2, 10)
    reads = []
    k = 0
    pos_bin = start_bin
    seg_starts = []
    genes = []
    overrides = []
    total_budget = max_reads
    deep = src.bool(0.7)
    for si in range(nseg):
        seg_start = pos_bin * BIN + (src.choice([0, 1, 17, 200, 255]) if not (front_cluster and si == 0) else
                                     src.choice([160, 200, 210]))
        seg_starts.append(seg_start)
        n = src.int(220, 420) if deep and si == 0 else src.int(3, 60)
        n = min(n, total_budget)
        total_budget -= n
        # a 3-exon gene under the pile-up
        e1 = [seg_start + 50, seg_start + 350]
        e2 = [seg_start + 900, seg_start + 1250]
        e3 = [seg_start + 2000, seg_start + 2500]
        chain = [[a + 1, b + 1] for a, b in (e1, e2, e3)]
        strand = src.choice(["+", "-"])
        genes.append({"id": "D%d" % si, "chr": chrom, "strand": strand, "canon": "canon",
                      "transcripts": [{"id": "DT%d" % si, "exons": chain}]})
        overrides += build.splice_overrides(chrom, chain, strand)
        for _ in range(n):
            k += 1
            if src.bool(0.7):
                blocks = [list(b) for b in chain]
                blocks[0][0] += src.int(0, 40)
                blocks[-1][1] -= src.int(0, 40)
            else:
                a = chain[0][0] + src.int(0, 200)
                blocks = [[a, a + src.int(60, 90)]]
            reads.append(R.make_read("d%d" % k, chrom, blocks, flag=16 if strand == "-" else 0,
                                     mapq=src.choice([60, 60, 60, 30, 10, 3, 0])))
        pos_bin += seg_gap_bins[si]
    end_of_last = seg_starts[-1] + 2600
    # bridges: reads with a long N joining consecutive segments; valley depth = number of bridges
    for si in range(nseg - 1):
        depth = src.int(1, 3)
        for _ in range(depth):
            k += 1
            a = seg_starts[si] + 2000 + src.int(0, 300)
            b = seg_starts[si + 1] + 60 + src.int(0, 200)
            reads.append(R.make_read("b%d" % k, chrom, [[a + 1, a + 120], [b + 1, b + 130]], mapq=60))
    # a long unspliced tail that stretches the cluster beyond the last pile-up up to a chosen bin boundary
    tail_bins = src.int(0, 6)
    cluster_end = end_of_last
    if tail_bins:
        k += 1
        endp = (end_of_last // BIN + tail_bins) * BIN + src.choice([0, 1, 2, 128, 254, 255])
        a = end_of_last - 300
        reads.append(R.make_read("t%d" % k, chrom, [[a + 1, endp]], mapq=60))
        cluster_end = endp
    # short reads wholly inside the last bin(s) of the cluster / around sub-region borders
    special = []
    for _ in range(src.int(1, 4)):
        k += 1
        kind = src.choice(["last_bin", "last_bin", "border", "first_bin", "valley_bin", "valley_bin", "first_base"])
        if kind == "first_base":
            # an alignment of one base (the rest of the read is clipped) at the very first base of the cluster
            k_name = "s%d" % k
            special.append(k_name)
            reads.append(R.make_read(k_name, chrom, [[seg_starts[0] + 1, seg_starts[0] + 1]], mapq=60, polya=30,
                                     polyt=30))
            continue
        if kind == "valley_bin":
            # wholly inside the first bin at which the cluster may be cut (128 bins after its first covered bin): the
            # bin is a valley only while its depth (bridges + this read) stays within 1 % of the pile-up
            vb = start_bin + 128 + src.choice([0, 0, 0, 1])
            s0 = vb * BIN + src.int(3, 60)
            e0 = min((vb + 1) * BIN - 2, s0 + src.int(40, 150))
        elif kind == "last_bin":
            lb = (cluster_end - 1) // BIN
            s0 = lb * BIN + src.choice([0, 1, 2, 5, 30])
            e0 = min(cluster_end, s0 + src.int(20, 200))
            if s0 >= e0 - 5:
                s0 = max(lb * BIN, cluster_end - 40)
                e0 = cluster_end
        elif kind == "first_bin":
            s0 = seg_starts[src.int(0, nseg - 1)] + src.int(0, 20)
            e0 = s0 + src.int(30, 200)
        else:
            b = src.int(start_bin + 128, max(start_bin + 129, cluster_end // BIN))
            s0 = b * BIN + src.choice([-40, -2, -1, 0, 1, 2])
            e0 = s0 + src.int(20, 120)
            if not any(R.cigar_blocks(r["p"], r["cg"])[0][0] - 1 <= s0 <= r["p"] + 10 ** 6 for r in reads):
                pass
        name = "s%d" % k
        special.append(name)
        reads.append(R.make_read(name, chrom, [[s0 + 1, max(s0 + 2, e0)]], flag=src.choice([0, 16]), mapq=60))
    # a small separate cluster right in front of the big one: it ends in the very bin in which the big cluster begins
    # (less than a bin apart, not overlapping), and the big cluster begins with short reads confined to that bin
    off = seg_starts[0] % BIN
    if 150 <= off <= 215 and (front_cluster or src.bool(0.5)):
        bin0 = seg_starts[0] - off
        pend = seg_starts[0] - src.int(3, min(100, off - 20))          # last base (0-based, exclusive) of the small cluster
        p0 = max(1, bin0 - src.int(300, 450))
        n_early = src.int(1, 8)
        for j in range(n_early + src.int(1, 3)):
            k += 1
            e_ = bin0 - src.int(5, 60) if j < n_early else pend - src.choice([0, 0, 3])
            reads.append(R.make_read("p%d" % k, chrom, [[p0 + 1 + 10 * j, e_]], mapq=60))
        for _ in range(src.int(3, 10)):
            k += 1
            name = "s%d" % k
            special.append(name)
            s0 = seg_starts[0] + src.int(0, 5)
            reads.append(R.make_read(name, chrom, [[s0 + 1, min(bin0 + BIN - 1, s0 + src.int(25, 50))]],
                                     flag=src.choice([0, 16]), mapq=60))
    length = max(cluster_end, end_of_last) + src.int(700, 4000)
    chroms = [[chrom, length, src.int(1, 10 ** 6)]]
    sc = {"chroms": chroms, "genes": genes if with_annotation else [], "overrides": overrides, "reads": reads,
          "nfiles": 1, "gtf": {"gene_records": True, "transcript_records": True}, "special": special,
          "hidden_genes": [] if with_annotation else genes}
    if extra_chrom and src.bool(0.5):
        # a second, shallow chromosome
        sc["chroms"].append(["chr2", 6000, src.int(1, 10 ** 6)])
        for i in range(src.int(1, 5)):
            k += 1
            a = src.int(300, 4000)
            sc["reads"].append(R.make_read("e%d" % k, "chr2", [[a, a + src.int(80, 400)]], mapq=60))
    return sc


def gen_plateau_locus(src, with_annotation=True, chrom="chr1"):
    """Cluster split twice, the second split point being its *last* 256-bp bin: a small read group A, a bridge read
    over 140 bins (first valley), then a pile-up B of 200-290 reads followed by 3-6 long-intron reads that keep the
    coverage above 1 % of the maximum for more than 128 bins, one of them reaching into the last bin, and a short
    read wholly inside that last bin."""
    a_bin = src.int(2, 8)
    a0 = a_bin * BIN + src.choice([0, 3, 100, 255])
    reads = []
    k = 0
    for _ in range(src.int(2, 6)):
        k += 1
        s_ = a0 + src.int(0, 300)
        reads.append(R.make_read("a%d" % k, chrom, [[s_ + 1, s_ + src.int(150, 400)]], mapq=60))
    start_bin = a_bin + 140
    s0 = start_bin * BIN + src.choice([0, 3, 100, 255])
    k += 1
    reads.append(R.make_read("bridge%d" % k, chrom, [[a0 + 101, a0 + 260], [s0 + 61, s0 + 200]], mapq=60))
    n_pile = src.int(200, 290)
    chain = [[s0 + 51, s0 + 351], [s0 + 901, s0 + 1251], [s0 + 2001, s0 + 2501]]
    strand = src.choice(["+", "-"])
    genes = [{"id": "D0", "chr": chrom, "strand": strand, "canon": "canon",
              "transcripts": [{"id": "DT0", "exons": chain}]}]
    overrides = build.splice_overrides(chrom, chain, strand)
    for _ in range(n_pile):
        k += 1
        blocks = [list(b) for b in chain]
        blocks[0][0] += src.int(0, 40)
        blocks[-1][1] -= src.int(0, 40)
        reads.append(R.make_read("d%d" % k, chrom, blocks, flag=16 if strand == "-" else 0, mapq=60))
    last_bin = a_bin + 128 + src.int(131, 150)
    nb = src.int(3, 6)
    for i in range(nb):
        k += 1
        a = s0 + 2100 + src.int(0, 200)
        if i == 0:
            # reaches into the last bin
            e = last_bin * BIN + src.choice([70, 100, 128, 200])
        else:
            e = (last_bin - 1) * BIN + src.int(100, 255) if i < 3 else (last_bin - src.int(1, 20)) * BIN + src.int(0, 255)
        reads.append(R.make_read("b%d" % k, chrom, [[a + 1, a + 150], [e - 120, e + 1]], mapq=60))
    special = []
    for _ in range(src.int(1, 2)):
        k += 1
        s_ = last_bin * BIN + src.choice([1, 2, 3, 10, 60])
        e_ = min(last_bin * BIN + 255, s_ + src.int(20, 180))
        special.append("s%d" % k)
        reads.append(R.make_read("s%d" % k, chrom, [[s_ + 1, e_]], flag=src.choice([0, 16]), mapq=60))
    length = (last_bin + 1) * BIN + src.int(800, 3000)
    return {"chroms": [[chrom, length, src.int(1, 10 ** 6)]], "genes": genes if with_annotation else [],
            "overrides": overrides, "reads": reads, "nfiles": 1,
            "gtf": {"gene_records": True, "transcript_records": True}, "special": special,
            "hidden_genes": [] if with_annotation else genes}


def gen_long_gene_locus(src, with_annotation=True, chrom="chr1", straddle=False, x_annotated=True, n_cross=1,
                        tail_only=False, inner_bridge=False, novel_tail=False, x_variant=False):
    """A sparsely covered gene longer than two splitting windows: 3-5 exons separated by introns of 130-170 bins
    (33-43 kb), 1-3 full-length reads that are therefore processed in >= 3 regions and assigned to the same isoform in
    each of them, short reads on single exons, optionally a pile-up on the first exon (so that depth 2-3 is still a
    valley by the 1 % rule) and a compact gene behind the last exon."""
    start_bin = src.int(2, 10)
    n_ex = src.int(3, 5)
    pos = start_bin * BIN + src.choice([0, 1, 100, 255])
    chain = []
    for i in range(n_ex):
        ln = src.int(120, 400)
        chain.append([pos + 1, pos + ln])
        pos = pos + ln + src.int(145 if straddle and i == 0 else 130, 170) * BIN + src.choice([0, 1, 77, 255])
    strand = src.choice(["+", "-"])
    genes = [{"id": "L0", "chr": chrom, "strand": strand, "canon": "canon",
              "transcripts": [{"id": "LT0", "exons": chain}]}]
    if tail_only:
        # only the last two exons are annotated: the long reads are a novel isoform of a gene that lies wholly in
        # the last processing region while they start in the first one
        genes[0]["transcripts"][0]["exons"] = [list(e) for e in chain[-2:]]
    elif src.bool(0.5):
        # an annotated isoform without one inner exon
        j = src.int(1, n_ex - 2)
        genes[0]["transcripts"].append({"id": "LT1", "exons": chain[:j] + chain[j + 1:]})
    overrides = build.splice_overrides(chrom, chain, strand)
    reads = []
    k = 0
    hidden_x = []
    pile = True if straddle else src.bool(0.5)
    n_long = 1 if straddle else (src.int(1, 3) if pile else 1)
    if tail_only:
        pile, n_long = True, 3
    for _ in range(n_long):
        k += 1
        blocks = [list(b) for b in chain]
        blocks[0][0] += src.int(0, 30)
        blocks[-1][1] -= src.int(0, 30)
        reads.append(R.make_read("long%d" % k, chrom, blocks, flag=16 if strand == "-" else 0, mapq=60,
                                 polya=25 if strand == "+" and src.bool(0.5) else 0))
    if pile:
        for j in range(src.int(520, 600) if straddle else src.int(310, 400)):
            k += 1
            a = chain[0][0] + (0 if j == 0 else src.int(0, 20))
            reads.append(R.make_read("d%d" % k, chrom, [[a, chain[0][1] - src.int(0, 20)]],
                                     flag=16 if strand == "-" else 0, mapq=60))
    special = []
    for _ in range(src.int(1, 4)):
        k += 1
        e = src.choice(chain)
        a = e[0] + src.int(0, 30)
        special.append("s%d" % k)
        reads.append(R.make_read("s%d" % k, chrom, [[a, min(e[1], a + src.int(60, 200))]], flag=src.choice([0, 16]),
                                 mapq=60))
    if straddle:
        # a compact gene X inside the first intron of L whose first exon contains the first split point (128 bins
        # after the first covered bin; depth there stays <= 1 % of the pile-up): one full-length read crosses the
        # split point, 2-3 reads with the complete intron chain start behind it, so that distinct reads support the
        # same reference isoform in two processing regions
        first_bin = (chain[0][0] - 1) // BIN
        b0 = (first_bin + 128) * BIN                      # 0-based first position of the second region
        x0 = b0 - src.int(20, 150)
        cx = [[x0 + 1, x0 + src.int(650, 800)]]
        for _ in range(src.int(1, 2)):
            a = cx[-1][1] + src.int(150, 400)
            cx.append([a + 1, a + src.int(120, 300)])
        stx = src.choice(["+", "-"])
        xg = {"id": "X0", "chr": chrom, "strand": stx, "canon": "canon", "transcripts": [{"id": "XT0", "exons": cx}]}
        if x_annotated and x_variant:
            # X is annotated with another donor site of its first intron: the reads are an unannotated isoform of a
            # gene that is known in both processing regions
            alt = [list(b) for b in cx]
            alt[0][1] -= 60
            genes.append(dict(xg, transcripts=[{"id": "XT0", "exons": alt}]))
            hidden_x = [dict(xg, transcripts=[{"id": "XT0n", "exons": cx}])]
            overrides += build.splice_overrides(chrom, alt, stx)
        elif x_annotated:
            genes.append(xg)
        else:
            hidden_x = [xg]
        overrides += build.splice_overrides(chrom, cx, stx)
        for _ in range(n_cross):
            k += 1
            blocks = [list(b) for b in cx]
            blocks[0][0] += src.int(0, 10)
            reads.append(R.make_read("x%d" % k, chrom, blocks, flag=16 if stx == "-" else 0, mapq=60,
                                     polya=25 if stx == "+" else 0, polyt=25 if stx == "-" else 0))
        for _ in range(src.int(2, 3)):
            k += 1
            blocks = [list(b) for b in cx]
            blocks[0][0] = b0 + BIN + src.int(5, 60)
            special.append("x%d" % k)
            reads.append(R.make_read("x%d" % k, chrom, blocks, flag=16 if stx == "-" else 0, mapq=60,
                                     polya=25 if stx == "+" else 0, polyt=25 if stx == "-" else 0))
    if novel_tail:
        # an unannotated isoform of L that uses its last two exons and one more exon behind the annotated gene end: the
        # model belongs to the last processing region and reaches beyond the gene record
        extra = [chain[-1][1] + src.int(300, 700), 0]
        extra[1] = extra[0] + src.int(200, 400)
        nt_chain = [list(chain[-2]), list(chain[-1]), extra]     # shares the last intron of L
        overrides_nt = build.splice_overrides(chrom, nt_chain, strand)
        for _ in range(src.int(4, 7)):
            k += 1
            reads.append(R.make_read("nt%d" % k, chrom, [list(b) for b in nt_chain], flag=16 if strand == "-" else 0,
                                     mapq=60, polya=25 if strand == "+" else 0))
    else:
        overrides_nt = []
    if inner_bridge and n_ex >= 3:
        # a compact gene W inside the second intron of L (i.e. behind the first split point, in a region of its own
        # gene set) and reads that join the first exon of L to the exons of W: in the first region they can only be
        # compared with L, in the later one with L and W
        w0 = chain[1][1] + src.int(40, 90) * BIN
        cw = [[w0 + 1, w0 + 300], [w0 + 701, w0 + 1000], [w0 + 1401, w0 + 1700]]
        if cw[-1][1] + 2000 < chain[2][0]:
            genes.append({"id": "W0", "chr": chrom, "strand": strand, "canon": "canon",
                          "transcripts": [{"id": "WT0", "exons": cw}]})
            overrides += build.splice_overrides(chrom, cw, strand)
            for _ in range(src.int(3, 6)):
                k += 1
                reads.append(R.make_read("w%d" % k, chrom, [list(b) for b in cw], flag=16 if strand == "-" else 0,
                                         mapq=60))
            for _ in range(src.int(1, 3)):
                k += 1
                special.append("br%d" % k)
                reads.append(R.make_read("br%d" % k, chrom, [list(chain[0])] + [list(b) for b in cw],
                                         flag=16 if strand == "-" else 0, mapq=60))
    overrides += overrides_nt
    end = max(chain[-1][1], max(R.ref_end_of(r) for r in reads))
    if src.bool(0.6):
        g0 = end + src.int(300, 2000)
        c2 = [[g0 + 1, g0 + 300], [g0 + 801, g0 + 1100]]
        st2 = src.choice(["+", "-"])
        genes.append({"id": "S0", "chr": chrom, "strand": st2, "canon": "canon",
                      "transcripts": [{"id": "ST0", "exons": c2}]})
        overrides += build.splice_overrides(chrom, c2, st2)
        for _ in range(src.int(2, 6)):
            k += 1
            reads.append(R.make_read("g%d" % k, chrom, [list(b) for b in c2], flag=16 if st2 == "-" else 0, mapq=60))
        end = c2[-1][1]
    length = end + src.int(800, 3000)
    return {"chroms": [[chrom, length, src.int(1, 10 ** 6)]], "genes": genes if with_annotation else [],
            "overrides": overrides, "reads": reads, "nfiles": 1,
            "gtf": {"gene_records": True, "transcript_records": True}, "special": special,
            "hidden_genes": hidden_x if with_annotation else genes + hidden_x}


def gen_one_bin_pileup(src, with_annotation=True, chrom="chr1"):
    """A cluster of >= 1024 short reads that all start and end inside one 256-bp coverage bin (amplicon-like), plus
    an ordinary gene elsewhere on the chromosome."""
    b = src.int(3, 40)
    reads = []
    n = src.int(1024, 1200)
    strand = src.choice(["+", "-"])
    lo = b * BIN + src.int(0, 20)
    for i in range(n):
        a = lo + src.int(0, 40)
        e = min((b + 1) * BIN - 1, a + src.int(60, 190))
        reads.append(R.make_read("p%d" % i, chrom, [[a + 1, e + 1 - 1]], flag=16 if strand == "-" else 0,
                                 mapq=src.choice([60, 60, 60, 20])))
    genes = [{"id": "P0", "chr": chrom, "strand": strand, "canon": "canon",
              "transcripts": [{"id": "PT0", "exons": [[lo - 30, (b + 1) * BIN + 40]]}]}]
    g0 = (b + 3) * BIN + src.int(300, 3000)
    c2 = [[g0 + 1, g0 + 300], [g0 + 801, g0 + 1100], [g0 + 1501, g0 + 1800]]
    st2 = src.choice(["+", "-"])
    genes.append({"id": "S0", "chr": chrom, "strand": st2, "canon": "canon",
                  "transcripts": [{"id": "ST0", "exons": c2}]})
    overrides = build.splice_overrides(chrom, c2, st2)
    special = []
    for i in range(src.int(2, 6)):
        reads.append(R.make_read("g%d" % i, chrom, [list(x) for x in c2], flag=16 if st2 == "-" else 0, mapq=60))
    special.append("p0")
    length = c2[-1][1] + src.int(800, 3000)
    return {"chroms": [[chrom, length, src.int(1, 10 ** 6)]], "genes": genes if with_annotation else [],
            "overrides": overrides, "reads": reads, "nfiles": 1,
            "gtf": {"gene_records": True, "transcript_records": True}, "special": special,
            "hidden_genes": [] if with_annotation else genes}


def gen_balanced_novel_locus(src, with_annotation=True, chrom="chr1"):
    """A deep pile-up on a short gene and a few reads of an unannotated 3-exon isoform whose long introns reach over
    the split point; the reads overlap the two sub-regions about equally, and half of them start a little later, so
    that the copies of different reads are kept in different sub-regions."""
    start_bin = src.int(3, 8)
    g0 = start_bin * BIN + src.int(20, 200)
    short = [[g0 + 1, g0 + 600], [g0 + 1001, g0 + 2400]]
    strand = "+"
    genes = [{"id": "H0", "chr": chrom, "strand": strand, "canon": "canon",
              "transcripts": [{"id": "HT0", "exons": short}]}]
    overrides = build.splice_overrides(chrom, short, strand)
    reads = []
    k = 0
    for _ in range(src.int(650, 750)):
        k += 1
        blocks = [list(b) for b in short]
        blocks[0][0] += src.int(0, 30)
        blocks[-1][1] -= src.int(0, 30)
        reads.append(R.make_read("d%d" % k, chrom, blocks, mapq=60))
    cut = (g0 // BIN + 128) * BIN          # first split point (0-based start of the second sub-region)
    s_r = short[1][0] + src.int(600, 800)
    e_r = 2 * cut - s_r + src.int(-120, 120)
    x1 = [s_r, short[1][1] + src.int(300, 500)]
    mid0 = x1[1] + src.int(14000, 18000)
    x2 = [mid0, mid0 + 200]
    x3 = [e_r - src.int(250, 400), e_r]
    if not (x2[1] + 2000 < cut < x3[0] - 2000):
        x2 = [cut - 9000, cut - 8800]
    chainx = [x1, x2, x3]
    overrides += build.splice_overrides(chrom, chainx, strand)
    hidden = [{"id": "N0", "chr": chrom, "strand": strand, "canon": "canon",
               "transcripts": [{"id": "NT0", "exons": chainx}]}]
    special = []
    n = src.int(3, 4)
    for i in range(2 * n):
        k += 1
        blocks = [list(b) for b in chainx]
        if i >= n:
            blocks[0][0] += src.int(220, 300)          # 5'-truncated copies
        special.append("n%d" % k)
        reads.append(R.make_read("n%d" % k, chrom, blocks, mapq=60, polya=src.int(22, 30)))
    length = e_r + src.int(1500, 4000)
    return {"chroms": [[chrom, length, src.int(1, 10 ** 6)]], "genes": genes if with_annotation else [],
            "overrides": overrides, "reads": reads, "nfiles": 1,
            "gtf": {"gene_records": True, "transcript_records": True}, "special": special,
            "hidden_genes": hidden if with_annotation else genes + hidden}


def add_mirror_strand_clone(src, sc, g, reads_per_chain=(3, 5), name_prefix="m"):
    """Clone gene g (and the unannotated chains derived from it) onto a new chromosome at the SAME coordinates but on
    the opposite strand, with splice sites canonical for that strand, and add exact reads of every chain.  Two
    chromosomes then carry introns with identical coordinates and opposite strands (per-process caches keyed by
    coordinates only give themselves away)."""
    used = set(c[0] for c in sc["chroms"])
    free = [n for n in CHROM_NAMES if n not in used]
    if not free:
        return None
    src_len = chrom_len(sc, g["chr"])
    name = free[0]
    sc["chroms"].append([name, src_len + src.int(0, 3) * 1000, src.int(1, 10 ** 6)])
    strand = "-" if g["strand"] == "+" else "+"
    clone = {"id": g["id"] + "m", "chr": name, "strand": strand, "canon": "canon",
             "transcripts": [{"id": t["id"] + "m", "exons": [list(e) for e in t["exons"]]} for t in g["transcripts"]]}
    sc["genes"].append(clone)
    chains = [t["exons"] for t in clone["transcripts"]]
    for nv in list(sc.get("novel", [])):
        if nv.get("gene") == g["id"] or (nv.get("gene") is None and nv["chr"] == g["chr"]
                                         and nv["exons"][-1][1] + 100 < sc["chroms"][-1][1]):
            chains.append([list(e) for e in nv["exons"]])
            sc["novel"].append({"chr": name, "strand": strand, "exons": [list(e) for e in nv["exons"]],
                                "gene": clone["id"]})
    k = 0
    for ex in chains:
        sc["overrides"] += build.splice_overrides(name, ex, strand)
        for _ in range(src.int(*reads_per_chain)):
            k += 1
            sc["reads"].append(exact_read("%s%s_%d" % (name_prefix, g["id"], k), name, strand, ex,
                                          polya=src.int(20, 30)))
    return clone


def gen_islands_locus(src, nested=True):
    """A long annotated gene G whose reads form two separate clusters (two isoforms that do not overlap each other:
    alternative promoters / sparse coverage), optionally with a gene H nested between them that has reads of its own,
    so that the regions are processed in the order G, H, G.  Each cluster holds reads of the annotated isoform and of an
    unannotated variant (exon skipping / an additional exon).  Scenario without options."""
    from vlib import build
    strand = src.choice(["+", "-"])
    base = src.int(600, 1500)

    def chain(lengths, gaps, start):
        out, p_ = [], start
        for i, ln in enumerate(lengths):
            out.append([p_, p_ + ln - 1])
            if i < len(gaps):
                p_ += ln + gaps[i]
        return out
    t1 = chain([src.int(150, 250) for _ in range(4)], [src.int(250, 450) for _ in range(3)], base)
    mid0 = t1[-1][1] + src.int(1200, 2000)
    h = chain([src.int(150, 250) for _ in range(3)], [src.int(250, 400) for _ in range(2)], mid0)
    t2 = chain([src.int(150, 250) for _ in range(4)], [src.int(250, 450) for _ in range(3)],
               h[-1][1] + src.int(1200, 2000))
    genes = [{"id": src.choice(["G", "sox2", "G1"]), "chr": "chr1", "strand": strand, "canon": "canon",
              "transcripts": [{"id": "G.t1", "exons": t1}, {"id": "G.t2", "exons": t2}]}]
    hstrand = src.choice(["+", "-"])
    if nested:
        genes.append({"id": "H", "chr": "chr1", "strand": hstrand, "canon": "canon",
                      "transcripts": [{"id": "H.t1", "exons": h}]})
    reads, novel = [], []
    k = 0

    def add(ch, st, n, prefix):
        nonlocal k
        for _ in range(n):
            k += 1
            reads.append(exact_read("%s%d" % (prefix, k), "chr1", st, ch, polya=src.int(22, 32)))
    for t in (t1, t2):
        add(t, strand, src.int(3, 6), "k")
        if src.bool(0.8):
            nv = [t[0], t[2], t[3]] if src.bool(0.5) else t[:2] + [[t[2][0], t[2][1] - src.int(40, 70)], t[3]]
            novel.append(nv)
            add(nv, strand, src.int(4, 7), "n")
    if nested:
        add(h, hstrand, src.int(3, 6), "h")
    overrides = []
    for g in genes:
        for t in g["transcripts"]:
            overrides += build.splice_overrides("chr1", t["exons"], g["strand"])
    for nv in novel:
        overrides += build.splice_overrides("chr1", nv, strand)
    return {"chroms": [["chr1", t2[-1][1] + src.int(900, 2000), src.int(1, 10 ** 6)]], "genes": genes,
            "overrides": overrides, "reads": reads, "nfiles": 1, "novel": [{"chr": "chr1", "exons": nv} for nv in novel],
            "gtf": {"gene_records": True, "transcript_records": True}, "template": "islands"}
