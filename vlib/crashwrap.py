"""Crash injection for C07: counts file-system mutation points of the main process after `.params` was written and
kills the process (os._exit, no buffers flushed) immediately before or after mutation k.

Installed inside a forked child before isoquant.main runs (guarded by ABLAB_ISOQUANT_VERIF=1 in the caller);
nothing in /repo is modified."""
import builtins
import os
import re

EXIT_CODE = 77


def label_of(op, path, mode=""):
    b = os.path.basename(str(path))
    b = re.sub(r"(chr[0-9XYM]+|scaffold_\d+|GL000\.\d+|(?<=_)\d+(?=_|$))", "CHR", b)
    parent = os.path.basename(os.path.dirname(str(path)))
    return "%s%s:%s/%s" % (op, (":" + mode) if mode else "", parent if parent in ("aux", "IsoQuant") else "", b)


def install(k, mode, labels_path=None, watch_root=None, armed=False):
    """k: 1-based index of the mutation to crash at (0 = never); mode: 'before' | 'after'.
    armed=True counts from the first mutation on (used for resumed runs, whose parameters were saved long ago)."""
    state = {"n": 0, "armed": armed, "pid": os.getpid()}
    real_open = builtins.open
    real_remove = os.remove
    real_makedirs = os.makedirs

    def note(label):
        if labels_path:
            with real_open(labels_path, "a") as f:
                f.write("%d\t%s\n" % (state["n"], label))

    def tick(label):
        """returns True when the crash is due after the operation"""
        if os.getpid() != state["pid"] or not state["armed"]:
            return False
        state["n"] += 1
        note(label)
        if k and state["n"] == k:
            if mode == "before":
                os._exit(EXIT_CODE)
            return True
        return False

    def relevant(path):
        p = str(path)
        if watch_root and not os.path.abspath(p).startswith(watch_root):
            return False
        return True

    def open_hook(file, mode="r", *a, **kw):
        if isinstance(file, int) or not any(c in mode for c in "wax+") or not relevant(file):
            return real_open(file, mode, *a, **kw)
        if os.getpid() == state["pid"] and not state["armed"]:
            f = real_open(file, mode, *a, **kw)
            if os.path.basename(str(file)) in (".params", ".params.tmp"):     # written, then moved into place
                state["armed"] = True
            return f
        due = tick(label_of("open", file, mode))
        f = real_open(file, mode, *a, **kw)
        if due:
            os._exit(EXIT_CODE)
        return f

    def remove_hook(path, *a, **kw):
        if not relevant(path):
            return real_remove(path, *a, **kw)
        due = tick(label_of("remove", path))
        r = real_remove(path, *a, **kw)
        if due:
            os._exit(EXIT_CODE)
        return r

    def makedirs_hook(path, *a, **kw):
        if not relevant(path) or os.path.isdir(str(path)):
            return real_makedirs(path, *a, **kw)
        due = tick(label_of("makedirs", path))
        r = real_makedirs(path, *a, **kw)
        if due:
            os._exit(EXIT_CODE)
        return r

    builtins.open = open_hook
    os.remove = remove_hook
    os.makedirs = makedirs_hook
    import io
    io.open = open_hook
    try:
        import gffutils
        real_create = gffutils.create_db

        def create_hook(data, dbfn, *a, **kw):
            due = tick(label_of("create_db", dbfn))
            r = real_create(data, dbfn, *a, **kw)
            if due:
                os._exit(EXIT_CODE)
            return r
        gffutils.create_db = create_hook
    except Exception:
        pass
    return state
