"""Differential comparison of IsoQuant output directories (byte equality modulo the run-specific header)."""
import os

from . import parse


def file_map(out_dir, prefix):
    d = os.path.join(out_dir, prefix)
    res = {}
    if os.path.isdir(d):
        for fn in sorted(os.listdir(d)):
            p = os.path.join(d, fn)
            if os.path.isfile(p):
                key = fn[len(prefix) + 1:] if fn.startswith(prefix + ".") else fn
                if key.endswith(".gz"):
                    key = key[:-3]
                res[key] = p
    return res


def content(path, rename=None, multiset=False):
    lines = parse.strip_header(path)
    if rename:
        a, b = rename
        lines = [l.replace(a, b) for l in lines]
    if multiset:
        lines = sorted(lines)
    return lines


def diff_dirs(out_a, prefix_a, out_b, prefix_b, multiset=False, only=None, ignore=()):
    """Returns list of (kind, file, detail): kind in {'only-in-first','only-in-second','content'}."""
    fa, fb = file_map(out_a, prefix_a), file_map(out_b, prefix_b)
    res = []
    for k in sorted(set(fa) | set(fb)):
        if only is not None and k not in only:
            continue
        if k in ignore:
            continue
        if k not in fb:
            res.append(("only-in-first", k, None))
            continue
        if k not in fa:
            res.append(("only-in-second", k, None))
            continue
        rn = (prefix_b, prefix_a) if prefix_a != prefix_b else None
        a = content(fa[k], None, multiset)
        b = content(fb[k], rn, multiset)
        if a != b:
            i = next((i for i, (x, y) in enumerate(zip(a, b)) if x != y), min(len(a), len(b)))
            res.append(("content", k, {"line": i, "first": a[i].rstrip("\n")[:300] if i < len(a) else None,
                                       "second": b[i].rstrip("\n")[:300] if i < len(b) else None,
                                       "n_first": len(a), "n_second": len(b)}))
    return res
