"""Shared engine of the IsoQuant property-based verification machinery (see /verif/DESIGN.md section 3)."""
import os

REPO = os.environ.get("VERIF_REPO", "/repo")
VERIF = os.path.dirname(os.path.dirname(os.path.abspath(__file__)))
GUARD = "ABLAB_ISOQUANT_VERIF"
PYTHON = os.environ.get("VERIF_PYTHON", "/venv/bin/python")
