#!/usr/bin/env python3
# Property C19, second pass, finding 1 -- end-to-end consequence.
#
# One gene, three annotated isoforms, one read; then the exact mirror image of everything
# (coordinate x -> L+1-x, same strand labels; strand does not enter the assignment here).
# The read has both its introns matching A and A2 (A2 = A with a later start and without the first exon),
# so the split-exon profile has to break the tie; it can: the read covers 9 bases that A has and A2 has not.
# Isoform D only adds an exon boundary 6 bases before the end of A's exon; the read exon ends 2 bases
# before A's exon end, i.e. 4 bases (< minimal_exon_overlap) inside that 6-base block.
#   orientation 1: the 4 bases are at the right end of the read exon -> block marked -1 -> contradicts A and A2
#                  -> tie not broken -> read is "ambiguous"
#   orientation 2 (mirror): the 4 bases are at the left end of the read exon -> block marked 0
#                  -> tie broken -> read is "unique" to A
# exit 1 if the two orientations give different assignments.

import os
import random
import shutil
import subprocess
import sys

import pysam

REPO = os.path.dirname(os.path.abspath(__file__))
SCRATCH = "/tmp/hunt2scratch_C19/e2e_1"
L = 6000

ISOFORMS = {
    "A": [(1000, 1200), (2000, 2210), (3000, 3200), (4000, 4200), (5000, 5200)],
    "A2": [(2055, 2210), (3000, 3200), (4000, 4200), (5000, 5200)],
    "D": [(1000, 1200), (2000, 2204), (3000, 3200), (4000, 4200), (5000, 5200)],
}
READ = [(2046, 2208), (3000, 3200), (4000, 4100)]


def mirror(blocks):
    return sorted((L + 1 - e, L + 1 - s) for s, e in blocks)


def write_inputs(workdir, isoforms, read, genome):
    os.makedirs(workdir)
    fasta = os.path.join(workdir, "genome.fa")
    with open(fasta, "w") as f:
        f.write(">chr1\n")
        for i in range(0, len(genome), 60):
            f.write(genome[i:i + 60] + "\n")
    gtf = os.path.join(workdir, "annot.gtf")
    with open(gtf, "w") as f:
        start = min(e[0][0] for e in isoforms.values())
        end = max(e[-1][1] for e in isoforms.values())
        f.write('chr1\ttest\tgene\t%d\t%d\t.\t+\t.\tgene_id "G1";\n' % (start, end))
        for t_id, exons in isoforms.items():
            f.write('chr1\ttest\ttranscript\t%d\t%d\t.\t+\t.\tgene_id "G1"; transcript_id "%s";\n'
                    % (exons[0][0], exons[-1][1], t_id))
            for s, e in exons:
                f.write('chr1\ttest\texon\t%d\t%d\t.\t+\t.\tgene_id "G1"; transcript_id "%s";\n' % (s, e, t_id))
    bam = os.path.join(workdir, "reads.bam")
    header = {"HD": {"VN": "1.6", "SO": "coordinate"}, "SQ": [{"SN": "chr1", "LN": len(genome)}]}
    with pysam.AlignmentFile(bam, "wb", header=header) as out:
        a = pysam.AlignedSegment()
        a.query_name = "read1"
        a.reference_id = 0
        a.reference_start = read[0][0] - 1
        cigar = []
        seq = ""
        for i, (s, e) in enumerate(read):
            if i > 0:
                cigar.append((3, s - read[i - 1][1] - 1))
            cigar.append((0, e - s + 1))
            seq += genome[s - 1:e]
        a.cigartuples = cigar
        a.query_sequence = seq
        a.query_qualities = pysam.qualitystring_to_array("I" * len(seq))
        a.mapping_quality = 60
        a.flag = 0
        out.write(a)
    pysam.index(bam)
    return fasta, gtf, bam


def run(name, isoforms, read, genome):
    workdir = os.path.join(SCRATCH, name)
    fasta, gtf, bam = write_inputs(workdir, isoforms, read, genome)
    home = os.path.join(workdir, "home")
    os.makedirs(home)
    outdir = os.path.join(workdir, "out")
    cmd = [sys.executable, os.path.join(REPO, "isoquant.py"), "--reference", fasta, "--genedb", gtf,
           "--complete_genedb", "--bam", bam, "--data_type", "nanopore", "-o", outdir, "--threads", "1",
           "--no_gzip", "--no_model_construction"]
    env = dict(os.environ, HOME=home)
    res = subprocess.run(cmd, env=env, stdout=subprocess.PIPE, stderr=subprocess.STDOUT, text=True)
    if res.returncode != 0:
        print(res.stdout[-3000:])
        raise SystemExit("IsoQuant failed in " + name)
    rows = []
    with open(os.path.join(outdir, "OUT", "OUT.read_assignments.tsv")) as f:
        for line in f:
            if line.startswith("#"):
                continue
            v = line.rstrip("\n").split("\t")
            # read_id chr strand isoform_id gene_id assignment_type assignment_events exons additional
            rows.append((v[3], v[5], v[6]))
    return sorted(rows)


def main():
    shutil.rmtree(SCRATCH, ignore_errors=True)
    os.makedirs(SCRATCH)
    random.seed(19)
    genome = "".join(random.choice("ACGT") for _ in range(L))
    # complement-free mirror: just reverse the sequence, so that both runs see the "same" bases along the read
    res1 = run("orientation1", ISOFORMS, READ, genome)
    res2 = run("orientation2_mirror", {k: mirror(v) for k, v in ISOFORMS.items()}, mirror(READ), genome[::-1])
    print("orientation 1 (short overhang at the right end of the read exon):", res1)
    print("orientation 2 (mirror image, overhang at the left end):          ", res2)
    shutil.rmtree(SCRATCH, ignore_errors=True)
    t1 = sorted(set((r[0], r[1]) for r in res1))
    t2 = sorted(set((r[0], r[1]) for r in res2))
    if t1 != t2:
        print("PROPERTY C19 VIOLATED (consequence): mirror-image inputs are assigned differently: %s vs %s" % (t1, t2))
        sys.exit(1)
    print("OK")
    sys.exit(0)


if __name__ == "__main__":
    main()
