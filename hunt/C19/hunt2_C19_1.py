#!/usr/bin/env python3
# Property C19, second pass, finding 1.
#
# The read profile over the split (disjoint) exon blocks, built by
# NonOverlappingFeaturesProfileConstructor.construct_profile (src/long_read_profiles.py), is supposed to
# mark a block  1 iff a read exon matches it (overlap >= minimal_exon_overlap or containment),
#              -1 iff the read spans the block without matching it.
# A block that is touched by fewer than minimal_exon_overlap (=5) bases of a read exon is not matched.
# When these few bases belong to the RIGHT end of a read exon the block becomes -1 (absent),
# when they belong to the LEFT end of a (non-first) read exon, or to both neighbours, the block stays 0
# (= "the read says nothing about it"), although the read spans the block in exactly the same way.
# The mirror image of an input therefore gets a different profile.
#
# The script uses the unchanged IsoQuant classes with the parameters IsoQuant itself sets
# (delta=6, minimal_exon_overlap=5, minimal_intron_absence_overlap=20).
# exit 1 = property violated, exit 0 = fine.

import os
import sys
from types import SimpleNamespace

sys.path.insert(0, os.path.dirname(os.path.abspath(__file__)))

from src.gene_info import GeneInfo, TranscriptModel, TranscriptModelType
from src.long_read_profiles import CombinedProfileConstructor
from src.polya_finder import PolyAInfo
from src.common import overlaps, overlaps_at_least

PARAMS = SimpleNamespace(delta=6, minimal_exon_overlap=5, minimal_intron_absence_overlap=20, count_exons=False)
NO_POLYA = PolyAInfo(-1, -1, -1, -1)


def mirror(blocks, length):
    return sorted((length + 1 - e, length + 1 - s) for s, e in blocks)


def split_profile(isoforms, read_exons):
    models = [TranscriptModel("chr1", "+", "T%d" % i, "G", exons, TranscriptModelType.known)
              for i, exons in enumerate(isoforms)]
    gene_info = GeneInfo.from_models(models, PARAMS.delta)
    constructor = CombinedProfileConstructor(gene_info, PARAMS)
    profiles = constructor.construct_profiles(read_exons, NO_POLYA, [])
    return gene_info.split_exon_profiles.features, profiles.read_split_exon_profile.gene_profile


def expected_value(block, read_exons):
    # the definition in the property: present iff matched, absent iff spanned without a match, else unknown
    if any(overlaps(r, block) and overlaps_at_least(r, block, PARAMS.minimal_exon_overlap) for r in read_exons):
        return 1
    # spanned: a part of the read lies on each side of the block (terminal read exons that merely
    # stick into the block from outside do not count, exactly as the code treats them on the right side)
    if read_exons[0][1] < block[1] and read_exons[-1][0] > block[0]:
        return -1
    return 0


def main():
    failures = []
    length = 5000

    # isoform A has the exon 2000-2210, isoform D ends the same exon at 2204: blocks 2000-2204 | 2205-2210
    iso_a = [(1000, 1200), (2000, 2210), (3000, 3200), (4000, 4200)]
    iso_d = [(1000, 1200), (2000, 2204), (3000, 3200), (4000, 4200)]
    # the second read exon ends at 2208: 4 bases inside block 2205-2210 (< minimal_exon_overlap)
    read = [(1100, 1200), (2000, 2208), (3000, 3200), (4000, 4100)]

    cases = [("right end of a read exon sticks 4 bases into the block", [iso_a, iso_d], read, (2205, 2210)),
             ("mirror image: left end of a read exon sticks 4 bases into the block",
              [mirror(iso_a, length), mirror(iso_d, length)], mirror(read, length),
              mirror([(2205, 2210)], length)[0])]

    # block 3000-3010 touched by 2 bases of the read exon before it and 2 bases of the read exon after it
    iso_e = [(1000, 1200), (2000, 2200), (3000, 3010), (4000, 4200)]
    read_e = [(1100, 1200), (2000, 2200), (2900, 3001), (3009, 3100), (4000, 4100)]
    cases.append(("block touched by 2 bases from each neighbouring read exon", [iso_e], read_e, (3000, 3010)))

    observed = {}
    for name, isoforms, read_exons, block in cases:
        features, profile = split_profile(isoforms, read_exons)
        assert block in features, (block, features)
        value = profile[features.index(block)]
        exp = expected_value(block, read_exons)
        observed[name] = value
        print("%s:\n   split blocks %s\n   read exons   %s\n   profile      %s\n   block %s -> %d (expected %d)"
              % (name, features, read_exons, profile, str(block), value, exp))
        if value != exp:
            failures.append("%s: block %s is spanned by the read and not matched, profile says %d instead of %d"
                            % (name, str(block), value, exp))

    values = list(observed.values())
    if values[0] != values[1]:
        failures.append("the same alignment and its mirror image get different values for the same block: %d vs %d"
                        % (values[0], values[1]))

    if failures:
        print("\nPROPERTY C19 VIOLATED:")
        for f in failures:
            print(" - " + f)
        sys.exit(1)
    print("OK")
    sys.exit(0)


if __name__ == "__main__":
    main()
