#!/venv/bin/python
"""
C19 finding 3: read intron profile (OverlappingFeaturesProfileConstructor.construct_profile_for_features,
same loop in match_genomic_features)

Property: "read profiles mark [a known feature] present iff a read feature matches it within delta".

The two-pointer walk discards a known intron K as soon as it overlaps the CURRENT read intron without
matching it (`elif overlaps(...): gene_pos += 1`).  If the read has an internal exon shorter than delta
(default delta = 6, so a 1..5 bp micro exon, which aligners do emit), K can overlap read intron j by a
base or two and at the same time equal read intron j+1 within delta.  K is then marked -1 (absent)
although a read feature matches it within delta.  In the mirror-image situation K is compared with the
matching read intron first and is marked +1.

Part A: real GeneInfo / CombinedProfileConstructor with default parameters.
Part B: unchanged IsoQuant end to end: the read and its exact mirror image get different events.

exit 1 = property violated, exit 0 = fine
"""
import os
import random
import shutil
import subprocess
import sys
from collections import namedtuple

REPO = os.path.dirname(os.path.abspath(__file__))
sys.path.insert(0, REPO)
from src.common import equal_ranges, junctions_from_blocks
from src.gene_info import GeneInfo, TranscriptModel, TranscriptModelType
from src.long_read_profiles import CombinedProfileConstructor
from src.polya_finder import PolyAInfo

problems = []
Params = namedtuple("Params", ("delta", "minimal_exon_overlap", "minimal_intron_absence_overlap", "count_exons"))
params = Params(6, 5, 20, False)   # IsoQuant defaults (isoquant.py, set_matching_options)


def intron_profile(transcript_exons, read_exons):
    models = [TranscriptModel("chr1", "+", "t0", "g", transcript_exons, TranscriptModelType.known)]
    gi = GeneInfo.from_models(models, delta=params.delta)
    cpc = CombinedProfileConstructor(gi, params)
    res = cpc.construct_profiles(read_exons, PolyAInfo(-1, -1, -1, -1), [])
    return gi.intron_profiles.features, res.read_intron_profile.gene_profile


M = 9001   # mirror: x -> M - x
iso_a = [(1900, 1999), (3001, 3100)]                      # known intron K = (2000,3000)
read_a = [(900, 1000), (2001, 2003), (3001, 3100)]         # read introns (1001,2000) and (2004,3000); 3-bp exon
iso_b = sorted((M - b, M - a) for a, b in iso_a)           # [(5901,6000),(7002,7101)]   K' = (6001,7001)
read_b = sorted((M - b, M - a) for a, b in read_a)         # [(5901,6000),(6998,7000),(8001,8101)]

for name, iso, read in (("A", iso_a, read_a), ("B (mirror of A)", iso_b, read_b)):
    feats, prof = intron_profile(iso, read)
    rintrons = junctions_from_blocks(read)
    K = feats[0]
    matched = [r for r in rintrons if equal_ranges(r, K, params.delta)]
    print("case %s: known intron %s, read introns %s, read introns equal to K within delta=6: %s, profile value %d"
          % (name, K, rintrons, matched, prof[0]))
    if matched and prof[0] != 1:
        problems.append("case %s: read intron %s matches known intron %s within delta=%d, but the read intron profile marks it %d"
                        % (name, matched[0], K, params.delta, prof[0]))

# ---------------------------------------------------------------- end to end
import pysam

WD = "/tmp/huntscratch_C19/hunt3_%d" % os.getpid()


def build_and_run():
    os.makedirs(os.path.join(WD, "home"))
    rnd = random.Random(7)
    chrlen = 9000
    seq = [rnd.choice("ACGT") for _ in range(chrlen)]
    transcripts = [("gA", "tA", iso_a), ("gB", "tB", iso_b)]
    reads = [("readA", read_a), ("readB_mirror", read_b)]
    introns = set()
    for _, _, ex in transcripts:
        introns.update(junctions_from_blocks(ex))
    for _, ex in reads:
        introns.update(junctions_from_blocks(ex))
    for a, b in sorted(introns):
        seq[a - 1:a + 1] = "GT"
        seq[b - 2:b] = "AG"
    seq = "".join(seq)
    with open(os.path.join(WD, "genome.fa"), "w") as f:
        f.write(">chr1\n")
        for i in range(0, len(seq), 60):
            f.write(seq[i:i + 60] + "\n")
    with open(os.path.join(WD, "annot.gtf"), "w") as f:
        for g, t, ex in transcripts:
            f.write('chr1\ttest\tgene\t%d\t%d\t.\t+\t.\tgene_id "%s";\n' % (ex[0][0], ex[-1][1], g))
            f.write('chr1\ttest\ttranscript\t%d\t%d\t.\t+\t.\tgene_id "%s"; transcript_id "%s";\n' % (ex[0][0], ex[-1][1], g, t))
            for a, b in ex:
                f.write('chr1\ttest\texon\t%d\t%d\t.\t+\t.\tgene_id "%s"; transcript_id "%s";\n' % (a, b, g, t))
    header = {'HD': {'VN': '1.0', 'SO': 'coordinate'}, 'SQ': [{'SN': 'chr1', 'LN': chrlen}]}
    recs = []
    for name, ex in reads:
        a = pysam.AlignedSegment()
        a.query_name = name
        cig = []
        q = ""
        for i, (x, y) in enumerate(ex):
            if i > 0:
                cig.append((3, x - ex[i - 1][1] - 1))
            cig.append((0, y - x + 1))
            q += seq[x - 1:y]
        a.query_sequence = q
        a.flag = 0
        a.reference_id = 0
        a.reference_start = ex[0][0] - 1
        a.mapping_quality = 60
        a.cigar = cig
        a.query_qualities = pysam.qualitystring_to_array("I" * len(q))
        recs.append(a)
    recs.sort(key=lambda r: r.reference_start)
    bam = os.path.join(WD, "reads.bam")
    with pysam.AlignmentFile(bam, "wb", header=header) as f:
        for a in recs:
            f.write(a)
    pysam.index(bam)
    env = dict(os.environ)
    env["HOME"] = os.path.join(WD, "home")
    cmd = ["/venv/bin/python", os.path.join(REPO, "isoquant.py"), "--reference", os.path.join(WD, "genome.fa"),
           "--genedb", os.path.join(WD, "annot.gtf"), "--complete_genedb", "--bam", bam,
           "--data_type", "nanopore", "-o", os.path.join(WD, "out"), "--threads", "1", "--no_gzip"]
    p = subprocess.run(cmd, env=env, capture_output=True, text=True)
    if p.returncode != 0:
        print(p.stdout[-2000:], p.stderr[-2000:])
        raise RuntimeError("IsoQuant failed")
    events = {}
    with open(os.path.join(WD, "out", "OUT", "OUT.read_assignments.tsv")) as f:
        for line in f:
            if line.startswith("#"):
                continue
            p = line.rstrip("\n").split("\t")
            events[p[0]] = (p[3], p[5], p[6])
    return events


try:
    events = build_and_run()
finally:
    shutil.rmtree(WD, ignore_errors=True)
    try:
        os.rmdir("/tmp/huntscratch_C19")
    except OSError:
        pass

for k in sorted(events):
    print("end-to-end:", k, "->", events[k])
ev_a = events.get("readA", ("", "", ""))[2].split(":")[0]
ev_b = events.get("readB_mirror", ("", "", ""))[2].split(":")[0]
if ev_a != ev_b:
    problems.append("end-to-end: read A gets event '%s', its exact mirror image gets '%s' "
                    "(in B the annotated intron is recognised and only the other intron is reported as extra)" % (ev_a, ev_b))

if problems:
    print("PROPERTY C19 VIOLATED (read intron profile):")
    for p in problems:
        print(" -", p)
    sys.exit(1)
print("ok")
sys.exit(0)
