#!/venv/bin/python
"""
C19 finding 4: common.truncate_read_to_polya ("truncation at polyA" in the property text)

For sorted disjoint read exons and cut positions polya_pos / polyt_pos the result must be the exon list
of   positions(read_exons)  intersected with  [polyt_pos, polya_pos].
The function gets this right only when polya_pos is strictly behind the first base of the exon it falls
into and polyt_pos strictly before the last base of its exon.  When the polyA position coincides with the
FIRST base of an exon (or the polyT position with the LAST base of an exon) that exon is dropped and the
neighbouring exon is stretched across the whole intron; several combinations give unsorted / duplicated
blocks or an IndexError.  (Cut positions lying in an intron give the same stretched exon.)

NOTE: the function currently has no caller inside IsoQuant, so this is a defect of the primitive only.

The check is lenient: a result is accepted if it equals the set-theoretic truncation under ANY reading of
the cut position (inclusive or exclusive on either side).  Only cut positions lying inside read exons
are used.

exit 1 = property violated, exit 0 = fine
"""
import os
import sys

REPO = os.path.dirname(os.path.abspath(__file__))
sys.path.insert(0, REPO)
from src.common import truncate_read_to_polya

problems = []


def positions(l):
    s = set()
    for a, b in l:
        s.update(range(a, b + 1))
    return s


def acceptable(read, pa, pt):
    s = positions(read)
    res = []
    for da in (0, 1):
        for dt in (0, 1):
            lo = pt + dt if pt != -1 else min(s)
            hi = pa - da if pa != -1 else max(s)
            res.append(set(x for x in s if lo <= x <= hi))
    return res


# ---- realistic examples
examples = [([(100, 200), (300, 400), (500, 600)], 500, -1),    # polyA starts at the first base of the last exon
            ([(100, 200), (300, 400), (500, 600)], -1, 200),    # polyT ends at the last base of the first exon
            ([(100, 200), (300, 400), (500, 600)], 550, 200),
            ([(100, 200), (300, 400)], -1, 400)]
for read, pa, pt in examples:
    try:
        g = truncate_read_to_polya(read, pa, pt)
        ok = g == sorted(g) and positions(g) in acceptable(read, pa, pt)
    except Exception as e:
        g = repr(e)
        ok = False
    print("truncate_read_to_polya(%s, polya_pos=%d, polyt_pos=%d) -> %s   %s" % (read, pa, pt, g, "ok" if ok else "WRONG"))
    if not ok:
        problems.append("truncate_read_to_polya(%s, %d, %d) returned %s" % (read, pa, pt, g))

# ---- exhaustive
U = 9


def all_lists(maxn):
    res = []
    ivs = [(a, b) for a in range(1, U + 1) for b in range(a, U + 1)]

    def rec(cur, start):
        if cur:
            res.append(list(cur))
        if len(cur) >= maxn:
            return
        for (a, b) in ivs:
            if a >= start:
                cur.append((a, b))
                rec(cur, b + 2)
                cur.pop()
    rec([], 1)
    return res


n = n_bad = n_bad_boundary = n_exc = 0
for read in all_lists(3):
    s = positions(read)
    for pa in [-1] + sorted(s):
        for pt in [-1] + sorted(s):
            if pa != -1 and pt != -1 and pt >= pa:
                continue
            n += 1
            try:
                g = truncate_read_to_polya(read, pa, pt)
                ok = g == sorted(g) and positions(g) in acceptable(read, pa, pt)
            except Exception:
                ok = False
                n_exc += 1
            if not ok:
                n_bad += 1
                if any(pa == e[0] for e in read) or any(pt == e[1] for e in read):
                    n_bad_boundary += 1
print("exhaustive over universe 1..%d: %d instances, %d wrong (%d of them exceptions); %d of the wrong ones have polya_pos on an "
      "exon start or polyt_pos on an exon end" % (U, n, n_bad, n_exc, n_bad_boundary))
if n_bad:
    problems.append("%d of %d exhaustive instances (cut positions inside read exons) are not the set-theoretic truncation" % (n_bad, n))

if problems:
    print("PROPERTY C19 VIOLATED (truncate_read_to_polya):")
    for p in problems:
        print(" -", p)
    sys.exit(1)
print("ok")
sys.exit(0)
