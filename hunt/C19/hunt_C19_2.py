#!/venv/bin/python
"""
C19 finding 2: read split-exon profile (NonOverlappingFeaturesProfileConstructor.construct_profile)

Property: "read profiles mark [a known feature] present iff a read feature matches it ... and absent iff
the read spans it without matching".

A known split exon G that lies inside the region spanned by a spliced read and overlaps a read exon by
fewer than minimal_exon_overlap (5) bases is NOT matched.  The code marks it
   -1 (absent)   when the insufficient overlap is with G's LEFT part  (read exon ends inside G), but
    0 (unknown)  when the insufficient overlap is with G's RIGHT part (read exon starts inside G),
because the final `else` branch of the two-pointer loop advances gene_pos without ever marking G.
The two situations are exact mirror images of one another, so any definition on position sets must give
the same answer; the property demands -1 in both.

The script uses the real GeneInfo / CombinedProfileConstructor with IsoQuant's default parameters, and in
addition checks mirror invariance exhaustively over a small universe (with a symmetric comparator, so
that finding 1 does not interfere).

exit 1 = property violated, exit 0 = fine
"""
import os
import sys
from collections import namedtuple

REPO = os.path.dirname(os.path.abspath(__file__))
sys.path.insert(0, REPO)
from src.common import intersection_len, contains
from src.gene_info import GeneInfo, TranscriptModel, TranscriptModelType
from src.long_read_profiles import CombinedProfileConstructor, NonOverlappingFeaturesProfileConstructor
from src.polya_finder import PolyAInfo

problems = []

# ------------------------------------------------------------ realistic instance, default parameters
Params = namedtuple("Params", ("delta", "minimal_exon_overlap", "minimal_intron_absence_overlap", "count_exons"))
params = Params(6, 5, 20, False)   # values set in isoquant.py set_matching_options() for --matching_strategy default


def profile(transcript_exons, read_exons):
    models = [TranscriptModel("chr1", "+", "t%d" % i, "g", ex, TranscriptModelType.known)
              for i, ex in enumerate(transcript_exons)]
    gi = GeneInfo.from_models(models, delta=params.delta)
    cpc = CombinedProfileConstructor(gi, params)
    res = cpc.construct_profiles(read_exons, PolyAInfo(-1, -1, -1, -1), [])
    return gi.split_exon_profiles.features, res.read_split_exon_profile.gene_profile


# isoform with exons E1, G, E3;   G = (2000,2100)
iso = [[(1000, 1100), (2000, 2100), (3000, 3100)]]
# read A: exons E1 and one starting 3 bp before the end of G and running on into (a retained) intron / E3
read_a = [(1000, 1100), (2098, 3100)]
# read B = mirror image: exon ending 3 bp after the start of G
read_b = [(1000, 2002), (3000, 3100)]
feats, prof_a = profile(iso, read_a)
_, prof_b = profile(iso, read_b)
print("split exons      :", feats)
print("read A", read_a, "-> gene profile", prof_a)
print("read B", read_b, "-> gene profile", prof_b)
ig = feats.index((2000, 2100))
if prof_a[ig] != -1:
    problems.append("read A spans split exon (2000,2100) and overlaps it by only 3 bp (< minimal_exon_overlap=5, no match), "
                    "profile value is %d instead of -1" % prof_a[ig])
if prof_b[ig] != -1:
    problems.append("read B spans split exon (2000,2100) and overlaps it by only 3 bp, profile value is %d instead of -1" % prof_b[ig])
if prof_a[ig] != prof_b[ig]:
    problems.append("mirror-image reads A and B get different values for the same split exon: %d vs %d" % (prof_a[ig], prof_b[ig]))

# ------------------------------------------------------------ exhaustive mirror-invariance check
U = 9
D = 2


def symmetric_comparator(r, g):
    return intersection_len(r, g) >= D or contains(r, g) or contains(g, r)


def all_lists(maxn, gap):
    res = []
    ivs = [(a, b) for a in range(1, U + 1) for b in range(a, U + 1)]

    def rec(cur, start):
        if cur:
            res.append(list(cur))
        if len(cur) >= maxn:
            return
        for (a, b) in ivs:
            if a >= start:
                cur.append((a, b))
                rec(cur, b + gap)
                cur.pop()
    rec([], 1)
    return res


def mir(l):
    return sorted((U + 1 - b, U + 1 - a) for a, b in l)


n_bad = 0
n_total = 0
first = None
reads = all_lists(3, 2)
for known in all_lists(2, 1):
    c = NonOverlappingFeaturesProfileConstructor(known, comparator=symmetric_comparator, delta=0)
    cm = NonOverlappingFeaturesProfileConstructor(mir(known), comparator=symmetric_comparator, delta=0)
    for read in reads:
        n_total += 1
        p = c.construct_profile(read).gene_profile
        pm = cm.construct_profile(mir(read)).gene_profile[::-1]
        if p != pm:
            n_bad += 1
            if first is None:
                first = (known, read, p, mir(known), mir(read), pm[::-1])
if n_bad:
    problems.append("exhaustive (universe 1..%d, <=2 known split exons, <=3 read exons, min overlap %d): profile differs from the "
                    "profile of the mirrored instance in %d of %d cases; first: known=%s read=%s -> %s, mirrored known=%s read=%s -> %s"
                    % ((U, D, n_bad, n_total) + first))

if problems:
    print("PROPERTY C19 VIOLATED (split-exon read profile):")
    for p in problems:
        print(" -", p)
    sys.exit(1)
print("ok")
sys.exit(0)
