#!/usr/bin/env python3
"""
C19, third search, finding 1.

Read profile (OverlappingFeaturesProfileConstructor.construct_profile_for_features,
src/long_read_profiles.py:123-144): a known intron (or, with --count_exons, a known exon) that equals a
read feature within delta but does NOT OVERLAP it is never compared with it.  The sweep tests
"read feature lies left of the known feature" / "known feature lies left of the read feature"
(lines 128 and 132) BEFORE the comparator (line 136), so a pair of disjoint features is separated
without ever being compared.  The known feature is then marked absent (-1) or left undecided (0)
although a read feature matches it within delta.

Statement: "read profiles mark it present iff a read feature matches it within delta".

This is a sibling of the recorded finding "known intron overlaps read intron j and equals read intron j+1",
but a different trigger and a different pair of lines: here the known feature overlaps NO read feature at all.
Both features have to be shorter than delta (default 6 for ONT, 12 for --matching_strategy loose), i.e.
micro-introns / micro-exons.

Part A calls the unchanged functions.  Part B runs the unchanged isoquant.py with --count_exons: three reads
are all reported as full splice matches (fsm) of transcript t1, but two of them are counted in
`exclude_counts` of t1's intron 1201-1203 in OUT.intron_counts.tsv.  Part C is the more realistic exon variant:
--matching_strategy loose (delta 12), an annotated micro-exon 1300-1308 and a read whose micro-exon was aligned at
1309-1316: the read is an fsm of the transcript, both neighbouring introns are counted as included, the exon
between them as excluded.

Exit code 1 = property violated, 0 = not violated.
"""
import os
import shutil
import subprocess
import sys
from functools import partial

HERE = os.path.dirname(os.path.abspath(__file__))
ISOQUANT = os.path.join(HERE, "isoquant.py")
sys.path.insert(0, HERE)

import pysam  # noqa: E402

from src.common import equal_ranges, overlaps_at_least, junctions_from_blocks  # noqa: E402
from src.long_read_profiles import OverlappingFeaturesProfileConstructor  # noqa: E402

SCRATCH = "/tmp/hunt3scratch_C19/f1"
DELTA = 6

violated = False

# ---------------------------------------------------------------------------------------------------
# Part A: the functions themselves
# ---------------------------------------------------------------------------------------------------
known_introns = [(1201, 1203), (1401, 1799)]
constructor = OverlappingFeaturesProfileConstructor(
    known_introns, (1000, 2000),
    comparator=partial(equal_ranges, delta=DELTA),
    absence_condition=partial(overlaps_at_least, delta=20),
    delta=DELTA)

cases = {
    "read intron left of the known one ": [(1000, 1196), (1201, 1400), (1800, 2000)],   # read intron 1197-1200
    "read intron overlaps the known one": [(1000, 1198), (1203, 1400), (1800, 2000)],   # read intron 1199-1202
    "read intron right of the known one": [(1000, 1203), (1208, 1400), (1800, 2000)],   # read intron 1204-1207
}
print("Part A: known introns %s, delta = %d" % (known_introns, DELTA))
for label, blocks in cases.items():
    read_introns = junctions_from_blocks(blocks)
    profile = constructor.construct_intron_profile(blocks).gene_profile
    expected = [1 if any(equal_ranges(r, k, DELTA) for r in read_introns) else None for k in known_introns]
    line = "  %s read introns %s -> gene profile %s" % (label, read_introns, profile)
    for i, k in enumerate(known_introns):
        if expected[i] == 1 and profile[i] != 1:
            violated = True
            line += "   <-- %s equals read intron %s within delta, marked %d" % \
                    (str(k), str([r for r in read_introns if equal_ranges(r, k, DELTA)][0]), profile[i])
    print(line)

# the same with the exon profile (--count_exons): micro-exon 1300-1303 against read micro-exon 1304-1308
known_exons = [(1000, 1200), (1300, 1303), (1800, 2000)]
exon_constructor = OverlappingFeaturesProfileConstructor(
    known_exons, (1000, 2000), comparator=partial(equal_ranges, delta=DELTA), delta=DELTA)
blocks = [(1000, 1200), (1304, 1308), (1800, 2000)]
profile = exon_constructor.construct_exon_profile(blocks).gene_profile
print("  exon profile: known exons %s, read exons %s -> %s" % (known_exons, blocks, profile))
if equal_ranges(blocks[1], known_exons[1], DELTA) and profile[1] != 1:
    violated = True
    print("   <-- %s equals read exon %s within delta, marked %d" % (known_exons[1], blocks[1], profile[1]))

# ---------------------------------------------------------------------------------------------------
# Part B: the whole program
# ---------------------------------------------------------------------------------------------------
shutil.rmtree(SCRATCH, ignore_errors=True)
os.makedirs(os.path.join(SCRATCH, "home"))

import random  # noqa: E402
rng = random.Random(7)
genome = "".join(rng.choice("ACGT") for _ in range(4000))
fasta = os.path.join(SCRATCH, "genome.fa")
with open(fasta, "w") as f:
    f.write(">chr1\n")
    for i in range(0, len(genome), 60):
        f.write(genome[i:i + 60] + "\n")

t1 = [(1000, 1200), (1204, 1400), (1800, 2000)]     # intron 1201-1203 (3 bp) and intron 1401-1799
gtf = os.path.join(SCRATCH, "annot.gtf")
with open(gtf, "w") as f:
    f.write('chr1\tsrc\tgene\t1000\t2000\t.\t+\t.\tgene_id "g1";\n')
    f.write('chr1\tsrc\ttranscript\t1000\t2000\t.\t+\t.\tgene_id "g1"; transcript_id "t1";\n')
    for s, e in t1:
        f.write('chr1\tsrc\texon\t%d\t%d\t.\t+\t.\tgene_id "g1"; transcript_id "t1";\n' % (s, e))


def cigar(blocks):
    c = ""
    for i, (s, e) in enumerate(blocks):
        if i:
            c += "%dN" % (s - blocks[i - 1][1] - 1)
        c += "%dM" % (e - s + 1)
    return c


reads = {"left": cases["read intron left of the known one "],
         "ovl": cases["read intron overlaps the known one"],
         "right": cases["read intron right of the known one"]}
unsorted_bam = os.path.join(SCRATCH, "u.bam")
bam = os.path.join(SCRATCH, "reads.bam")
header = {"HD": {"VN": "1.0", "SO": "coordinate"}, "SQ": [{"SN": "chr1", "LN": len(genome)}]}
with pysam.AlignmentFile(unsorted_bam, "wb", header=header) as out:
    for name, blocks in reads.items():
        a = pysam.AlignedSegment()
        a.query_name = name
        a.reference_id = 0
        a.reference_start = blocks[0][0] - 1
        a.cigarstring = cigar(blocks)
        a.flag = 0
        a.mapping_quality = 60
        seq = "".join(genome[s - 1:e] for s, e in blocks)
        a.query_sequence = seq
        a.query_qualities = pysam.qualitystring_to_array("I" * len(seq))
        out.write(a)
pysam.sort("-o", bam, unsorted_bam)
pysam.index(bam)

outdir = os.path.join(SCRATCH, "out")
env = dict(os.environ)
env["HOME"] = os.path.join(SCRATCH, "home")
cmd = ["/venv/bin/python", ISOQUANT, "--reference", fasta, "--genedb", gtf, "--complete_genedb", "--bam", bam,
       "--data_type", "nanopore", "-o", outdir, "--threads", "1", "--no_gzip", "--count_exons"]
p = subprocess.run(cmd, env=env, capture_output=True, text=True)
if p.returncode != 0:
    print("isoquant.py failed:\n" + p.stdout[-2000:] + p.stderr[-2000:])
    sys.exit(2)

print("\nPart B: isoquant.py --count_exons, annotation t1 = %s" % t1)
fsm_reads = []
for line in open(os.path.join(outdir, "OUT", "OUT.read_assignments.tsv")):
    if line.startswith("#"):
        continue
    v = line.rstrip("\n").split("\t")
    print("  read %-6s isoform %s  %s  %s  exons %s" % (v[0], v[3], v[5], v[6].split(",")[0], v[7]))
    if v[3] == "t1" and v[6].startswith("fsm"):
        fsm_reads.append(v[0])

include = exclude = None
for line in open(os.path.join(outdir, "OUT", "OUT.intron_counts.tsv")):
    if line.startswith("#"):
        continue
    v = line.rstrip("\n").split("\t")
    print("  intron %s-%s include_counts %s exclude_counts %s" % (v[1], v[2], v[7], v[8]))
    if (v[1], v[2]) == ("1201", "1203"):
        include, exclude = int(v[7]), int(v[8])

if len(fsm_reads) == 3 and (include != 3 or exclude != 0):
    violated = True
    print("  <-- all 3 reads are full splice matches of t1 (each has an intron equal to 1201-1203 within delta = 6),\n"
          "      but intron 1201-1203 is counted as included by %s and EXCLUDED by %s reads" % (include, exclude))

# ---------------------------------------------------------------------------------------------------
# Part C: the exon variant with --matching_strategy loose (delta 12): annotated micro-exon 1300-1308,
# the aligner put the read's micro-exon at 1309-1316
# ---------------------------------------------------------------------------------------------------
t2 = [(1000, 1200), (1300, 1308), (1800, 2000)]
gtf2 = os.path.join(SCRATCH, "annot2.gtf")
with open(gtf2, "w") as f:
    f.write('chr1\tsrc\tgene\t1000\t2000\t.\t+\t.\tgene_id "g2";\n')
    f.write('chr1\tsrc\ttranscript\t1000\t2000\t.\t+\t.\tgene_id "g2"; transcript_id "t2";\n')
    for s, e in t2:
        f.write('chr1\tsrc\texon\t%d\t%d\t.\t+\t.\tgene_id "g2"; transcript_id "t2";\n' % (s, e))
shifted = [(1000, 1200), (1309, 1316), (1800, 2000)]
bam2 = os.path.join(SCRATCH, "reads2.bam")
with pysam.AlignmentFile(unsorted_bam, "wb", header=header) as out:
    a = pysam.AlignedSegment()
    a.query_name = "shifted"
    a.reference_id = 0
    a.reference_start = shifted[0][0] - 1
    a.cigarstring = cigar(shifted)
    a.flag = 0
    a.mapping_quality = 60
    seq = "".join(genome[s - 1:e] for s, e in shifted)
    a.query_sequence = seq
    a.query_qualities = pysam.qualitystring_to_array("I" * len(seq))
    out.write(a)
pysam.sort("-o", bam2, unsorted_bam)
pysam.index(bam2)
outdir2 = os.path.join(SCRATCH, "out2")
cmd = ["/venv/bin/python", ISOQUANT, "--reference", fasta, "--genedb", gtf2, "--complete_genedb", "--bam", bam2,
       "--data_type", "nanopore", "-o", outdir2, "--threads", "1", "--no_gzip", "--count_exons",
       "--matching_strategy", "loose"]
p = subprocess.run(cmd, env=env, capture_output=True, text=True)
if p.returncode != 0:
    print("isoquant.py failed:\n" + p.stdout[-2000:] + p.stderr[-2000:])
    sys.exit(2)
print("\nPart C: --matching_strategy loose (delta 12), annotation t2 = %s, read exons %s" % (t2, shifted))
is_fsm = False
for line in open(os.path.join(outdir2, "OUT", "OUT.read_assignments.tsv")):
    if not line.startswith("#"):
        v = line.rstrip("\n").split("\t")
        print("  read %s isoform %s  %s  %s" % (v[0], v[3], v[5], v[6].split(",")[0]))
        is_fsm = v[3] == "t2" and v[6].startswith("fsm")
counts = {}
for kind in ("intron", "exon"):
    for line in open(os.path.join(outdir2, "OUT", "OUT.%s_counts.tsv" % kind)):
        if not line.startswith("#"):
            v = line.rstrip("\n").split("\t")
            counts[(int(v[1]), int(v[2]))] = (int(v[7]), int(v[8]))
            print("  %-6s %s-%s include_counts %s exclude_counts %s" % (kind, v[1], v[2], v[7], v[8]))
if is_fsm and equal_ranges(shifted[1], t2[1], 12) and counts.get(t2[1], (0, 0)) != (1, 0):
    violated = True
    print("  <-- the read is a full splice match of t2, both introns around the micro-exon are counted as included,\n"
          "      read exon %s equals %s within delta = 12, yet the exon is counted as (include, exclude) = %s"
          % (shifted[1], t2[1], counts.get(t2[1])))

shutil.rmtree(SCRATCH, ignore_errors=True)
print("\nPROPERTY VIOLATED" if violated else "\nproperty holds")
sys.exit(1 if violated else 0)
