#!/venv/bin/python
"""
C19 finding 1: common.overlaps_at_least / overlaps_at_least_when_overlap are not a function of the
underlying position sets: when range1 lies inside range2 and both END at the same coordinate the
result is False, while the mirror image (both START at the same coordinate) and the strictly-inside
case return True.  The result is therefore neither symmetric in its arguments, nor mirror invariant,
nor monotone in the size of the overlap.

Part A calls the primitives directly (exhaustive over a small universe).
Part B runs unchanged IsoQuant on a tiny data set and shows that the defect changes the event reported
for a read (intron_alternation_novel instead of alt_acceptor_site_novel), although a read whose last
exon is 1 bp SHORTER gets alt_acceptor_site_novel and the mirror-image read gets alt_donor_site_novel.

exit 1 = property violated, exit 0 = fine
"""
import os
import random
import shutil
import subprocess
import sys

REPO = os.path.dirname(os.path.abspath(__file__))
sys.path.insert(0, REPO)
from src.common import overlaps_at_least, overlaps_at_least_when_overlap, intersection_len, contains

problems = []

# ---------------------------------------------------------------- part A: primitives
U = 9
ivs = [(a, b) for a in range(1, U + 1) for b in range(a, U + 1)]


def mirror(r):
    return (U + 1 - r[1], U + 1 - r[0])


n_swap = n_mirror = n_mono = 0
example = None
for r1 in ivs:
    for r2 in ivs:
        for d in range(0, 7):
            g = overlaps_at_least(r1, r2, d)
            if g != overlaps_at_least(r2, r1, d):
                n_swap += 1
            if g != overlaps_at_least(mirror(r1), mirror(r2), d):
                n_mirror += 1
                if example is None:
                    example = (r1, r2, d, g, mirror(r1), mirror(r2), overlaps_at_least(mirror(r1), mirror(r2), d))
            if intersection_len(r1, r2) > 0 and g != overlaps_at_least_when_overlap(r1, r2, d):
                problems.append("overlaps_at_least and overlaps_at_least_when_overlap disagree on %s %s %d" % (r1, r2, d))
            # monotonicity: shrinking range1 by one base at its left end while it still ends with range2
            # can not turn False into True for a set-defined predicate ... and the other way round:
            # extending range1 (still inside range2) by one base to the right can not turn True into False
            if r1[1] < r2[1] and contains(r2, r1):
                r1_longer = (r1[0], r1[1] + 1)
                if g and not overlaps_at_least(r1_longer, r2, d):
                    n_mono += 1

if n_swap:
    problems.append("overlaps_at_least(a,b,d) != overlaps_at_least(b,a,d) for %d (a,b,d) triples" % n_swap)
if n_mirror:
    problems.append("overlaps_at_least is not mirror invariant for %d triples, e.g. %s,%s,d=%d -> %s but mirrored %s,%s -> %s"
                    % ((n_mirror,) + example))
if n_mono:
    problems.append("overlaps_at_least is not monotone: %d cases where a LONGER range1 (still inside range2) flips True->False" % n_mono)

# a realistic instance (numbers used by junction_comparator: min_overlap = 10)
iso_exon = (2000, 2100)
vals = [(r, overlaps_at_least(r, iso_exon, 10)) for r in [(2093, 2099), (2093, 2100), (2000, 2007)]]
print("overlaps_at_least(read_exon, (2000,2100), 10):", vals)
if vals[0][1] and not vals[1][1]:
    problems.append("7-bp exon (2093,2099) inside (2000,2100) 'overlaps at least 10' but the 8-bp exon (2093,2100) does not; "
                    "mirror image (2000,2007) gives %s" % vals[2][1])

# ---------------------------------------------------------------- part B: end to end
import pysam

WD = "/tmp/huntscratch_C19/hunt1_%d" % os.getpid()


def build_and_run():
    os.makedirs(os.path.join(WD, "home"))
    rnd = random.Random(7)
    chrlen = 7000
    seq = [rnd.choice("ACGT") for _ in range(chrlen)]
    transcripts = [("gA", "tA", [(1000, 1100), (2000, 2100)]),
                   ("gB", "tB", [(4000, 4100), (5000, 5100)])]
    reads = [("readA_last_exon_2093_2100", [(1020, 1100), (2093, 2100)]),   # contained, shares RIGHT end, 8 bp
             ("readA_last_exon_2093_2099", [(1020, 1100), (2093, 2099)]),   # contained, 7 bp
             ("readB_first_exon_4000_4007", [(4000, 4007), (5000, 5080)])]  # mirror of the first: shares LEFT end, 8 bp
    introns = set()
    for _, _, ex in transcripts:
        introns.update((ex[i][1] + 1, ex[i + 1][0] - 1) for i in range(len(ex) - 1))
    for _, ex in reads:
        introns.update((ex[i][1] + 1, ex[i + 1][0] - 1) for i in range(len(ex) - 1))
    for a, b in introns:
        seq[a - 1:a + 1] = "GT"
        seq[b - 2:b] = "AG"
    seq = "".join(seq)
    with open(os.path.join(WD, "genome.fa"), "w") as f:
        f.write(">chr1\n")
        for i in range(0, len(seq), 60):
            f.write(seq[i:i + 60] + "\n")
    with open(os.path.join(WD, "annot.gtf"), "w") as f:
        for g, t, ex in transcripts:
            f.write('chr1\ttest\tgene\t%d\t%d\t.\t+\t.\tgene_id "%s";\n' % (ex[0][0], ex[-1][1], g))
            f.write('chr1\ttest\ttranscript\t%d\t%d\t.\t+\t.\tgene_id "%s"; transcript_id "%s";\n' % (ex[0][0], ex[-1][1], g, t))
            for a, b in ex:
                f.write('chr1\ttest\texon\t%d\t%d\t.\t+\t.\tgene_id "%s"; transcript_id "%s";\n' % (a, b, g, t))
    header = {'HD': {'VN': '1.0', 'SO': 'coordinate'}, 'SQ': [{'SN': 'chr1', 'LN': chrlen}]}
    recs = []
    for name, ex in reads:
        a = pysam.AlignedSegment()
        a.query_name = name
        cig = []
        q = ""
        for i, (x, y) in enumerate(ex):
            if i > 0:
                cig.append((3, x - ex[i - 1][1] - 1))
            cig.append((0, y - x + 1))
            q += seq[x - 1:y]
        a.query_sequence = q
        a.flag = 0
        a.reference_id = 0
        a.reference_start = ex[0][0] - 1
        a.mapping_quality = 60
        a.cigar = cig
        a.query_qualities = pysam.qualitystring_to_array("I" * len(q))
        recs.append(a)
    recs.sort(key=lambda r: r.reference_start)
    bam = os.path.join(WD, "reads.bam")
    with pysam.AlignmentFile(bam, "wb", header=header) as f:
        for a in recs:
            f.write(a)
    pysam.index(bam)
    env = dict(os.environ)
    env["HOME"] = os.path.join(WD, "home")
    cmd = ["/venv/bin/python", os.path.join(REPO, "isoquant.py"), "--reference", os.path.join(WD, "genome.fa"),
           "--genedb", os.path.join(WD, "annot.gtf"), "--complete_genedb", "--bam", bam,
           "--data_type", "nanopore", "-o", os.path.join(WD, "out"), "--threads", "1", "--no_gzip"]
    p = subprocess.run(cmd, env=env, capture_output=True, text=True)
    if p.returncode != 0:
        print(p.stdout[-2000:], p.stderr[-2000:])
        raise RuntimeError("IsoQuant failed")
    events = {}
    with open(os.path.join(WD, "out", "OUT", "OUT.read_assignments.tsv")) as f:
        for line in f:
            if line.startswith("#"):
                continue
            p = line.rstrip("\n").split("\t")
            events[p[0]] = p[6]
    return events


try:
    events = build_and_run()
finally:
    shutil.rmtree(WD, ignore_errors=True)
    try:
        os.rmdir("/tmp/huntscratch_C19")
    except OSError:
        pass

for k in sorted(events):
    print("end-to-end:", k, "->", events[k])
e_full = events.get("readA_last_exon_2093_2100", "")
e_short = events.get("readA_last_exon_2093_2099", "")
e_mirror = events.get("readB_first_exon_4000_4007", "")
if "alt_acceptor_site" in e_short and "alt_donor_site" in e_mirror and "alt_acceptor_site" not in e_full:
    problems.append("end-to-end: read whose 8-bp last exon (2093,2100) lies inside isoform exon (2000,2100) gets '%s', "
                    "while the read with the 7-bp exon (2093,2099) gets '%s' and the mirror-image read gets '%s'"
                    % (e_full.split(",")[0], e_short.split(",")[0], e_mirror.split(",")[0]))

if problems:
    print("PROPERTY C19 VIOLATED (overlaps_at_least):")
    for p in problems:
        print(" -", p)
    sys.exit(1)
print("ok")
sys.exit(0)
