#!/usr/bin/env python3
# Property C19, second pass, finding 2 (needs a read exon shorter than delta; low practical weight).
#
# OverlappingFeaturesProfileConstructor.construct_profile_for_features (src/long_read_profiles.py) walks the
# sorted read introns and the sorted known introns with two indices that only move forward.  A known intron
# that overlaps read intron j without matching it is skipped for good ("elif overlaps(...): gene_pos += 1"),
# so it is never compared with read intron j+1.  If the read exon between the two read introns is shorter
# than delta, the known intron can overlap read intron j AND equal read intron j+1 within delta; it is then
# reported absent (-1) although a read feature matches it within delta.  The mirror image of the same input
# is handled correctly (the known intron is compared with the first of the two read introns and matches).
# The same loop is used for the exon profile and in match_genomic_features (splice site correction).
#
# exit 1 = property violated, exit 0 = fine.

import os
import sys
from types import SimpleNamespace

sys.path.insert(0, os.path.dirname(os.path.abspath(__file__)))

from src.gene_info import GeneInfo, TranscriptModel, TranscriptModelType
from src.long_read_profiles import CombinedProfileConstructor
from src.polya_finder import PolyAInfo
from src.common import equal_ranges, junctions_from_blocks

PARAMS = SimpleNamespace(delta=6, minimal_exon_overlap=5, minimal_intron_absence_overlap=20, count_exons=False)
NO_POLYA = PolyAInfo(-1, -1, -1, -1)
L = 450


def mirror(blocks):
    return sorted((L + 1 - e, L + 1 - s) for s, e in blocks)


def intron_profile(isoform, read_exons):
    model = TranscriptModel("chr1", "+", "T", "G", isoform, TranscriptModelType.known)
    gene_info = GeneInfo.from_models([model], PARAMS.delta)
    profiles = CombinedProfileConstructor(gene_info, PARAMS).construct_profiles(read_exons, NO_POLYA, [])
    return (gene_info.intron_profiles.features, profiles.read_intron_profile.gene_profile,
            profiles.read_intron_profile.read_profile)


def main():
    isoform = [(50, 198), (301, 400)]                 # known intron 199-300
    read = [(50, 99), (201, 204), (301, 400)]         # read introns 100-200 and 205-300, 4-base exon between
    failures = []
    results = []
    for name, iso, rd in (("orientation 1", isoform, read), ("mirror image", mirror(isoform), mirror(read))):
        features, gene_profile, read_profile = intron_profile(iso, rd)
        read_introns = junctions_from_blocks(rd)
        print("%s: known introns %s, read introns %s -> gene profile %s, read profile %s"
              % (name, features, read_introns, gene_profile, read_profile))
        for k, v in zip(features, gene_profile):
            matched = [r for r in read_introns if equal_ranges(r, k, PARAMS.delta)]
            if matched and v != 1:
                failures.append("%s: known intron %s equals read intron %s within delta=%d but is marked %d"
                                % (name, str(k), str(matched[0]), PARAMS.delta, v))
        results.append(gene_profile)
    if results[0] != results[1][::-1]:
        failures.append("an alignment and its mirror image get different intron profiles: %s vs %s"
                        % (results[0], results[1]))
    if failures:
        print("\nPROPERTY C19 VIOLATED:")
        for f in failures:
            print(" - " + f)
        sys.exit(1)
    print("OK")
    sys.exit(0)


if __name__ == "__main__":
    main()
