#!/usr/bin/env python3
"""
hunt3 / C05 / finding 3 (minor, contrived input)

AlignmentCollector.split_coverage_regions (src/alignment_processor.py:506) starts EVERY sub-region - also the first
one - at "bin * 256 + 1":

    split_regions.append((max(current_start * COVERAGE_BIN + 1, genomic_region[0]), ...))

The "+ 1" is right for the 2nd, 3rd ... sub-region (the previous one ends at bin * 256), but for the first sub-region
it cuts off the first base of the cluster whenever the cluster starts exactly at a multiple of 256 (0-based).
An alignment that covers only that base belongs to no sub-region and vanishes from all outputs; the same alignment
one base further to the right is reported.  Only an alignment with a reference span of 1 bp (here 30S1M30S) can be hit,
which no real aligner is likely to produce - but it is a valid record, it passes all filters, it is reported when
the cluster is not split, and the statement says "no read is dropped because of how a chromosome is cut".

exit 1 = property violated, 0 = fine
"""
import os
import random
import shutil
import subprocess
import sys

import pysam

HERE = os.path.dirname(os.path.abspath(__file__))
ISOQUANT = os.path.join(HERE, "isoquant.py")
PYTHON = "/venv/bin/python" if os.path.exists("/venv/bin/python") else sys.executable
WD = "/tmp/hunt3scratch_C05/f3"


def make_read(header, name, start0, cigar, seq):
    a = pysam.AlignedSegment(header)
    a.query_name = name
    a.flag = 0
    a.reference_id = 0
    a.reference_start = start0
    a.cigarstring = cigar
    qlen = sum(l for op, l in a.cigartuples if op in (0, 1, 4))
    a.query_sequence = (seq[start0:start0 + qlen] + "A" * qlen)[:qlen]
    a.query_qualities = pysam.qualitystring_to_array("I" * qlen)
    a.mapping_quality = 60
    return a


def run_case(seq, start0, long_cluster, opts):
    tag = "%d_%s_%s" % (start0, "long" if long_cluster else "short", "hm" if opts else "std")
    bam = os.path.join(WD, tag + ".bam")
    header = pysam.AlignmentHeader.from_dict({"HD": {"VN": "1.6", "SO": "coordinate"},
                                              "SQ": [{"SN": "chr1", "LN": len(seq)}]})
    reads = [make_read(header, "one_bp", start0, "30S1M30S", seq), make_read(header, "two_bp", start0, "30S2M30S", seq)]
    pos, i = start0, 0
    while pos < start0 + (40000 if long_cluster else 5000):
        # a thin chain of overlapping reads: the cluster is longer than 32 kb and is cut at the first bin with coverage 1
        reads.append(make_read(header, "chain%d" % i, pos, "1000M", seq))
        pos += 900
        i += 1
    reads.sort(key=lambda r: r.reference_start)
    with pysam.AlignmentFile(bam, "wb", header=header) as out:
        for r in reads:
            out.write(r)
    pysam.index(bam)
    out_dir = os.path.join(WD, "out_" + tag)
    env = dict(os.environ)
    env["HOME"] = os.path.join(WD, "home")
    os.makedirs(env["HOME"], exist_ok=True)
    p = subprocess.run([PYTHON, ISOQUANT, "--reference", os.path.join(WD, "genome.fa"), "--bam", bam,
                        "--data_type", "nanopore", "-o", out_dir, "--threads", "1", "--no_gzip",
                        "--no_model_construction"] + opts,
                       env=env, stdout=subprocess.PIPE, stderr=subprocess.STDOUT, text=True)
    if p.returncode != 0:
        print(p.stdout[-3000:])
        raise SystemExit("IsoQuant failed unexpectedly")
    names = set()
    for l in open(os.path.join(out_dir, "OUT", "OUT.corrected_reads.bed")):
        if not l.startswith("#"):
            names.add(l.split("\t")[3])
    return len(reads), names


def main():
    shutil.rmtree(WD, ignore_errors=True)
    os.makedirs(WD)
    rnd = random.Random(7)
    seq = "".join(rnd.choice("ACGT") for _ in range(60000))
    with open(os.path.join(WD, "genome.fa"), "w") as f:
        f.write(">chr1\n")
        for i in range(0, len(seq), 60):
            f.write(seq[i:i + 60] + "\n")
    violated = False
    for opts in ([], ["--high_memory"]):
        for start0, long_cluster in ((2560, False), (2560, True), (2561, True)):
            n, names = run_case(seq, start0, long_cluster, opts)
            missing = sorted(x for x in ("one_bp", "two_bp") if x not in names)
            print("%-13s cluster starts at 0-based %d (%s a multiple of 256), %s: %d alignments in, %d reads reported, "
                  "missing: %s" % ("--high_memory" if opts else "default", start0, "is" if start0 % 256 == 0 else "not",
                                   "43 kb, split in two regions" if long_cluster else "7 kb, not split", n, len(names),
                                   missing or "none"))
            if len(names) != n:
                violated = True
    if violated:
        print("VIOLATION: the 1-bp alignment at the first base of a split cluster is in no sub-region and is dropped")
    shutil.rmtree(WD, ignore_errors=True)
    return 1 if violated else 0


if __name__ == "__main__":
    sys.exit(main())
