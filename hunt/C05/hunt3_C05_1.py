#!/usr/bin/env python3
"""
hunt3 / C05 / finding 1

Whether a primary alignment with a low (but non-zero) MAPQ that lies outside all genes is reported depends on the
processing region it happens to fall into - and therefore on the coverage depth of a locus 37 kb away.

  AlignmentCollector.process_genic      (src/alignment_processor.py:388-392) drops every alignment that is not
                                        unique/ambiguous when MAPQ < --inconsistent_mapq_cutoff (default 5):
                                        also "noninformative"/"intergenic" ones, which are not "inconsistent"
  AlignmentCollector.process_intergenic (src/alignment_processor.py:326-328) is used for regions without genes, also when
                                        an annotation is given; it only drops alignments with <= 2 exons and
                                        MAPQ < --simple_alignments_mapq_cutoff (default 1, documented as
                                        "works only in annotation-free mode")

Read X: primary, mapped, MAPQ 3, three exons, no gene within 37 kb.  A chain of overlapping reads links it to gene G1.

  shallow.bam : 5 reads on G1      -> the cluster (42 kb) has no coverage valley, it is ONE region that contains G1
                                      -> X goes through process_genic -> dropped
  deep.bam    : same + 1100 reads  -> the valley threshold rises to 1% of 1105, the cluster is cut at 32 kb,
                                      X lands in a region without genes -> process_intergenic -> reported

Part 2 (same lines, no splitting needed): reads that pass all documented filters but are not reported:
  Y  MAPQ 3, one exon, inside the intron of G1 (assignment type "noninformative", i.e. not "inconsistent")
  Z  MAPQ 0, one exon, far away from any gene, annotation given (--simple_alignments_mapq_cutoff is documented to
     work only in annotation-free mode, --inconsistent_mapq_cutoff only for inconsistent alignments)

exit 1 = property violated, 0 = fine
"""
import os
import random
import shutil
import subprocess
import sys

import pysam

HERE = os.path.dirname(os.path.abspath(__file__))
ISOQUANT = os.path.join(HERE, "isoquant.py")
PYTHON = "/venv/bin/python" if os.path.exists("/venv/bin/python") else sys.executable
WD = "/tmp/hunt3scratch_C05/f1"

X_EXONS = [(40000, 40200), (40400, 40600), (40800, 41000)]
G1_EXONS = [(1000, 1500), (2500, 3000)]


def make_read(header, name, exons, seq, mapq=60):
    a = pysam.AlignedSegment(header)
    a.query_name = name
    a.flag = 0
    a.reference_id = 0
    a.reference_start = exons[0][0] - 1
    cigar, bases = [], ""
    for i, (s, e) in enumerate(exons):
        if i:
            cigar.append((3, s - exons[i - 1][1] - 1))
        cigar.append((0, e - s + 1))
        bases += seq[s - 1:e]
    a.cigartuples = cigar
    a.query_sequence = bases
    a.query_qualities = pysam.qualitystring_to_array("I" * len(bases))
    a.mapping_quality = mapq
    return a


def write_bam(path, seq, extra_on_gene, with_yz=False):
    header = pysam.AlignmentHeader.from_dict({"HD": {"VN": "1.6", "SO": "coordinate"},
                                              "SQ": [{"SN": "chr1", "LN": len(seq)}]})
    reads = [make_read(header, "g%d" % i, G1_EXONS, seq) for i in range(5 + extra_on_gene)]
    pos, i = 2900, 0
    while pos < 42000:
        # chain of overlapping unspliced reads (coverage 3-4) between the gene and X
        reads.append(make_read(header, "chain%d" % i, [(pos, pos + 999)], seq))
        pos += 300
        i += 1
    reads.append(make_read(header, "X", X_EXONS, seq, mapq=3))
    if with_yz:
        reads.append(make_read(header, "Y", [(1800, 2200)], seq, mapq=3))
        reads.append(make_read(header, "Z", [(60000, 60500)], seq, mapq=0))
    reads.sort(key=lambda r: r.reference_start)
    with pysam.AlignmentFile(path, "wb", header=header) as out:
        for r in reads:
            out.write(r)
    pysam.index(path)
    return len(reads)


def run_isoquant(bam, out, extra):
    env = dict(os.environ)
    env["HOME"] = os.path.join(WD, "home")
    os.makedirs(env["HOME"], exist_ok=True)
    cmd = [PYTHON, ISOQUANT, "--reference", os.path.join(WD, "genome.fa"), "--genedb", os.path.join(WD, "annot.gtf"),
           "--complete_genedb", "--bam", bam, "--data_type", "nanopore", "-o", out, "--threads", "1", "--no_gzip",
           "--no_model_construction"] + extra
    p = subprocess.run(cmd, env=env, stdout=subprocess.PIPE, stderr=subprocess.STDOUT, text=True)
    if p.returncode != 0:
        print(p.stdout[-3000:])
        raise SystemExit("IsoQuant failed unexpectedly (exit code %d)" % p.returncode)
    bed = set()
    for l in open(os.path.join(out, "OUT", "OUT.corrected_reads.bed")):
        if not l.startswith("#"):
            bed.add(l.split("\t")[3])
    tsv = {}
    for l in open(os.path.join(out, "OUT", "OUT.read_assignments.tsv")):
        if not l.startswith("#"):
            v = l.rstrip("\n").split("\t")
            tsv[v[0]] = v[5]
    return bed, tsv


def main():
    shutil.rmtree(WD, ignore_errors=True)
    os.makedirs(WD)
    rnd = random.Random(5)
    seq = "".join(rnd.choice("ACGT") for _ in range(80000))
    with open(os.path.join(WD, "genome.fa"), "w") as f:
        f.write(">chr1\n")
        for i in range(0, len(seq), 60):
            f.write(seq[i:i + 60] + "\n")
    with open(os.path.join(WD, "annot.gtf"), "w") as f:
        f.write('chr1\tt\tgene\t1000\t3000\t.\t+\t.\tgene_id "G1";\n')
        f.write('chr1\tt\ttranscript\t1000\t3000\t.\t+\t.\tgene_id "G1"; transcript_id "T1";\n')
        for s, e in G1_EXONS:
            f.write('chr1\tt\texon\t%d\t%d\t.\t+\t.\tgene_id "G1"; transcript_id "T1";\n' % (s, e))

    violated = False
    results = {}
    for name, extra_reads in (("shallow", 0), ("deep", 1100)):
        bam = os.path.join(WD, name + ".bam")
        n = write_bam(bam, seq, extra_reads)
        for mode, opts in (("default", []), ("high_memory", ["--high_memory"])):
            bed, tsv = run_isoquant(bam, os.path.join(WD, "out_%s_%s" % (name, mode)), opts)
            results[(name, mode)] = ("X" in bed, "X" in tsv)
            print("%-8s %-11s %4d primary alignments in, %4d reads in corrected_reads.bed; X (MAPQ 3, intergenic) "
                  "in bed: %s, in read_assignments.tsv: %s"
                  % (name, mode, n, len(bed), "X" in bed, tsv.get("X", "absent")))
    print()
    for mode in ("default", "high_memory"):
        if results[("shallow", mode)] != results[("deep", mode)]:
            violated = True
            print("VIOLATION (%s): the same alignment X is %s with 5 reads on a gene 37 kb away and %s with 1105 reads "
                  "there: it is dropped or kept depending on how the cluster is cut into processing regions"
                  % (mode, "reported" if results[("shallow", mode)][0] else "dropped",
                     "reported" if results[("deep", mode)][0] else "dropped"))
        for name in ("shallow", "deep"):
            if not results[(name, mode)][0] or not results[(name, mode)][1]:
                violated = True
                print("VIOLATION (%s, %s): X is a mapped primary alignment, MAPQ 3 >= --simple_alignments_mapq_cutoff, "
                      "not an inconsistent one, yet it is not reported" % (name, mode))

    # part 2
    bam = os.path.join(WD, "yz.bam")
    write_bam(bam, seq, 0, with_yz=True)
    bed, tsv = run_isoquant(bam, os.path.join(WD, "out_yz"), [])
    print()
    for read, what in (("Y", "MAPQ 3, unspliced, inside the intron of G1 (noninformative, not inconsistent)"),
                       ("Z", "MAPQ 0, unspliced, 17 kb away from every other read and from every gene, annotation given")):
        ok = read in bed and read in tsv
        print("%s (%s): in bed %s, in tsv %s" % (read, what, read in bed, read in tsv))
        if not ok:
            violated = True
            print("VIOLATION: %s passes every documented filter for a run with an annotation but is not reported" % read)

    shutil.rmtree(WD, ignore_errors=True)
    return 1 if violated else 0


if __name__ == "__main__":
    sys.exit(main())
