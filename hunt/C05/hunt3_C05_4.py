#!/usr/bin/env python3
"""
hunt3 / C05 / finding 4 (borderline: residual of the repaired "unmapped record that carries a position" finding)

A record that is flagged as mapped (flag 0, RNAME/POS set, MAPQ 60) but whose CIGAR is "*" ("unavailable", allowed by
the SAM specification, section 1.4) has reference_end == None in pysam.  BAMOnlineMerger._aligned_only
(src/alignment_processor.py:70-75) only filters records with the unmapped flag, so the record reaches
AbstractAlignmentStorage.alignment_is_not_adjacent / add_alignment (src/alignment_processor.py:106-126), which compute
"alignment.reference_end - 1": TypeError, the whole run dies and none of the other reads is reported.

exit 1 = property violated (crash / reads missing), 0 = fine
"""
import os
import random
import shutil
import subprocess
import sys

import pysam

HERE = os.path.dirname(os.path.abspath(__file__))
ISOQUANT = os.path.join(HERE, "isoquant.py")
PYTHON = "/venv/bin/python" if os.path.exists("/venv/bin/python") else sys.executable
WD = "/tmp/hunt3scratch_C05/f4"


def main():
    shutil.rmtree(WD, ignore_errors=True)
    os.makedirs(WD)
    rnd = random.Random(7)
    seq = "".join(rnd.choice("ACGT") for _ in range(20000))
    with open(os.path.join(WD, "genome.fa"), "w") as f:
        f.write(">chr1\n")
        for i in range(0, len(seq), 60):
            f.write(seq[i:i + 60] + "\n")
    header = pysam.AlignmentHeader.from_dict({"HD": {"VN": "1.6", "SO": "coordinate"},
                                              "SQ": [{"SN": "chr1", "LN": len(seq)}]})
    bam = os.path.join(WD, "reads.bam")
    with pysam.AlignmentFile(bam, "wb", header=header) as out:
        for i in range(3):
            a = pysam.AlignedSegment(header)
            a.query_name = "spliced%d" % i
            a.flag = 0
            a.reference_id = 0
            a.reference_start = 999
            a.cigarstring = "501M999N501M"
            a.query_sequence = seq[999:1500] + seq[2499:3000]
            a.query_qualities = pysam.qualitystring_to_array("I" * 1002)
            a.mapping_quality = 60
            out.write(a)
        a = pysam.AlignedSegment(header)
        a.query_name = "no_cigar"
        a.flag = 0
        a.reference_id = 0
        a.reference_start = 5000
        a.mapping_quality = 60
        a.query_sequence = "ACGT" * 10
        a.query_qualities = pysam.qualitystring_to_array("I" * 40)
        out.write(a)
    pysam.index(bam)
    for a in pysam.AlignmentFile(bam):
        print("input record: %-9s flag %d  pos %d  CIGAR %s  reference_end %s"
              % (a.query_name, a.flag, a.reference_start + 1, a.cigarstring or "*", a.reference_end))

    env = dict(os.environ)
    env["HOME"] = os.path.join(WD, "home")
    os.makedirs(env["HOME"], exist_ok=True)
    out_dir = os.path.join(WD, "out")
    p = subprocess.run([PYTHON, ISOQUANT, "--reference", os.path.join(WD, "genome.fa"), "--bam", bam,
                        "--data_type", "nanopore", "-o", out_dir, "--threads", "1", "--no_gzip"],
                       env=env, stdout=subprocess.PIPE, stderr=subprocess.STDOUT, text=True)
    reported = set()
    bed = os.path.join(out_dir, "OUT", "OUT.corrected_reads.bed")
    if p.returncode == 0 and os.path.exists(bed):
        for l in open(bed):
            if not l.startswith("#"):
                reported.add(l.split("\t")[3])
    print("IsoQuant exit code %d, reads reported: %s" % (p.returncode, sorted(reported)))
    violated = p.returncode != 0 or not {"spliced0", "spliced1", "spliced2"} <= reported
    if violated:
        lines = [l for l in p.stdout.strip().splitlines() if l.strip()]
        print("VIOLATION: %s" % (lines[-1] if lines else ""))
        print("           the three ordinary primary alignments of the file are reported nowhere")
    shutil.rmtree(WD, ignore_errors=True)
    return 1 if violated else 0


if __name__ == "__main__":
    sys.exit(main())
