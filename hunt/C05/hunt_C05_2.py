#!/venv/bin/python
"""
C05 hunt, finding 2 (edge case, low severity): off-by-one at the start of the first split region.

AlignmentCollector.split_coverage_regions() builds the first sub-region as
    (max(first_bin * 256 + 1, region_start), ...)
If the read cluster starts exactly on a coverage-bin boundary (0-based start divisible by 256), the first sub-region
starts one base AFTER the cluster start. A primary alignment that covers only that single base (e.g. CIGAR 40S1M) is
then fetched for no sub-region at all and silently disappears - but only when the cluster is split (>= 32 kb);
the same alignment is reported when the cluster is not split, or when it starts one base off the bin boundary.

Input: no-gene region; one 40 kb read R starting at 0-based S, one read P = "40S1M" at S.
  case split/boundary   : S = 25600 (S % 256 == 0), R is 40 kb  -> P lost            (violation)
  case split/off-by-one : S = 25601,               R is 40 kb  -> P reported        (control)
  case unsplit/boundary : S = 25600,               R is 20 kb  -> P reported        (control)
The alignment statistics in the log still count P as a primary alignment in every case.

exit 1 = property violated, exit 0 = fine.
"""
import os
import random
import re
import shutil
import subprocess
import sys

import pysam

REPO = os.path.dirname(os.path.abspath(__file__))
PY = "/venv/bin/python" if os.path.exists("/venv/bin/python") else sys.executable
SCRATCH = "/tmp/huntscratch_C05/hunt2"
L = 100000


def write_inputs(wd):
    rnd = random.Random(2)
    seq = "".join(rnd.choice("ACGT") for _ in range(L))
    with open(os.path.join(wd, "genome.fa"), "w") as f:
        f.write(">chr1\n")
        for i in range(0, L, 60):
            f.write(seq[i:i + 60] + "\n")
    with open(os.path.join(wd, "annot.gtf"), "w") as f:
        f.write('chr1\tsrc\tgene\t90000\t90500\t.\t+\t.\tgene_id "G1";\n')
        f.write('chr1\tsrc\ttranscript\t90000\t90500\t.\t+\t.\tgene_id "G1"; transcript_id "T1";\n')
        f.write('chr1\tsrc\texon\t90000\t90500\t.\t+\t.\tgene_id "G1"; transcript_id "T1"; exon_number "1";\n')


def write_bam(path, start0, long_len):
    reads = [("P", start0, "40S1M", 60), ("R", start0, "%dM" % long_len, 60)]
    header = {"HD": {"VN": "1.6", "SO": "coordinate"}, "SQ": [{"SN": "chr1", "LN": L}]}
    with pysam.AlignmentFile(path, "wb", header=header) as out:
        for name, s0, cigar, mapq in reads:
            a = pysam.AlignedSegment(out.header)
            a.query_name = name
            a.flag = 0
            a.reference_id = 0
            a.reference_start = s0
            a.mapping_quality = mapq
            a.cigarstring = cigar
            qlen = sum(int(n) for n, op in re.findall(r"(\d+)([MIDNS])", cigar) if op in "MIS")
            a.query_sequence = ("ACGT" * (qlen // 4 + 1))[:qlen]
            a.query_qualities = pysam.qualitystring_to_array("I" * qlen)
            out.write(a)
    pysam.index(path)


def run(wd, bam, tag, extra, with_gtf):
    out = os.path.join(wd, "out_" + tag)
    home = os.path.join(wd, "home")
    os.makedirs(home, exist_ok=True)
    cmd = [PY, os.path.join(REPO, "isoquant.py"), "--reference", os.path.join(wd, "genome.fa"),
           "--bam", bam, "--data_type", "nanopore", "-o", out, "--threads", "1", "--no_gzip"] + extra
    if with_gtf:
        cmd += ["--genedb", os.path.join(wd, "annot.gtf"), "--complete_genedb"]
    p = subprocess.run(cmd, env=dict(os.environ, HOME=home), stdout=subprocess.PIPE, stderr=subprocess.STDOUT,
                       text=True)
    if p.returncode != 0:
        print(p.stdout[-3000:])
        raise SystemExit("IsoQuant failed unexpectedly")
    bed = [l.split("\t")[3] for l in open(os.path.join(out, "OUT", "OUT.corrected_reads.bed"))
           if not l.startswith("#")]
    tsv = []
    if with_gtf:
        tsv = [l.split("\t")[0] for l in open(os.path.join(out, "OUT", "OUT.read_assignments.tsv"))
               if not l.startswith("#")]
    m = re.search(r"primary: (\d+)", p.stdout)
    return bed, tsv, int(m.group(1)) if m else -1


def main():
    if os.path.exists(SCRATCH):
        shutil.rmtree(SCRATCH)
    os.makedirs(SCRATCH)
    write_inputs(SCRATCH)
    violated = False
    cases = (("split/boundary", 25600, 40000), ("split/off-by-one", 25601, 40000), ("unsplit/boundary", 25600, 20000))
    for cname, start0, long_len in cases:
        bam = os.path.join(SCRATCH, "reads_%d_%d.bam" % (start0, long_len))
        write_bam(bam, start0, long_len)
        for mode, extra in (("default", []), ("high_memory", ["--high_memory"])):
            for with_gtf in (True, False):
                tag = "%d_%d_%s_%d" % (start0, long_len, mode, with_gtf)
                bed, tsv, primary = run(SCRATCH, bam, tag, extra, with_gtf)
                ok = sorted(bed) == ["P", "R"] and (not with_gtf or sorted(set(tsv)) == ["P", "R"])
                print("%-17s %-11s annotation=%-5s: log says primary=%d; BED reads=%s%s -> %s"
                      % (cname, mode, with_gtf, primary, sorted(bed),
                         "; TSV reads=%s" % sorted(set(tsv)) if with_gtf else "", "ok" if ok else "READ LOST"))
                if not ok or primary != 2:
                    violated = True
    if violated:
        print("VIOLATION: primary alignment P (mapped, MAPQ 60, not supplementary) is counted in the alignment "
              "statistics but is missing from the outputs only when its cluster starts on a 256-bp bin boundary "
              "and is split into sub-regions")
    shutil.rmtree(SCRATCH, ignore_errors=True)
    sys.exit(1 if violated else 0)


if __name__ == "__main__":
    main()
