#!/venv/bin/python
"""
C05 hunt, finding 1: whether a primary alignment with MAPQ 1..4 that lies far outside of any gene is reported
depends on how the chromosome is cut into processing regions (i.e. on the coverage depth of an unrelated gene).

Input (identical in both runs except for the number of reads on gene G1):
  * annotation: one gene G1 at chr1:1000-3500
  * read X: 300M at chr1:50001-50300, MAPQ 3, primary, mapped  (46 kb away from G1, overlaps no gene)
  * a chain of overlapping 1 kb reads (MAPQ 60) from G1 to 60 kb, coverage 2-3 everywhere
  * `depth` spliced reads on G1 (MAPQ 60): 5 in run A, 400 in run B

Run A: max coverage is small -> no bin is a "coverage valley" -> X is processed in the region that contains G1
       -> it becomes `noninformative` -> dropped by the MAPQ<5 check in process_genic.
Run B: deep G1 coverage makes the chain a valley (<= 1% of max) -> region is cut at 32 kb -> X is processed in a
       gene-free region -> process_intergenic -> MAPQ 3 >= simple_alignments_mapq_cutoff(1) -> reported.

X is neither unmapped, supplementary nor "inconsistent"; docs/cmd.md says --inconsistent_mapq_cutoff filters
*inconsistent* alignments and --simple_alignments_mapq_cutoff works only in annotation-free mode, hence X passes
all documented filters and must be in corrected_reads.bed and read_assignments.tsv in BOTH runs.

exit 1 = property violated, exit 0 = fine.
"""
import os
import random
import re
import shutil
import subprocess
import sys

import pysam

REPO = os.path.dirname(os.path.abspath(__file__))
PY = "/venv/bin/python" if os.path.exists("/venv/bin/python") else sys.executable
SCRATCH = "/tmp/huntscratch_C05/hunt1"
L = 120000


def write_inputs(wd):
    rnd = random.Random(1)
    seq = "".join(rnd.choice("ACGT") for _ in range(L))
    with open(os.path.join(wd, "genome.fa"), "w") as f:
        f.write(">chr1\n")
        for i in range(0, L, 60):
            f.write(seq[i:i + 60] + "\n")
    with open(os.path.join(wd, "annot.gtf"), "w") as f:
        f.write('chr1\tsrc\tgene\t1000\t3500\t.\t+\t.\tgene_id "G1";\n')
        f.write('chr1\tsrc\ttranscript\t1000\t3500\t.\t+\t.\tgene_id "G1"; transcript_id "T1";\n')
        for i, (s, e) in enumerate([(1000, 1500), (2000, 2500), (3000, 3500)]):
            f.write('chr1\tsrc\texon\t%d\t%d\t.\t+\t.\tgene_id "G1"; transcript_id "T1"; exon_number "%d";\n'
                    % (s, e, i + 1))


def write_bam(path, depth):
    reads = [("g%d" % i, 999, "501M499N501M499N501M", 60) for i in range(depth)]
    s, i = 3000, 0
    while s < 60000:
        reads.append(("c%d" % i, s, "1000M", 60))
        s += 400
        i += 1
    reads.append(("X", 50000, "300M", 3))
    reads.sort(key=lambda r: r[1])
    header = {"HD": {"VN": "1.6", "SO": "coordinate"}, "SQ": [{"SN": "chr1", "LN": L}]}
    with pysam.AlignmentFile(path, "wb", header=header) as out:
        for name, start0, cigar, mapq in reads:
            a = pysam.AlignedSegment(out.header)
            a.query_name = name
            a.flag = 0
            a.reference_id = 0
            a.reference_start = start0
            a.mapping_quality = mapq
            a.cigarstring = cigar
            qlen = sum(int(n) for n, op in re.findall(r"(\d+)([MIDNS])", cigar) if op in "MIS")
            a.query_sequence = ("ACGT" * (qlen // 4 + 1))[:qlen]
            a.query_qualities = pysam.qualitystring_to_array("I" * qlen)
            out.write(a)
    pysam.index(path)
    return [r[0] for r in reads]


def run(wd, bam, tag, extra):
    out = os.path.join(wd, "out_" + tag)
    home = os.path.join(wd, "home")
    os.makedirs(home, exist_ok=True)
    cmd = [PY, os.path.join(REPO, "isoquant.py"), "--reference", os.path.join(wd, "genome.fa"),
           "--genedb", os.path.join(wd, "annot.gtf"), "--complete_genedb", "--bam", bam,
           "--data_type", "nanopore", "-o", out, "--threads", "1", "--no_gzip"] + extra
    p = subprocess.run(cmd, env=dict(os.environ, HOME=home), stdout=subprocess.PIPE, stderr=subprocess.STDOUT,
                       text=True)
    if p.returncode != 0:
        print(p.stdout[-3000:])
        raise SystemExit("IsoQuant failed unexpectedly")
    bed = [l.split("\t")[3] for l in open(os.path.join(out, "OUT", "OUT.corrected_reads.bed"))
           if not l.startswith("#")]
    tsv = [l.rstrip("\n") for l in open(os.path.join(out, "OUT", "OUT.read_assignments.tsv"))
           if not l.startswith("#")]
    return bed, tsv


def main():
    if os.path.exists(SCRATCH):
        shutil.rmtree(SCRATCH)
    os.makedirs(SCRATCH)
    write_inputs(SCRATCH)
    violated = False
    presence = {}
    for depth in (5, 400):
        bam = os.path.join(SCRATCH, "reads_%d.bam" % depth)
        names = write_bam(bam, depth)
        for mode, extra in (("default", []), ("high_memory", ["--high_memory"])):
            bed, tsv = run(SCRATCH, bam, "%d_%s" % (depth, mode), extra)
            in_bed = bed.count("X")
            x_tsv = [l for l in tsv if l.split("\t")[0] == "X"]
            presence[(depth, mode)] = (in_bed, len(x_tsv))
            print("G1 depth %3d, %-11s: input primary alignments %d, distinct reads in BED %d; "
                  "read X (MAPQ 3, intergenic): BED records %d, TSV records %d %s"
                  % (depth, mode, len(names), len(set(bed)), in_bed, len(x_tsv),
                     x_tsv[0].split("\t")[5] if x_tsv else ""))
            if in_bed != 1 or len(x_tsv) != 1:
                violated = True
    if len(set(presence.values())) > 1:
        print("VIOLATION: the same alignment X (same BAM record, same annotation) is reported or dropped depending "
              "only on the coverage depth of gene G1 46 kb away, i.e. on how the chromosome is cut into regions")
    if violated:
        print("VIOLATION: read X passes the documented filters (mapped, primary, not inconsistent, annotation given) "
              "but is missing from corrected_reads.bed / read_assignments.tsv in at least one run")
    shutil.rmtree(SCRATCH, ignore_errors=True)
    sys.exit(1 if violated else 0)


if __name__ == "__main__":
    main()
