#!/venv/bin/python
"""C05 second pass, finding 1.

A read with a primary alignment (MAPQ 60) and a secondary alignment (MAPQ 0), both "noninformative"
(no annotated gene around: annotation-free mode, or a region without genes): MultimapResolver.select_noninformative
chooses by (overlap with the processing region, region start, ...) and never looks at the primary/secondary flag.
The primary alignment, which passes every documented filter, is suspended and corrected_reads.bed reports the
secondary alignment instead.

Part B shows that the choice also depends on how the chromosome is cut into processing regions: the same
primary alignment wins when its read cluster is processed as one region and loses as soon as the cluster is
long enough to be split at a coverage valley inside the alignment (its two copies each overlap "their" region
only partly).

exit 1 = property violated, 0 = fine
"""
import os, random, shutil, subprocess, sys
import pysam

REPO = os.path.dirname(os.path.abspath(__file__))
SCR = "/tmp/hunt2scratch_C05/hunt2_C05_1"
M, N = 0, 3


def rand_seq(n, seed):
    r = random.Random(seed)
    return "".join(r.choice("ACGT") for _ in range(n))


def write_bam(path, chroms, reads):
    header = {"HD": {"VN": "1.6", "SO": "coordinate"}, "SQ": [{"SN": n, "LN": l} for n, l in chroms]}
    names = [n for n, l in chroms]
    reads = sorted(reads, key=lambda r: (names.index(r["chr"]), r["pos"]))
    with pysam.AlignmentFile(path, "wb", header=header) as out:
        for r in reads:
            a = pysam.AlignedSegment(out.header)
            a.query_name = r["name"]
            a.flag = r.get("flag", 0)
            a.reference_id = names.index(r["chr"])
            a.reference_start = r["pos"]
            a.mapping_quality = r.get("mapq", 60)
            a.cigartuples = r["cigar"]
            a.query_sequence = "C" * sum(l for op, l in r["cigar"] if op == M)
            out.write(a)
    pysam.index(path)


def run(wd, tag, fa, bam, extra=()):
    out = os.path.join(wd, "out_" + tag)
    cmd = [sys.executable, os.path.join(REPO, "isoquant.py"), "--reference", fa, "--bam", bam, "--data_type", "nanopore",
           "-o", out, "--threads", "1", "--no_gzip", "--debug"] + list(extra)
    p = subprocess.run(cmd, stdout=subprocess.PIPE, stderr=subprocess.STDOUT, text=True,
                       env=dict(os.environ, HOME=os.path.join(wd, "home")))
    if p.returncode != 0:
        print(p.stdout[-2000:])
        raise SystemExit("IsoQuant failed unexpectedly")
    bed = {}
    for l in open(os.path.join(out, "OUT", "OUT.corrected_reads.bed")):
        if l.startswith("#"):
            continue
        v = l.split("\t")
        bed.setdefault(v[3], []).append((v[0], int(v[1]), int(v[2])))
    regions = [l.split("Processing region ")[1].strip() for l in open(os.path.join(out, "isoquant.log"))
               if "Processing region " in l]
    return bed, regions


def main():
    shutil.rmtree(SCR, ignore_errors=True)
    os.makedirs(os.path.join(SCR, "home"))
    chroms = [("chr1", 80000), ("chr2", 60000)]
    fa = os.path.join(SCR, "g.fa")
    with open(fa, "w") as f:
        for i, (n, l) in enumerate(chroms):
            f.write(">%s\n%s\n" % (n, rand_seq(l, i)))
    problems = []

    # ---- part A: plain case, no splitting involved -----------------------------------------------------------
    three_exons = [(M, 200), (N, 300), (M, 200), (N, 300), (M, 200)]     # 1200 bp on the reference
    reads = [dict(name="readA", chr="chr1", pos=9000, cigar=three_exons, mapq=60),              # primary
             dict(name="readA", chr="chr1", pos=3000, cigar=three_exons, mapq=0, flag=256),    # secondary
             dict(name="other", chr="chr2", pos=9000, cigar=three_exons, mapq=60)]
    bam = os.path.join(SCR, "a.bam")
    write_bam(bam, chroms, reads)
    # an annotation whose only gene is far away from both alignments (they stay "intergenic")
    gtf = os.path.join(SCR, "a.gtf")
    with open(gtf, "w") as f:
        f.write('chr2\tsrc\tgene\t30001\t31000\t.\t+\t.\tgene_id "G1";\n')
        f.write('chr2\tsrc\ttranscript\t30001\t31000\t.\t+\t.\tgene_id "G1"; transcript_id "T1";\n')
        f.write('chr2\tsrc\texon\t30001\t30400\t.\t+\t.\tgene_id "G1"; transcript_id "T1";\n')
        f.write('chr2\tsrc\texon\t30601\t31000\t.\t+\t.\tgene_id "G1"; transcript_id "T1";\n')
    for mode in ([], ["--high_memory"], ["--genedb", gtf, "--complete_genedb"]):
        bed, _ = run(SCR, "A" + str(len(mode)), fa, bam, mode)
        got = bed.get("readA", [])
        if ("chr1", 9000, 10200) not in got:
            problems.append("A %s: primary alignment of readA (chr1:9000-10200, MAPQ 60) is not in corrected_reads.bed; "
                            "reported instead: %s (its MAPQ 0 secondary alignment)" % (" ".join(mode[:1]) or "default", got))

    # ---- part B: the same competition is decided by the region splitting ----------------------------------------
    # chain of 3-exon reads, 1000 bp each, consecutive reads overlap by 10 bp: coverage 1-2 everywhere
    block = [(M, 300), (N, 50), (M, 300), (N, 50), (M, 300)]              # 1000 bp on the reference

    def chain(first, last):
        return [dict(name="t%d" % k, chr="chr1", pos=1000 + 990 * k, cigar=block) for k in range(first, last + 1)]

    # t33 = [33670, 34670); reads t20..t35 make a 16 kb cluster that is processed as one region,
    # reads t0..t59 make a 60 kb cluster that is cut at a coverage valley inside t33
    sec = dict(name="t33", chr="chr2", pos=50000, cigar=block, mapq=0, flag=256)
    for label, first, last in (("short cluster (not split)", 20, 35), ("long cluster (split)", 0, 59)):
        bam = os.path.join(SCR, "b%d.bam" % first)
        write_bam(bam, chroms, chain(first, last) + [sec])
        bed, regions = run(SCR, "B%d" % first, fa, bam)
        got = bed.get("t33", [])
        ok = ("chr1", 33670, 34670) in got
        print("B %-26s regions on the way: %s -> t33 reported at %s" % (label, regions, got))
        if not ok:
            problems.append("B %s: primary alignment of t33 (chr1:33670-34670, MAPQ 60) is not reported, "
                            "its secondary alignment %s is reported instead" % (label, got))

    shutil.rmtree(SCR, ignore_errors=True)
    if problems:
        print("PROPERTY C05 VIOLATED: a primary alignment that passes all filters is missing from corrected_reads.bed")
        for p in problems:
            print("  - " + p)
        sys.exit(1)
    print("ok: every primary alignment is reported")
    sys.exit(0)


if __name__ == "__main__":
    main()
