#!/venv/bin/python
"""
C05 hunt, finding 3: no read reaches corrected_reads.bed / read_assignments.tsv when the experiment name given with
the documented option --prefix occurs inside one of the output file suffixes (e.g. --prefix reads, --prefix s,
--prefix tsv, --prefix gene, --prefix model ...).

Per-chromosome result files are called  <prefix>_<chr>.corrected_reads.bed , but merge_file_list() (src/file_utils.py)
reconstructs their names with rreplace(<final file name>, prefix, prefix + "_" + chr), which replaces the LAST
occurrence of the prefix in the path: for prefix "reads" it looks for "reads.corrected_reads_chr1.bed". The real
per-chromosome file is skipped (`if not os.path.exists(file_name): continue`), the final file stays empty, and the run
then dies with FileNotFoundError in os.remove().

Input: 5 identical spliced MAPQ-60 primary reads on one annotated gene; the only thing that differs between the runs
is --prefix.  exit 1 = property violated, exit 0 = fine.
"""
import os
import random
import shutil
import subprocess
import sys

import pysam

REPO = os.path.dirname(os.path.abspath(__file__))
PY = "/venv/bin/python" if os.path.exists("/venv/bin/python") else sys.executable
SCRATCH = "/tmp/huntscratch_C05/hunt3"
L = 50000


def write_inputs(wd):
    rnd = random.Random(3)
    seq = "".join(rnd.choice("ACGT") for _ in range(L))
    with open(os.path.join(wd, "genome.fa"), "w") as f:
        f.write(">chr1\n")
        for i in range(0, L, 60):
            f.write(seq[i:i + 60] + "\n")
    with open(os.path.join(wd, "annot.gtf"), "w") as f:
        f.write('chr1\tsrc\tgene\t1000\t3500\t.\t+\t.\tgene_id "G1";\n')
        f.write('chr1\tsrc\ttranscript\t1000\t3500\t.\t+\t.\tgene_id "G1"; transcript_id "T1";\n')
        for i, (s, e) in enumerate([(1000, 1500), (2000, 2500), (3000, 3500)]):
            f.write('chr1\tsrc\texon\t%d\t%d\t.\t+\t.\tgene_id "G1"; transcript_id "T1"; exon_number "%d";\n'
                    % (s, e, i + 1))
    header = {"HD": {"VN": "1.6", "SO": "coordinate"}, "SQ": [{"SN": "chr1", "LN": L}]}
    bam = os.path.join(wd, "reads.bam")
    with pysam.AlignmentFile(bam, "wb", header=header) as out:
        for i in range(5):
            a = pysam.AlignedSegment(out.header)
            a.query_name = "r%d" % i
            a.flag = 0
            a.reference_id = 0
            a.reference_start = 999
            a.mapping_quality = 60
            a.cigarstring = "501M499N501M499N501M"
            a.query_sequence = ("ACGT" * 400)[:1503]
            a.query_qualities = pysam.qualitystring_to_array("I" * 1503)
            out.write(a)
    pysam.index(bam)
    return bam


def count(path):
    if not os.path.exists(path):
        return -1
    return len(set(l.split("\t")[0 if path.endswith(".tsv") else 3] for l in open(path) if not l.startswith("#")))


def main():
    if os.path.exists(SCRATCH):
        shutil.rmtree(SCRATCH)
    os.makedirs(SCRATCH)
    bam = write_inputs(SCRATCH)
    home = os.path.join(SCRATCH, "home")
    os.makedirs(home, exist_ok=True)
    violated = False
    for prefix in ("sample1", "reads", "s"):
        out = os.path.join(SCRATCH, "out_" + prefix)
        cmd = [PY, os.path.join(REPO, "isoquant.py"), "--reference", os.path.join(SCRATCH, "genome.fa"),
               "--genedb", os.path.join(SCRATCH, "annot.gtf"), "--complete_genedb", "--bam", bam,
               "--data_type", "nanopore", "-o", out, "--threads", "1", "--no_gzip", "--prefix", prefix]
        p = subprocess.run(cmd, env=dict(os.environ, HOME=home), stdout=subprocess.PIPE, stderr=subprocess.STDOUT,
                           text=True)
        bed = count(os.path.join(out, prefix, prefix + ".corrected_reads.bed"))
        tsv = count(os.path.join(out, prefix, prefix + ".read_assignments.tsv"))
        err = [l for l in p.stdout.split("\n") if "Error" in l]
        print("--prefix %-8s exit code %3d; 5 input reads; distinct reads in corrected_reads.bed: %d, "
              "in read_assignments.tsv: %d %s" % (prefix, p.returncode, bed, tsv, err[-1] if err else ""))
        if p.returncode != 0 or bed != 5 or tsv != 5:
            violated = True
    if violated:
        print("VIOLATION: with a --prefix that is a substring of an output-file suffix the per-chromosome pieces are "
              "never merged: the final BED/TSV contain no reads and the run aborts")
    shutil.rmtree(SCRATCH, ignore_errors=True)
    sys.exit(1 if violated else 0)


if __name__ == "__main__":
    main()
