#!/venv/bin/python
"""C05 second pass, finding 3.

The per-chromosome result files are concatenated by file_utils.merge_files(), which treats every leading line
that starts with '#' as a header line and drops it.  Data lines are not protected:
  * read_assignments.tsv lines start with the read id.  '#' is a legal first character of a read name
    (SAM QNAME is [!-?A-~]{1,254}); the first reads of every chromosome whose names start with '#' vanish from
    read_assignments.tsv, while a later read with such a name (after an ordinary one) is kept.
  * corrected_reads.bed lines start with the chromosome name.  '#' is a legal first character of a reference
    name (SAM RNAME is [0-9A-Za-z!#$%&+./:;?@^_|~-]...); ALL reads of such a chromosome vanish from
    corrected_reads.bed (annotation-free mode as well).
All these alignments are primary, MAPQ 60, and are counted as "primary" in the log.

exit 1 = property violated, 0 = fine
"""
import os, random, shutil, subprocess, sys
import pysam

REPO = os.path.dirname(os.path.abspath(__file__))
SCR = "/tmp/hunt2scratch_C05/hunt2_C05_3"
M, N = 0, 3


def main():
    shutil.rmtree(SCR, ignore_errors=True)
    os.makedirs(os.path.join(SCR, "home"))
    rnd = random.Random(1)
    chroms = [("chr1", 12000), ("#scaffold7", 9000)]
    fa = os.path.join(SCR, "g.fa")
    with open(fa, "w") as f:
        for n, l in chroms:
            f.write(">%s\n%s\n" % (n, "".join(rnd.choice("ACGT") for _ in range(l))))
    gtf = os.path.join(SCR, "a.gtf")
    with open(gtf, "w") as f:
        f.write('chr1\tsrc\tgene\t1001\t3500\t.\t+\t.\tgene_id "G1";\n')
        f.write('chr1\tsrc\ttranscript\t1001\t3500\t.\t+\t.\tgene_id "G1"; transcript_id "T1";\n')
        for s, e in ((1001, 1500), (2001, 2500), (3001, 3500)):
            f.write('chr1\tsrc\texon\t%d\t%d\t.\t+\t.\tgene_id "G1"; transcript_id "T1";\n' % (s, e))
    bam = os.path.join(SCR, "r.bam")
    header = {"HD": {"VN": "1.6", "SO": "coordinate"}, "SQ": [{"SN": n, "LN": l} for n, l in chroms]}
    reads = [("#r1", 0, 1000), ("#r2", 0, 1001), ("plain", 0, 1002), ("#r3", 0, 1003),
             ("s1", 1, 1000), ("s2", 1, 1001)]
    with pysam.AlignmentFile(bam, "wb", header=header) as out:
        for name, ref, pos in reads:
            a = pysam.AlignedSegment(out.header)
            a.query_name = name; a.flag = 0; a.reference_id = ref; a.reference_start = pos; a.mapping_quality = 60
            a.cigartuples = [(M, 1500 - pos), (N, 500), (M, 500), (N, 500), (M, 500)]
            a.query_sequence = "C" * (2500 - pos)
            out.write(a)
    pysam.index(bam)
    names = [r[0] for r in reads]

    out = os.path.join(SCR, "out")
    cmd = [sys.executable, os.path.join(REPO, "isoquant.py"), "--reference", fa, "--bam", bam, "--data_type", "nanopore",
           "-o", out, "--threads", "1", "--no_gzip", "--genedb", gtf, "--complete_genedb"]
    p = subprocess.run(cmd, stdout=subprocess.PIPE, stderr=subprocess.STDOUT, text=True,
                       env=dict(os.environ, HOME=os.path.join(SCR, "home")))
    if p.returncode != 0:
        print(p.stdout[-2000:])
        raise SystemExit("IsoQuant failed unexpectedly")
    primary = None
    for l in open(os.path.join(out, "isoquant.log")):
        if l.rstrip().rsplit(": ", 1)[0].endswith(" primary"):
            primary = int(l.rsplit(": ", 1)[1])
    header_lines = ("#chrom\tchromStart", "#read_id\tchr", "# Command line:", "# IsoQuant version:")
    def first_fields(fname, col):
        res = []
        for l in open(os.path.join(out, "OUT", fname)):
            if l.startswith(header_lines):
                continue
            res.append(l.split("\t")[col])
        return res
    bed = first_fields("OUT.corrected_reads.bed", 3)
    tsv = first_fields("OUT.read_assignments.tsv", 0)
    shutil.rmtree(SCR, ignore_errors=True)

    problems = []
    print("input reads: %s; 'primary' in the log: %s" % (names, primary))
    print("corrected_reads.bed  : %s" % sorted(bed))
    print("read_assignments.tsv : %s" % sorted(tsv))
    if sorted(bed) != sorted(names):
        problems.append("corrected_reads.bed lacks %s" % sorted(set(names) - set(bed)))
    if sorted(set(tsv)) != sorted(names):
        problems.append("read_assignments.tsv lacks %s" % sorted(set(names) - set(tsv)))
    if problems:
        print("PROPERTY C05 VIOLATED: primary alignments passing all filters are missing from the outputs")
        for p in problems:
            print("  - " + p)
        sys.exit(1)
    print("ok")
    sys.exit(0)


if __name__ == "__main__":
    main()
