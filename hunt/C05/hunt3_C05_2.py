#!/usr/bin/env python3
"""
hunt3 / C05 / finding 2

The list of chromosomes to process is taken from the reference FASTA alone (DatasetProcessor.get_chr_list,
src/dataset_processor.py:594-600) and every BAM file is then asked for each of them
(AlignmentCollector.__init__, src/alignment_processor.py:248-250: get_reference_length() on the FIRST BAM file,
BAMOnlineMerger._set, src/alignment_processor.py:59: fetch() on EVERY BAM file).

 (a) two BAM files of one experiment whose headers list only the contigs they contain (e.g. per-chromosome BAMs
     with pruned headers; both are valid, sorted, indexed BAM files aligned to the given reference)
     -> ValueError "invalid contig" / KeyError "unknown reference": the run dies, no read is reported at all
 (b) one BAM file, the FASTA holds one more contig than the BAM header (e.g. a decoy/alt contig the aligner's index
     did not have) -> KeyError, no read is reported
 (c) the BAM header (and 2 primary alignments) has a contig the FASTA does not have: the run "succeeds", the 2 reads
     are in no output, no warning is printed and the log says "primary: 3" for a file with 5 primary records

exit 1 = property violated, 0 = fine
"""
import os
import random
import re
import shutil
import subprocess
import sys

import pysam

HERE = os.path.dirname(os.path.abspath(__file__))
ISOQUANT = os.path.join(HERE, "isoquant.py")
PYTHON = "/venv/bin/python" if os.path.exists("/venv/bin/python") else sys.executable
WD = "/tmp/hunt3scratch_C05/f2"

CONTIGS = [("chr1", 20000), ("chr2", 8000), ("chr3", 5000)]
SEQS = {}


def make_read(header, name, contig, exons, flag=0):
    a = pysam.AlignedSegment(header)
    a.query_name = name
    a.flag = flag
    a.reference_id = header.get_tid(contig)
    a.reference_start = exons[0][0] - 1
    cigar, bases = [], ""
    for i, (s, e) in enumerate(exons):
        if i:
            cigar.append((3, s - exons[i - 1][1] - 1))
        cigar.append((0, e - s + 1))
        bases += SEQS[contig][s - 1:e]
    a.cigartuples = cigar
    a.query_sequence = bases
    a.query_qualities = pysam.qualitystring_to_array("I" * len(bases))
    a.mapping_quality = 60
    return a


def write_bam(path, contigs, read_specs):
    header = pysam.AlignmentHeader.from_dict({"HD": {"VN": "1.6", "SO": "coordinate"},
                                              "SQ": [{"SN": n, "LN": l} for n, l in contigs]})
    reads = [make_read(header, *spec) for spec in read_specs]
    reads.sort(key=lambda r: (r.reference_id, r.reference_start))
    with pysam.AlignmentFile(path, "wb", header=header) as out:
        for r in reads:
            out.write(r)
    pysam.index(path)


def write_fasta(path, names):
    with open(path, "w") as f:
        for n in names:
            f.write(">%s\n" % n)
            for i in range(0, len(SEQS[n]), 60):
                f.write(SEQS[n][i:i + 60] + "\n")


def run_isoquant(tag, fasta, bams):
    out = os.path.join(WD, "out_" + tag)
    env = dict(os.environ)
    env["HOME"] = os.path.join(WD, "home")
    os.makedirs(env["HOME"], exist_ok=True)
    cmd = [PYTHON, ISOQUANT, "--reference", fasta, "--genedb", os.path.join(WD, "annot.gtf"), "--complete_genedb",
           "--bam"] + bams + ["--data_type", "nanopore", "-o", out, "--threads", "1", "--no_gzip"]
    p = subprocess.run(cmd, env=env, stdout=subprocess.PIPE, stderr=subprocess.STDOUT, text=True)
    reported = set()
    bed = os.path.join(out, "OUT", "OUT.corrected_reads.bed")
    if p.returncode == 0 and os.path.exists(bed):
        for l in open(bed):
            if not l.startswith("#"):
                reported.add(l.split("\t")[3])
    return p.returncode, p.stdout, reported


def primary_reads(bams):
    names = set()
    for b in bams:
        for a in pysam.AlignmentFile(b):
            if not a.is_unmapped and not a.is_secondary and not a.is_supplementary:
                names.add(a.query_name)
    return names


def main():
    shutil.rmtree(WD, ignore_errors=True)
    os.makedirs(WD)
    rnd = random.Random(3)
    for n, l in CONTIGS:
        SEQS[n] = "".join(rnd.choice("ACGT") for _ in range(l))
    full_fa = os.path.join(WD, "genome.fa")
    write_fasta(full_fa, ["chr1", "chr2", "chr3"])
    fa12 = os.path.join(WD, "genome_chr1_chr2.fa")
    write_fasta(fa12, ["chr1", "chr2"])
    with open(os.path.join(WD, "annot.gtf"), "w") as f:
        f.write('chr1\tt\tgene\t1000\t3000\t.\t+\t.\tgene_id "G1";\n')
        f.write('chr1\tt\ttranscript\t1000\t3000\t.\t+\t.\tgene_id "G1"; transcript_id "T1";\n')
        f.write('chr1\tt\texon\t1000\t1500\t.\t+\t.\tgene_id "G1"; transcript_id "T1";\n')
        f.write('chr1\tt\texon\t2500\t3000\t.\t+\t.\tgene_id "G1"; transcript_id "T1";\n')

    g1 = [(1000, 1500), (2500, 3000)]
    reads_a = [("a%d" % i, "chr1", g1) for i in range(3)] + [("a2_%d" % i, "chr2", [(100, 400), (1000, 1500)]) for i in range(3)]
    reads_b = [("b%d" % i, "chr1", g1) for i in range(3)] + [("b3_%d" % i, "chr3", [(100, 400), (1000, 1500)]) for i in range(2)]
    bam_a = os.path.join(WD, "A_chr1_chr2.bam")   # header: chr1, chr2
    bam_b = os.path.join(WD, "B_chr1_chr3.bam")   # header: chr1, chr3
    bam_b_full = os.path.join(WD, "B_full_header.bam")
    write_bam(bam_a, [CONTIGS[0], CONTIGS[1]], reads_a)
    write_bam(bam_b, [CONTIGS[0], CONTIGS[2]], reads_b)
    write_bam(bam_b_full, CONTIGS, reads_b)

    violated = False

    def last_error_line(log):
        lines = [l for l in log.strip().splitlines() if l.strip()]
        return lines[-1] if lines else ""

    # (a)
    expected = primary_reads([bam_a, bam_b])
    rc, log, reported = run_isoquant("a", full_fa, [bam_a, bam_b])
    print("(a) --bam A(chr1,chr2) B(chr1,chr3), FASTA chr1-3: exit code %d, %d of %d primary alignments reported"
          % (rc, len(reported & expected), len(expected)))
    if rc != 0 or reported != expected:
        violated = True
        print("    VIOLATION: %s" % last_error_line(log))

    # (b)
    expected = primary_reads([bam_a])
    rc, log, reported = run_isoquant("b", full_fa, [bam_a])
    print("(b) --bam A(chr1,chr2), FASTA chr1-3: exit code %d, %d of %d primary alignments reported"
          % (rc, len(reported & expected), len(expected)))
    if rc != 0 or reported != expected:
        violated = True
        print("    VIOLATION: %s" % last_error_line(log))

    # (c)
    expected = primary_reads([bam_b_full])
    rc, log, reported = run_isoquant("c", fa12, [bam_b_full])
    m = re.search(r"primary: (\d+)", log)
    logged = int(m.group(1)) if m else None
    warned = [l for l in log.splitlines() if "WARNING" in l and "chr3" in l]
    print("(c) --bam B(header chr1-3, reads on chr1 and chr3), FASTA chr1,chr2: exit code %d, %d of %d primary "
          "alignments reported, log says 'primary: %s', warnings about chr3: %d"
          % (rc, len(reported & expected), len(expected), logged, len(warned)))
    if rc != 0 or reported != expected or logged != len(expected):
        violated = True
        print("    VIOLATION: reads %s are in no output and the alignment statistics of the log (%s) differ from the "
              "number of primary records of the input (%d)" % (sorted(expected - reported), logged, len(expected)))

    shutil.rmtree(WD, ignore_errors=True)
    return 1 if violated else 0


if __name__ == "__main__":
    sys.exit(main())
