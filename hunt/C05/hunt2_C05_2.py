#!/venv/bin/python
"""C05 second pass, finding 2.

An unmapped record (flag 0x4) that carries a reference name and a position - legal in SAM/BAM ("placed" unmapped
reads, SAM spec 1.4 flag description; written e.g. for unmapped mates and by `bwa mem` for reads hanging over a
reference end) - is returned by AlignmentFile.fetch().  AlignmentCollector.process() counts it as a *primary
alignment* and hands it to the alignment storage, where reference_end is None: the whole run dies with a
TypeError, so not a single mapped read of the input is reported.  The property requires that records are
filtered on "mapped", that every mapped primary alignment is reported and that the log statistics equal the
per-category record counts of the input.

exit 1 = property violated, 0 = fine
"""
import os, random, shutil, subprocess, sys
import pysam

REPO = os.path.dirname(os.path.abspath(__file__))
SCR = "/tmp/hunt2scratch_C05/hunt2_C05_2"
M, N = 0, 3


def main():
    shutil.rmtree(SCR, ignore_errors=True)
    os.makedirs(os.path.join(SCR, "home"))
    rnd = random.Random(1)
    fa = os.path.join(SCR, "g.fa")
    with open(fa, "w") as f:
        f.write(">chr1\n%s\n" % "".join(rnd.choice("ACGT") for _ in range(20000)))
    gtf = os.path.join(SCR, "a.gtf")
    with open(gtf, "w") as f:
        f.write('chr1\tsrc\tgene\t5001\t7500\t.\t+\t.\tgene_id "G1";\n')
        f.write('chr1\tsrc\ttranscript\t5001\t7500\t.\t+\t.\tgene_id "G1"; transcript_id "T1";\n')
        for s, e in ((5001, 5500), (6001, 6500), (7001, 7500)):
            f.write('chr1\tsrc\texon\t%d\t%d\t.\t+\t.\tgene_id "G1"; transcript_id "T1";\n' % (s, e))
    bam = os.path.join(SCR, "r.bam")
    header = {"HD": {"VN": "1.6", "SO": "coordinate"}, "SQ": [{"SN": "chr1", "LN": 20000}]}
    with pysam.AlignmentFile(bam, "wb", header=header) as out:
        a = pysam.AlignedSegment(out.header)          # an ordinary mapped read, full splice match of T1
        a.query_name = "mapped_read"; a.flag = 0; a.reference_id = 0; a.reference_start = 5000
        a.mapping_quality = 60; a.cigartuples = [(M, 500), (N, 500), (M, 500), (N, 500), (M, 500)]
        a.query_sequence = "C" * 1500
        out.write(a)
        # two unmapped reads that were given a position: one inside the span of the mapped read, one elsewhere
        for name, pos in (("placed_unmapped_1", 5100), ("placed_unmapped_2", 9000)):
            u = pysam.AlignedSegment(out.header)
            u.query_name = name; u.flag = 4; u.reference_id = 0; u.reference_start = pos
            u.mapping_quality = 0; u.query_sequence = "C" * 300
            out.write(u)
    pysam.index(bam)
    with pysam.AlignmentFile(bam) as b:
        assert b.mapped == 1 and b.unmapped == 2       # what the input contains

    problems = []
    for label, extra in (("with annotation", ["--genedb", gtf, "--complete_genedb"]), ("annotation-free", []),
                         ("--high_memory", ["--high_memory"])):
        out = os.path.join(SCR, "out_" + label.replace(" ", "_"))
        cmd = [sys.executable, os.path.join(REPO, "isoquant.py"), "--reference", fa, "--bam", bam, "--data_type", "nanopore",
               "-o", out, "--threads", "1", "--no_gzip"] + extra
        p = subprocess.run(cmd, stdout=subprocess.PIPE, stderr=subprocess.STDOUT, text=True,
                           env=dict(os.environ, HOME=os.path.join(SCR, "home")))
        bed = os.path.join(out, "OUT", "OUT.corrected_reads.bed")
        reported = [l.split("\t")[3] for l in open(bed) if not l.startswith("#")] if os.path.exists(bed) else []
        if p.returncode != 0:
            err = [l for l in p.stdout.splitlines() if "Error" in l][-1:]
            problems.append("%s: IsoQuant crashed (%s); reads reported in corrected_reads.bed: %s" % (label, err, reported))
            continue
        stats = {}
        for l in open(os.path.join(out, "isoquant.log")):
            for k in ("primary", "unaligned"):
                if l.rstrip().rsplit(": ", 1)[0].endswith(" " + k):
                    stats[k] = int(l.rsplit(": ", 1)[1])
        if reported != ["mapped_read"]:
            problems.append("%s: reported reads %s, expected ['mapped_read']" % (label, reported))
        if stats != {"primary": 1, "unaligned": 2}:
            problems.append("%s: log statistics %s, input has primary 1 / unaligned 2" % (label, stats))

    shutil.rmtree(SCR, ignore_errors=True)
    if problems:
        print("PROPERTY C05 VIOLATED: an unmapped record with coordinates breaks the accounting of the mapped reads")
        for p in problems:
            print("  - " + p)
        sys.exit(1)
    print("ok")
    sys.exit(0)


if __name__ == "__main__":
    main()
