#!/venv/bin/python
"""
C07 finding 2: a gzip-compressed reference (documented: "--reference ... can be gzipped") that is not in BGZF format is
uncompressed into <output>/<name>.fa by DatasetProcessor.__init__ (src/dataset_processor.py, lines 449-455).
With --resume an EXISTING uncompressed copy is reused without any completeness check:

        if not os.path.exists(gunzipped_reference) or not self.args.resume:
            ... copy ...

If the first run is killed while this copy is being written, the resumed run works on a truncated genome.
  * killed right after the file was created (empty copy): every --resume fails in pyfaidx -> the run can never complete;
  * killed in the middle of the copy: --resume exits 0, but the chromosomes that were not copied yet are silently
    absent from all outputs.

The kill is a genuine SIGKILL delivered at a deterministic point: the wrapper replaces shutil.copyfileobj by a version
that copies only a part of the data, flushes and kills the process (what `kill -9` during the copy of a large genome
does). The IsoQuant sources are not modified.
"""
import gzip
import os
import random
import shutil
import subprocess
import sys

import pysam

REPO = os.path.dirname(os.path.abspath(__file__))
PY = sys.executable
SCRATCH = "/tmp/huntscratch_C07/demo2"
NAMES, LENS = ["chrA", "chrB", "chrC"], [6000, 5000, 4000]


def build_data(d):
    os.makedirs(d, exist_ok=True)
    rnd = random.Random(11)
    seqs, gtf, reads = {}, [], []
    for ci, (cn, L) in enumerate(zip(NAMES, LENS)):
        s = [rnd.choice("ACGT") for _ in range(L)]
        exons = [(1001, 1200), (1501, 1700), (2001, 2200), (2501, 2800)]
        for i in range(len(exons) - 1):
            a, b = exons[i][1], exons[i + 1][0]
            s[a], s[a + 1] = "G", "T"
            s[b - 3], s[b - 2] = "A", "G"
        gid = "G%d" % ci
        gtf.append((cn, "gene", 1001, 2800, 'gene_id "%s";' % gid))
        for tid, ex in (("%s.t1" % gid, exons), ("%s.t2" % gid, [exons[0]] + exons[2:])):
            gtf.append((cn, "transcript", ex[0][0], ex[-1][1], 'gene_id "%s"; transcript_id "%s";' % (gid, tid)))
            for e in ex:
                gtf.append((cn, "exon", e[0], e[1], 'gene_id "%s"; transcript_id "%s";' % (gid, tid)))
        for k in range(5):
            reads.append((ci, "r_%s_full_%d" % (cn, k), exons))
        for k in range(4):
            reads.append((ci, "r_%s_skip_%d" % (cn, k), [exons[0]] + exons[2:]))
        seqs[cn] = "".join(s)
    # one sequence line per chromosome; plain gzip (NOT bgzip) -> IsoQuant has to uncompress it into the output folder
    with gzip.open(os.path.join(d, "genome.fa.gz"), "wt") as f:
        for cn in NAMES:
            f.write(">%s\n%s\n" % (cn, seqs[cn]))
    with open(os.path.join(d, "annot.gtf"), "w") as f:
        for cn, ft, a, b, attr in gtf:
            f.write("\t".join([cn, "synth", ft, str(a), str(b), ".", "+", ".", attr]) + "\n")
    header = {"HD": {"VN": "1.0", "SO": "coordinate"}, "SQ": [{"SN": n, "LN": l} for n, l in zip(NAMES, LENS)]}
    reads.sort(key=lambda r: (r[0], r[2][0][0], r[1]))
    path = os.path.join(d, "reads.bam")
    with pysam.AlignmentFile(path, "wb", header=header) as out:
        for ci, name, ex in reads:
            a = pysam.AlignedSegment()
            a.query_name = name
            cig, seq = [], ""
            for j, e in enumerate(ex):
                if j > 0:
                    cig.append((3, e[0] - ex[j - 1][1] - 1))
                cig.append((0, e[1] - e[0] + 1))
                seq += seqs[NAMES[ci]][e[0] - 1:e[1]]
            cig.append((4, 25))
            seq += "A" * 25
            a.query_sequence = seq
            a.flag = 0
            a.reference_id = ci
            a.reference_start = ex[0][0] - 1
            a.mapping_quality = 60
            a.cigar = cig
            out.write(a)
    pysam.index(path)


# argv[1] = number of characters that reach the disk before the process is killed
KILL_WRAPPER = """
import os, signal, sys, shutil
sys.path.insert(0, %r)
n_chars = int(sys.argv[1])
def interrupted_copy(fsrc, fdst, length=0):
    fdst.write(fsrc.read(n_chars))
    fdst.flush()
    os.kill(os.getpid(), signal.SIGKILL)
shutil.copyfileobj = interrupted_copy      # the only user in this run: uncompressing the reference
import isoquant
isoquant.main(sys.argv[2:])
""" % REPO


def norm(path):
    op = gzip.open if path.endswith(".gz") else open
    with op(path, "rt") as f:
        return [l for l in f if not l.startswith("# Command line:")]


def main():
    shutil.rmtree(SCRATCH, ignore_errors=True)
    data, home = os.path.join(SCRATCH, "data"), os.path.join(SCRATCH, "home")
    os.makedirs(home)
    build_data(data)
    env = dict(os.environ, HOME=home)
    iq = os.path.join(REPO, "isoquant.py")
    opts = ["--reference", os.path.join(data, "genome.fa.gz"), "--genedb", os.path.join(data, "annot.gtf"),
            "--complete_genedb", "--bam", os.path.join(data, "reads.bam"),
            "--data_type", "nanopore", "--threads", "1", "--no_gzip"]

    def run(cmd):
        return subprocess.run(cmd, env=env, stdout=subprocess.PIPE, stderr=subprocess.STDOUT)

    ref = os.path.join(SCRATCH, "ref")
    r = run([PY, iq] + opts + ["-o", ref])
    assert r.returncode == 0, r.stdout.decode()
    os.remove(os.path.join(data, "genome.fa.gz.fai"))     # every scenario starts from the same pristine inputs

    problems = []
    # records: ">chrA\n" + 6000 + "\n" + ">chrB\n" + 5000 + "\n" + ...
    after_chr_b = (6 + LENS[0] + 1) + (6 + LENS[1] + 1)
    for label, n_chars in (("killed right after the uncompressed copy was created (0 bytes written)", 0),
                           ("killed in the middle of the copy (chrA and chrB written, chrC not yet)", after_chr_b)):
        out = os.path.join(SCRATCH, "out_%d" % n_chars)
        b = run([PY, "-c", KILL_WRAPPER, str(n_chars)] + opts + ["-o", out])
        assert b.returncode == -9, "the first run was expected to be killed, rc=%d\n%s" % (b.returncode, b.stdout.decode())
        c = run([PY, iq, "--resume", "-o", out])
        fai = os.path.join(data, "genome.fa.gz.fai")
        if os.path.exists(fai):
            os.remove(fai)
        print("* %s: --resume exit code %d" % (label, c.returncode))
        if c.returncode != 0:
            tail = [l for l in c.stdout.decode().split("\n") if l.strip()][-1]
            problems.append("%s: the resumed run does not complete (exit code %d): %s" % (label, c.returncode, tail))
            continue
        for fn in sorted(os.listdir(os.path.join(ref, "OUT"))):
            p_ref, p_out = os.path.join(ref, "OUT", fn), os.path.join(out, "OUT", fn)
            if os.path.isdir(p_ref):
                continue
            if not os.path.exists(p_out):
                problems.append("%s: %s is missing" % (label, fn))
            elif norm(p_ref) != norm(p_out):
                a, b_ = norm(p_out), norm(p_ref)
                chr_c = sum(1 for l in b_ if "chrC" in l) - sum(1 for l in a if "chrC" in l)
                problems.append("%s: %s differs (%d lines instead of %d; %d chrC lines lost) although the exit code is 0"
                                % (label, fn, len(a), len(b_), chr_c))
    shutil.rmtree(SCRATCH, ignore_errors=True)
    try:
        os.rmdir(os.path.dirname(SCRATCH))      # remove the scratch parent if nothing else lives there
    except OSError:
        pass
    if problems:
        print("C07 VIOLATED:")
        for p in problems:
            print("  -", p)
        sys.exit(1)
    print("OK: resumed outputs equal the uninterrupted run")
    sys.exit(0)


if __name__ == "__main__":
    main()
