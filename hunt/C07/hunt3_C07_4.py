#!/usr/bin/env python3
"""C07 / finding 4 (PARTLY demonstrated: no aligner is installed here, so the run cannot be carried to its final
outputs): a run with `--fastq` input that is killed while minimap2 writes the genome index is resumed ON THE
TRUNCATED INDEX, and the truncated index is registered in ~/.config/IsoQuant/index_config.json as the valid index
of the reference for all later runs.

src/read_mapper.py:243-245 (index_reference):
        if os.path.isfile(index_name):
            logger.debug('Reusing reference index ' + index_name)
            return index_name
The index is written by `minimap2 -d <output>/<ref>_k14_idx` directly under its final name (part by part, a human
genome takes minutes).  Nothing tells a complete index from one left behind by a killed run; create_index()
(src/read_mapper.py:47-57) then calls store_index(), which records the file with its current mtime, so that
find_stored_index() of every later run (any output folder) answers "Index file found. Using ...".
What minimap2 makes of a truncated .mmi is up to minimap2 (an index cut at a part boundary is a valid index of the
first chromosomes only); IsoQuant never builds the index again, so the resumed run cannot give the results of the
uninterrupted run.

What the script does (unmodified isoquant.py, no stub aligner):
  1. `isoquant.py --fastq ... -o out` : saves .params, then stops ("minimap2 is not found") - stands for the killed run;
  2. a 16-byte file out/genome_k14_idx is created - stands for the index a killed `minimap2 -d` leaves behind;
  3. `isoquant.py --resume -o out`    : the truncated file is accepted and registered (index_config.json);
  4. a fresh run in another folder is told "Index file found. Using .../out/genome_k14_idx".
Exit code 1 = truncated index accepted (defect present), 0 = not accepted.
"""
import json
import os
import random
import shutil
import subprocess
import sys

HERE = os.path.dirname(os.path.abspath(__file__))
ISOQUANT = os.path.join(HERE, "isoquant.py")
PY = "/venv/bin/python" if os.path.exists("/venv/bin/python") else sys.executable
WORK = "/tmp/hunt3scratch_C07/demo4"


def run(cmd, home):
    env = dict(os.environ, HOME=home)
    os.makedirs(home, exist_ok=True)
    p = subprocess.run([PY] + cmd, env=env, stdout=subprocess.PIPE, stderr=subprocess.STDOUT, text=True)
    return p.returncode, p.stdout


def main():
    if shutil.which("minimap2"):
        print("minimap2 is installed: this script only emulates the killed indexing step, nothing to show")
        return 0
    shutil.rmtree(WORK, ignore_errors=True)
    inputs = os.path.join(WORK, "in")
    os.makedirs(inputs)
    home = os.path.join(WORK, "home")
    rnd = random.Random(3)
    seq = "".join(rnd.choice("ACGT") for _ in range(3000))
    with open(os.path.join(inputs, "genome.fa"), "w") as f:
        f.write(">chr1\n" + seq + "\n")
    with open(os.path.join(inputs, "reads.fastq"), "w") as f:
        f.write("@r1\n%s\n+\n%s\n" % (seq[100:400], "I" * 300))
    out = os.path.join(WORK, "out")
    options = ["--reference", os.path.join(inputs, "genome.fa"), "--fastq", os.path.join(inputs, "reads.fastq"),
               "--data_type", "nanopore", "--threads", "1"]

    rc, log = run([ISOQUANT] + options + ["-o", out], home)
    print("run 1 (stands for the run killed while indexing): exit code %d, .params saved: %s"
          % (rc, os.path.exists(os.path.join(out, ".params"))))
    index = os.path.join(out, "genome_k14_idx")
    with open(index, "wb") as f:
        f.write(b"MMI\2" + b"\0" * 12)                      # what a killed `minimap2 -d` may leave: a truncated file
    rc, log = run([ISOQUANT, "--resume", "-o", out], home)
    print("resumed run: exit code %d, last line: %s" % (rc, log.strip().split("\n")[-1][-120:]))
    with open(os.path.join(home, ".config", "IsoQuant", "index_config.json")) as f:
        config = json.load(f)
    registered = [v.get("index_filename") for v in config.values()]
    print("index_config.json after the resumed run:", json.dumps(config)[:300])

    rc, log = run([ISOQUANT] + options + ["-o", os.path.join(WORK, "other_out")], home)
    told = [l for l in log.split("\n") if "Index file found" in l]
    print("a fresh run in another folder says:", told[0][-140:] if told else "(builds its own index)")

    if os.path.abspath(index) in registered:
        print("DEFECT: the %d-byte file was taken for the genome index by --resume (the indexer was not called "
              "again) and is registered as the valid index of the reference" % os.path.getsize(index))
        return 1
    print("the truncated index was not accepted")
    return 0


if __name__ == "__main__":
    code = main()
    shutil.rmtree(WORK, ignore_errors=True)
    sys.exit(code)
