#!/usr/bin/env python3
"""C07 / finding 1: stage markers of a previous run survive `--force` when the experiment folder is hidden
(`--prefix .v2`, or an experiment named ".something" in a YAML / list file).

isoquant.py:319-321 removes the markers of the previous run with
    glob.glob(os.path.join(glob.escape(args.output), "*", "aux", marker_pattern))
and `*` does not match names that start with a dot.  A new run that is killed before it reaches its own marker
clean-up in collect_reads() (i.e. while the annotation is converted / the reference is loaded) and is then resumed
takes the saved reads of the PREVIOUS run for its own ("Collected reads detected, will not process"), finishes with
exit code 0 and reports the reads of the old BAM file.

Sequence of runs (all with the unmodified isoquant.py next to this script):
  1. run 1: --bam A.bam --prefix .v2 --keep_tmp -o out          (finishes)
  2. run 2: --bam B.bam --prefix .v2 --force    -o out          (killed right after .params was saved)
  3.        --resume -o out                                      (exit code 0)
  reference: uninterrupted run 2 in another folder.
Exit code 1 = property violated, 0 = not violated.
"""
import gzip
import os
import random
import shutil
import subprocess
import sys

import pysam

HERE = os.path.dirname(os.path.abspath(__file__))
ISOQUANT = os.path.join(HERE, "isoquant.py")
PY = "/venv/bin/python" if os.path.exists("/venv/bin/python") else sys.executable
WORK = "/tmp/hunt3scratch_C07/demo1"

# runs the unchanged isoquant.py, the process "is killed" (os._exit, nothing is flushed) right after the file named
# by KILL_ON was opened for writing or was the destination of os.replace
LAUNCHER = r'''
import builtins, io, os, sys, runpy
target = os.environ["KILL_ON"]
_open, _replace = builtins.open, os.replace
def my_open(file, mode="r", *a, **kw):
    f = _open(file, mode, *a, **kw)
    if isinstance(file, str) and any(c in mode for c in "wax") and os.path.basename(file) == target:
        os._exit(137)
    return f
def my_replace(src, dst, *a, **kw):
    r = _replace(src, dst, *a, **kw)
    if os.path.basename(dst) == target:
        os._exit(137)
    return r
builtins.open = io.open = my_open
os.replace = my_replace
sys.argv = sys.argv[1:]
sys.path.insert(0, os.path.dirname(os.path.abspath(sys.argv[0])))
runpy.run_path(sys.argv[0], run_name="__main__")
'''


def run(cmd, home, kill_on=None):
    env = dict(os.environ, HOME=home)
    os.makedirs(home, exist_ok=True)
    if kill_on:
        env["KILL_ON"] = kill_on
        cmd = [PY, "-c", LAUNCHER] + cmd
    else:
        cmd = [PY] + cmd
    p = subprocess.run(cmd, env=env, stdout=subprocess.PIPE, stderr=subprocess.STDOUT, text=True)
    return p.returncode, p.stdout


def build_inputs(folder):
    rnd = random.Random(5)
    seq = [rnd.choice("ACGT") for _ in range(12000)]
    t1 = [(1000, 1300), (2000, 2200), (3000, 3400)]
    t2 = [(6000, 6400), (7000, 7300), (8000, 8500)]
    for exons in (t1, t2):
        for i in range(len(exons) - 1):
            s, e = exons[i][1] + 1, exons[i + 1][0] - 1
            seq[s - 1:s + 1] = "GT"
            seq[e - 2:e] = "AG"
    seq = "".join(seq)
    with open(os.path.join(folder, "genome.fa"), "w") as f:
        f.write(">chr1\n")
        for i in range(0, len(seq), 60):
            f.write(seq[i:i + 60] + "\n")
    with open(os.path.join(folder, "annot.gtf"), "w") as f:
        for gid, tid, exons in (("geneA", "A.t1", t1), ("geneB", "B.t1", t2)):
            f.write('chr1\tsrc\tgene\t%d\t%d\t.\t+\t.\tgene_id "%s";\n' % (exons[0][0], exons[-1][1], gid))
            f.write('chr1\tsrc\ttranscript\t%d\t%d\t.\t+\t.\tgene_id "%s"; transcript_id "%s";\n'
                    % (exons[0][0], exons[-1][1], gid, tid))
            for s, e in exons:
                f.write('chr1\tsrc\texon\t%d\t%d\t.\t+\t.\tgene_id "%s"; transcript_id "%s";\n' % (s, e, gid, tid))

    def write_bam(name, spec):
        header = {"HD": {"VN": "1.0", "SO": "coordinate"}, "SQ": [{"SN": "chr1", "LN": len(seq)}]}
        records = []
        for label, exons, count in spec:
            for k in range(count):
                a = pysam.AlignedSegment()
                a.query_name = "%s_%s_%d" % (name, label, k)
                a.flag = 0
                a.reference_id = 0
                a.reference_start = exons[0][0] - 1
                a.mapping_quality = 60
                cigar, bases = [], ""
                for i, (s, e) in enumerate(exons):
                    if i:
                        cigar.append((3, s - exons[i - 1][1] - 1))
                    cigar.append((0, e - s + 1))
                    bases += seq[s - 1:e]
                cigar.append((4, 30))
                bases += "A" * 30
                a.cigartuples = cigar
                a.query_sequence = bases
                a.query_qualities = pysam.qualitystring_to_array("I" * len(bases))
                records.append(a)
        records.sort(key=lambda r: r.reference_start)
        path = os.path.join(folder, name + ".bam")
        with pysam.AlignmentFile(path, "wb", header=header) as out:
            for a in records:
                out.write(a)
        pysam.index(path)
        return path

    bam_a = write_bam("A", [("gA", t1, 7), ("gB", t2, 2)])   # previous run: 7 reads of geneA, 2 of geneB
    bam_b = write_bam("B", [("gA", t1, 1), ("gB", t2, 5)])   # new run:      1 read  of geneA, 5 of geneB
    return bam_a, bam_b


def table(path):
    opener = gzip.open if path.endswith(".gz") else open
    with opener(path, "rt") as f:
        return [l for l in f if not l.startswith("# Command line")]


def main():
    shutil.rmtree(WORK, ignore_errors=True)
    inputs = os.path.join(WORK, "in")
    os.makedirs(inputs)
    home = os.path.join(WORK, "home")
    bam_a, bam_b = build_inputs(inputs)
    common = ["--reference", os.path.join(inputs, "genome.fa"), "--genedb", os.path.join(inputs, "annot.gtf"),
              "--complete_genedb", "--data_type", "nanopore", "--threads", "1", "--prefix", ".v2"]
    out = os.path.join(WORK, "out")
    ref = os.path.join(WORK, "ref")

    rc, log = run([ISOQUANT] + common + ["--bam", bam_a, "--keep_tmp", "-o", out], home)
    assert rc == 0, "run 1 failed\n" + log[-2000:]
    rc, log = run([ISOQUANT] + common + ["--bam", bam_b, "-o", ref], home)
    assert rc == 0, "reference run failed\n" + log[-2000:]

    rc, log = run([ISOQUANT] + common + ["--bam", bam_b, "--force", "-o", out], home, kill_on=".params")
    assert rc == 137, "run 2 was not killed (rc %d)\n%s" % (rc, log[-2000:])
    left = sorted(f for f in os.listdir(os.path.join(out, ".v2", "aux")) if f.endswith(("_lock", "_collected")))
    print("markers of run 1 that survived the start of run 2 (--force):", left)

    rc, log = run([ISOQUANT, "--resume", "-o", out], home)
    print("exit code of the resumed run:", rc)
    if rc != 0:
        print(log[-1500:])
        print("the resumed run failed (honest failure), nothing to compare")
        return 0
    bad = []
    for name in (".v2.gene_counts.tsv", ".v2.transcript_counts.tsv", ".v2.read_assignments.tsv.gz"):
        expected = table(os.path.join(ref, ".v2", name))
        got = table(os.path.join(out, ".v2", name))
        if expected != got:
            bad.append(name)
    print("gene counts of the uninterrupted run 2:", [l.strip() for l in table(os.path.join(ref, ".v2", ".v2.gene_counts.tsv"))][1:3])
    print("gene counts of killed+resumed run 2   :", [l.strip() for l in table(os.path.join(out, ".v2", ".v2.gene_counts.tsv"))][1:3])
    if bad:
        print("VIOLATION: the resumed run exited with 0 but these outputs differ from the uninterrupted run "
              "(they describe the BAM file of the previous run):", bad)
        return 1
    print("outputs are equal, property holds")
    return 0


if __name__ == "__main__":
    code = main()
    shutil.rmtree(WORK, ignore_errors=True)
    sys.exit(code)
