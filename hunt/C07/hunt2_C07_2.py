#!/usr/bin/env python3
"""C07 (second pass), finding 2: a run started with --read_assignments SAVES keeps its stage markers
(SAVES_<chr>_processed, plus SAVES_<chr>_read_stat / _transcript_stat) next to the shared SAVES files, i.e. in the aux
folder of the run that produced the saves, not in its own output folder (dataset_processor.py:
reads_processed_lock_file_name(dump_filename, chr_id) with dump_filename = saves_file).  Another run that uses the same
saves (abandoned after a kill, or still running) leaves markers there; a killed run that is resumed takes them for its
own, skips the chromosome and merges its own partial per-chromosome files: exit code 0, records of the chromosome lost.
exit 1 = property violated, exit 0 = fine."""
import gzip, os, random, shutil, subprocess, sys

REPO = os.path.dirname(os.path.abspath(__file__))
PY = "/venv/bin/python" if os.path.exists("/venv/bin/python") else sys.executable
SCRATCH = "/tmp/hunt2scratch_C07/%s" % os.path.splitext(os.path.basename(__file__))[0]

# ---------------------------------------------------------------------------------------------------------------
# driver: runs the unchanged isoquant.main() and dies (os._exit, nothing is flushed: like SIGKILL) at a chosen
# file-system mutation point: the KILL_NTH-th event whose "kind path" contains KILL_KIND and KILL_PATH
DRIVER = r'''
import sys, os, builtins
sys.path.insert(0, %(repo)r)
KIND, PATH = os.environ.get("KILL_KIND", ""), os.environ.get("KILL_PATH")
NTH, WHEN = int(os.environ.get("KILL_NTH", "1")), os.environ.get("KILL_WHEN", "after")
seen = [0]; armed = [False]
def event(kind, path, stage):
    if PATH is None: return
    if stage == "pre":
        armed[0] = False
        if kind.startswith(KIND) and PATH in str(path):
            seen[0] += 1
            if seen[0] == NTH:
                if WHEN == "before": os._exit(77)
                armed[0] = True
    elif armed[0]:
        os._exit(77)
_open = builtins.open
def p_open(file, mode="r", *a, **kw):
    mut = isinstance(file, (str, bytes, os.PathLike)) and any(c in mode for c in "wax+")
    if mut: event("open:" + mode, file, "pre")
    r = _open(file, mode, *a, **kw)
    if mut: event("open:" + mode, file, "post")
    return r
builtins.open = p_open
def wrap(name):
    orig = getattr(os, name)
    def f(*a, **kw):
        event(name, a[0], "pre"); r = orig(*a, **kw); event(name, a[0], "post"); return r
    setattr(os, name, f)
for n in ("remove", "replace", "rename", "mkdir"): wrap(n)
import isoquant
try:
    isoquant.main(sys.argv[1:])
except SystemExit as e:
    sys.stdout.flush(); os._exit(e.code & 0xff if isinstance(e.code, int) else (0 if e.code is None else 1))
except BaseException:
    import traceback; traceback.print_exc(); sys.stdout.flush(); os._exit(255)   # isoquant.py itself exits with -1 here
'''


def run(args, kill=None, cwd=None):
    """kill = (kind, path substring, nth, when) or None; returns (exit code, output)"""
    env = dict(os.environ, HOME=os.path.join(SCRATCH, "home"), PYTHONHASHSEED="0")
    for k in ("KILL_KIND", "KILL_PATH", "KILL_NTH", "KILL_WHEN"): env.pop(k, None)
    if kill:
        env.update(KILL_KIND=kill[0], KILL_PATH=kill[1], KILL_NTH=str(kill[2]), KILL_WHEN=kill[3])
    os.makedirs(env["HOME"], exist_ok=True)
    drv = os.path.join(SCRATCH, "driver.py")
    with open(drv, "w") as f:
        f.write(DRIVER % {"repo": REPO})
    p = subprocess.run([PY, drv] + args, env=env, cwd=cwd or SCRATCH, stdout=subprocess.PIPE, stderr=subprocess.STDOUT)
    return p.returncode, p.stdout.decode(errors="replace")


# ---------------------------------------------------------------------------------------------------------------
# synthetic data: 3 chromosomes, 4 annotated genes, spliced reads with polyA tails, 2 BAM files
def build_data(d):
    import pysam
    os.makedirs(d, exist_ok=True)
    rng = random.Random(1)
    chroms = [("chrA", 6000), ("chrB", 5000), ("chrC", 3000)]
    seqs = {n: [rng.choice("ACGT") for _ in range(l)] for n, l in chroms}

    def intron(c, s, e, strand):
        seqs[c][s - 1:s + 1] = list("GT" if strand == "+" else "CT")
        seqs[c][e - 2:e] = list("AG" if strand == "+" else "AC")
    genes = [("chrA", "G1", "+", {"G1.T1": [(500, 700), (1000, 1200), (1500, 1800)], "G1.T2": [(500, 700), (1500, 1800)]}),
             ("chrA", "G2", "-", {"G2.T1": [(3000, 3600)]}),
             ("chrB", "G3", "+", {"G3.T1": [(400, 600), (900, 1100), (1400, 1700)]}),
             ("chrC", "G4", "-", {"G4.T1": [(300, 500), (800, 1000), (1300, 1600)]})]
    gtf = []
    for c, g, strand, ts in genes:
        allex = [e for ex in ts.values() for e in ex]
        gtf.append('%s\tsrc\tgene\t%d\t%d\t.\t%s\t.\tgene_id "%s";' % (c, min(e[0] for e in allex), max(e[1] for e in allex), strand, g))
        for t, ex in ts.items():
            gtf.append('%s\tsrc\ttranscript\t%d\t%d\t.\t%s\t.\tgene_id "%s"; transcript_id "%s";' % (c, ex[0][0], ex[-1][1], strand, g, t))
            for i in range(len(ex)):
                gtf.append('%s\tsrc\texon\t%d\t%d\t.\t%s\t.\tgene_id "%s"; transcript_id "%s";' % (c, ex[i][0], ex[i][1], strand, g, t))
                if i: intron(c, ex[i - 1][1] + 1, ex[i][0] - 1, strand)
    intron("chrA", 1201, 1349, "+")   # novel acceptor
    with open(os.path.join(d, "genome.fa"), "w") as f:
        for n, _ in chroms:
            f.write(">%s\n%s\n" % (n, "".join(seqs[n])))
    with open(os.path.join(d, "annot.gtf"), "w") as f:
        f.write("\n".join(gtf) + "\n")
    header = {"HD": {"VN": "1.0", "SO": "coordinate"}, "SQ": [{"SN": n, "LN": l} for n, l in chroms]}
    names = [n for n, _ in chroms]
    for b in range(2):
        reads = []

        def add(name, c, exons, polya=0, polyt=0, flag=0):
            a = pysam.AlignedSegment()
            a.query_name = "b%d_%s" % (b, name)
            a.reference_id = names.index(c)
            a.reference_start = exons[0][0] - 1
            cig, seq = ([(4, polyt)], "T" * polyt) if polyt else ([], "")
            for i, e in enumerate(exons):
                if i: cig.append((3, e[0] - exons[i - 1][1] - 1))
                cig.append((0, e[1] - e[0] + 1))
                seq += "".join(seqs[c][e[0] - 1:e[1]])
            if polya:
                cig.append((4, polya)); seq += "A" * polya
            a.cigartuples, a.query_sequence, a.flag, a.mapping_quality = cig, seq, flag, 60
            a.query_qualities = pysam.qualitystring_to_array("I" * len(seq))
            reads.append(a)
        for i in range(5):
            add("g1t1_%d" % i, "chrA", [(500 + i, 700), (1000, 1200), (1500, 1800 - i)], polya=20)
            add("g1t2_%d" % i, "chrA", [(510 + i, 700), (1500, 1790)], polya=15)
            add("g1nov_%d" % i, "chrA", [(505 + i, 700), (1000, 1200), (1350, 1800)], polya=20)
            add("g2_%d" % i, "chrA", [(3010, 3590 - i)], polyt=20, flag=16)
            add("g3_%d" % i, "chrB", [(400 + i, 600), (900, 1100), (1400, 1700)], polya=20)
            add("g4_%d" % i, "chrC", [(300 + i, 500), (800, 1000), (1300, 1600)], polyt=20, flag=16)
        reads.sort(key=lambda r: (r.reference_id, r.reference_start))
        for i in range(2 + b):
            u = pysam.AlignedSegment()
            u.query_name, u.flag, u.reference_id, u.reference_start = "b%d_un%d" % (b, i), 4, -1, -1
            u.query_sequence = "ACGTACGTAC"
            u.query_qualities = pysam.qualitystring_to_array("I" * 10)
            reads.append(u)
        p = os.path.join(d, "reads%d.bam" % b)
        with pysam.AlignmentFile(p, "wb", header=header) as out:
            for r in reads: out.write(r)
        pysam.index(p)


def snapshot(sample_dir):
    """final output files of an experiment (content; gz decompressed; the command line header is ignored)"""
    res = {}
    for f in sorted(os.listdir(sample_dir)):
        p = os.path.join(sample_dir, f)
        if os.path.isdir(p): continue
        data = gzip.open(p, "rb").read() if f.endswith(".gz") else open(p, "rb").read()
        res[f] = b"\n".join(l for l in data.split(b"\n") if not l.startswith(b"# Command line:"))
    return res


def compare(ref, res):
    problems = []
    for k in sorted(set(ref) | set(res)):
        if k not in res: problems.append("missing output file: " + k)
        elif k not in ref: problems.append("unexpected file left in the output folder: " + k)
        elif ref[k] != res[k]:
            problems.append("%s differs: %d lines in the uninterrupted run, %d lines after --resume" %
                            (k, ref[k].count(b"\n"), res[k].count(b"\n")))
    return problems


def main():
    shutil.rmtree(SCRATCH, ignore_errors=True)
    d = os.path.join(SCRATCH, "data")
    build_data(d)
    common = ["--reference", d + "/genome.fa", "--genedb", d + "/annot.gtf", "--complete_genedb",
              "--data_type", "nanopore", "--threads", "1"]
    # run A: collects the reads and keeps the saves
    rc, log = run(common + ["--bam", d + "/reads0.bam", "-o", SCRATCH + "/A", "--keep_tmp"])
    assert rc == 0, log[-2000:]
    saves = SCRATCH + "/A/OUT/aux/OUT.save"
    reuse = common + ["--read_assignments", saves, "--no_gzip"]
    # uninterrupted reference for run C
    rc, log = run(reuse + ["-o", SCRATCH + "/Cref"])
    assert rc == 0, log[-2000:]
    ref = snapshot(SCRATCH + "/Cref/OUT0")
    # run B uses the same saves and is killed (or simply still running) after it finished chrA
    rc, log = run(reuse + ["-o", SCRATCH + "/B"], kill=("open:w", "OUT.save_chrA_processed", 1, "after"))
    assert rc == 77, "run B was not killed: %d\n%s" % (rc, log[-2000:])
    # run C: killed while chrA is being processed (its own outputs for chrA are incomplete), then resumed
    rc, log = run(reuse + ["-o", SCRATCH + "/C"], kill=("open:w", "OUT0_chrA.transcript_model_counts.tsv.stats", 1, "after"))
    assert rc == 77, "run C was not killed: %d\n%s" % (rc, log[-2000:])
    rc, log = run(["--resume", "-o", SCRATCH + "/C"])
    problems = []
    if rc != 0:
        problems.append("the resumed run C failed with exit code %d:\n    %s" % (rc, "\n    ".join(log.strip().split("\n")[-4:])))
    else:
        problems += compare(ref, snapshot(SCRATCH + "/C/OUT0"))
        if "Processed assignments from chromosome chrA detected" in log:
            problems.append("log of the resumed run C: 'Processed assignments from chromosome chrA detected' "
                            "(the marker was written by run B into the aux folder of run A)")
    shutil.rmtree(SCRATCH, ignore_errors=True)
    if problems:
        print("C07 VIOLATED: the resumed run C exited with code %d but its outputs differ from an uninterrupted run" % rc)
        for p in problems: print("  " + p)
        sys.exit(1)
    print("ok: resumed run equals the uninterrupted run")
    sys.exit(0)


if __name__ == "__main__":
    main()
