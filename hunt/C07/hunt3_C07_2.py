#!/usr/bin/env python3
"""C07 / finding 2 (variant of an already repaired finding, other code location): a run started with `--bam_list`
whose list file names the BAM files relative to the working directory cannot be resumed from another working directory.

isoquant.py:366-372 (save_params) makes the option values absolute, incl. the path of the list file itself, but the
file names INSIDE the list (src/input_data_storage.py:172-178, get_samples_from_file) are used as written, i.e. they
are resolved against the working directory of whichever process reads the list.  `--resume` builds InputDataStorage
again (isoquant.py:415) and stops with "Input file A.bam does not exist" (exit code 255) although the
uninterrupted run from the original directory completes.  (`--fastq_list` shares the code.)

Exit code 1 = property violated (the resumed run does not complete), 0 = not violated.
"""
import gzip
import os
import random
import shutil
import subprocess
import sys

import pysam

HERE = os.path.dirname(os.path.abspath(__file__))
ISOQUANT = os.path.join(HERE, "isoquant.py")
PY = "/venv/bin/python" if os.path.exists("/venv/bin/python") else sys.executable
WORK = "/tmp/hunt3scratch_C07/demo2"

# runs the unchanged isoquant.py, the process "is killed" (os._exit, nothing is flushed) right after the file named
# by KILL_ON was opened for writing or was the destination of os.replace
LAUNCHER = r'''
import builtins, io, os, sys, runpy
target = os.environ["KILL_ON"]
_open, _replace = builtins.open, os.replace
def my_open(file, mode="r", *a, **kw):
    f = _open(file, mode, *a, **kw)
    if isinstance(file, str) and any(c in mode for c in "wax") and os.path.basename(file) == target:
        os._exit(137)
    return f
def my_replace(src, dst, *a, **kw):
    r = _replace(src, dst, *a, **kw)
    if os.path.basename(dst) == target:
        os._exit(137)
    return r
builtins.open = io.open = my_open
os.replace = my_replace
sys.argv = sys.argv[1:]
sys.path.insert(0, os.path.dirname(os.path.abspath(sys.argv[0])))
runpy.run_path(sys.argv[0], run_name="__main__")
'''


def run(cmd, home, kill_on=None, cwd=None):
    env = dict(os.environ, HOME=home)
    os.makedirs(home, exist_ok=True)
    if kill_on:
        env["KILL_ON"] = kill_on
        cmd = [PY, "-c", LAUNCHER] + cmd
    else:
        cmd = [PY] + cmd
    p = subprocess.run(cmd, env=env, cwd=cwd, stdout=subprocess.PIPE, stderr=subprocess.STDOUT, text=True)
    return p.returncode, p.stdout


def build_inputs(folder):
    rnd = random.Random(5)
    seq = [rnd.choice("ACGT") for _ in range(12000)]
    t1 = [(1000, 1300), (2000, 2200), (3000, 3400)]
    t2 = [(6000, 6400), (7000, 7300), (8000, 8500)]
    for exons in (t1, t2):
        for i in range(len(exons) - 1):
            s, e = exons[i][1] + 1, exons[i + 1][0] - 1
            seq[s - 1:s + 1] = "GT"
            seq[e - 2:e] = "AG"
    seq = "".join(seq)
    with open(os.path.join(folder, "genome.fa"), "w") as f:
        f.write(">chr1\n")
        for i in range(0, len(seq), 60):
            f.write(seq[i:i + 60] + "\n")
    with open(os.path.join(folder, "annot.gtf"), "w") as f:
        for gid, tid, exons in (("geneA", "A.t1", t1), ("geneB", "B.t1", t2)):
            f.write('chr1\tsrc\tgene\t%d\t%d\t.\t+\t.\tgene_id "%s";\n' % (exons[0][0], exons[-1][1], gid))
            f.write('chr1\tsrc\ttranscript\t%d\t%d\t.\t+\t.\tgene_id "%s"; transcript_id "%s";\n'
                    % (exons[0][0], exons[-1][1], gid, tid))
            for s, e in exons:
                f.write('chr1\tsrc\texon\t%d\t%d\t.\t+\t.\tgene_id "%s"; transcript_id "%s";\n' % (s, e, gid, tid))

    def write_bam(name, spec):
        header = {"HD": {"VN": "1.0", "SO": "coordinate"}, "SQ": [{"SN": "chr1", "LN": len(seq)}]}
        records = []
        for label, exons, count in spec:
            for k in range(count):
                a = pysam.AlignedSegment()
                a.query_name = "%s_%s_%d" % (name, label, k)
                a.flag = 0
                a.reference_id = 0
                a.reference_start = exons[0][0] - 1
                a.mapping_quality = 60
                cigar, bases = [], ""
                for i, (s, e) in enumerate(exons):
                    if i:
                        cigar.append((3, s - exons[i - 1][1] - 1))
                    cigar.append((0, e - s + 1))
                    bases += seq[s - 1:e]
                cigar.append((4, 30))
                bases += "A" * 30
                a.cigartuples = cigar
                a.query_sequence = bases
                a.query_qualities = pysam.qualitystring_to_array("I" * len(bases))
                records.append(a)
        records.sort(key=lambda r: r.reference_start)
        path = os.path.join(folder, name + ".bam")
        with pysam.AlignmentFile(path, "wb", header=header) as out:
            for a in records:
                out.write(a)
        pysam.index(path)
        return path

    bam_a = write_bam("A", [("gA", t1, 7), ("gB", t2, 2)])   # previous run: 7 reads of geneA, 2 of geneB
    bam_b = write_bam("B", [("gA", t1, 1), ("gB", t2, 5)])   # new run:      1 read  of geneA, 5 of geneB
    return bam_a, bam_b


def table(path):
    opener = gzip.open if path.endswith(".gz") else open
    with opener(path, "rt") as f:
        return [l for l in f if not l.startswith("# Command line")]


def main():
    shutil.rmtree(WORK, ignore_errors=True)
    inputs = os.path.join(WORK, "in")
    os.makedirs(inputs)
    home = os.path.join(WORK, "home")
    build_inputs(inputs)
    with open(os.path.join(inputs, "list.txt"), "w") as f:
        f.write("A.bam:replicate1\nB.bam:replicate2\n")           # names relative to the working directory
    options = ["--reference", "genome.fa", "--genedb", "annot.gtf", "--complete_genedb", "--data_type", "nanopore",
               "--threads", "1", "--bam_list", "list.txt"]
    out = os.path.join(WORK, "out")
    ref = os.path.join(WORK, "ref")

    rc, log = run([ISOQUANT] + options + ["-o", ref], home, cwd=inputs)
    assert rc == 0, "uninterrupted run failed\n" + log[-2000:]
    rc, log = run([ISOQUANT] + options + ["-o", out], home, kill_on="OUT.save_lock", cwd=inputs)
    assert rc == 137, "the run was not killed (rc %d)\n%s" % (rc, log[-2000:])

    other_dir = os.path.join(WORK, "elsewhere")
    os.makedirs(other_dir)
    rc_other, log_other = run([ISOQUANT, "--resume", "-o", out], home, cwd=other_dir)
    print("--resume from another working directory: exit code", rc_other)
    print("   ", log_other.strip().split("\n")[-1])
    if rc_other == 0:
        same = all(table(os.path.join(ref, "OUT", n)) == table(os.path.join(out, "OUT", n))
                   for n in ("OUT.gene_counts.tsv", "OUT.transcript_grouped_counts.tsv"))
        print("outputs equal to the uninterrupted run:", same)
        return 0 if same else 1
    # control: the very same folder can be resumed from the original directory
    rc_same, log_same = run([ISOQUANT, "--resume", "-o", out], home, cwd=inputs)
    print("--resume from the original working directory: exit code", rc_same)
    print("VIOLATION: the run was killed after its parameters were saved, but --resume does not complete "
          "(the uninterrupted run does)")
    return 1


if __name__ == "__main__":
    code = main()
    shutil.rmtree(WORK, ignore_errors=True)
    sys.exit(code)
