#!/venv/bin/python
"""
C07 finding 1: markers ("locks") and save files that an EARLIER run left in the output folder are taken for the
results of the CURRENT run by --resume.

Sequence (all documented usage):
  A) isoquant ... --bam full.bam -o OUT_DIR --keep_tmp            (completes; aux/OUT.save_lock etc. stay)
  B) isoquant ... --bam half.bam -o OUT_DIR --force               (new run in the same folder, different input;
                                                                  killed by SIGKILL right after .params was saved)
  C) isoquant --resume -o OUT_DIR                                 (continues run B)
  R) isoquant ... --bam half.bam -o REF_DIR                       (uninterrupted run with the options of B)

Expected by C07: outputs of C == outputs of R.  Observed: C exits 0 and reports the reads of full.bam (run A).

The kill is a genuine SIGKILL, delivered at a deterministic point: the wrapper below only replaces
isoquant.set_additional_params (the first call after the parameters are saved) by a function that kills the process.
The IsoQuant sources are not modified.
"""
import os
import random
import shutil
import subprocess
import sys

import pysam

REPO = os.path.dirname(os.path.abspath(__file__))
PY = sys.executable
SCRATCH = "/tmp/huntscratch_C07/demo1"


def build_data(d):
    os.makedirs(d, exist_ok=True)
    rnd = random.Random(7)
    names, lens = ["chrA", "chrB"], [6000, 5000]
    seqs, gtf, reads = {}, [], []
    for ci, (cn, L) in enumerate(zip(names, lens)):
        s = [rnd.choice("ACGT") for _ in range(L)]
        exons = [(1001, 1200), (1501, 1700), (2001, 2200), (2501, 2800)]
        for i in range(len(exons) - 1):
            a, b = exons[i][1], exons[i + 1][0]
            s[a], s[a + 1] = "G", "T"
            s[b - 3], s[b - 2] = "A", "G"
        gid = "G%d" % ci
        gtf.append((cn, "gene", 1001, 2800, 'gene_id "%s";' % gid))
        for tid, ex in (("%s.t1" % gid, exons), ("%s.t2" % gid, [exons[0]] + exons[2:])):
            gtf.append((cn, "transcript", ex[0][0], ex[-1][1], 'gene_id "%s"; transcript_id "%s";' % (gid, tid)))
            for e in ex:
                gtf.append((cn, "exon", e[0], e[1], 'gene_id "%s"; transcript_id "%s";' % (gid, tid)))
        for k in range(6):
            reads.append((ci, "r_%s_full_%d" % (cn, k), exons))
        for k in range(4):
            reads.append((ci, "r_%s_skip_%d" % (cn, k), [exons[0]] + exons[2:]))
        seqs[cn] = "".join(s)
    with open(os.path.join(d, "genome.fa"), "w") as f:
        for cn in names:
            f.write(">%s\n%s\n" % (cn, seqs[cn]))
    with open(os.path.join(d, "annot.gtf"), "w") as f:
        for cn, ft, a, b, attr in gtf:
            f.write("\t".join([cn, "synth", ft, str(a), str(b), ".", "+", ".", attr]) + "\n")
    header = {"HD": {"VN": "1.0", "SO": "coordinate"}, "SQ": [{"SN": n, "LN": l} for n, l in zip(names, lens)]}
    reads.sort(key=lambda r: (r[0], r[2][0][0], r[1]))
    for fname, keep in (("full.bam", lambda i: True), ("half.bam", lambda i: i % 2 == 0)):
        path = os.path.join(d, fname)
        with pysam.AlignmentFile(path, "wb", header=header) as out:
            for i, (ci, name, ex) in enumerate(reads):
                if not keep(i):
                    continue
                a = pysam.AlignedSegment()
                a.query_name = name
                cig, seq = [], ""
                for j, e in enumerate(ex):
                    if j > 0:
                        cig.append((3, e[0] - ex[j - 1][1] - 1))
                    cig.append((0, e[1] - e[0] + 1))
                    seq += seqs[names[ci]][e[0] - 1:e[1]]
                cig.append((4, 25))
                seq += "A" * 25
                a.query_sequence = seq
                a.flag = 0
                a.reference_id = ci
                a.reference_start = ex[0][0] - 1
                a.mapping_quality = 60
                a.cigar = cig
                out.write(a)
        pysam.index(path)


KILL_WRAPPER = """
import os, signal, sys
sys.path.insert(0, %r)
import isoquant
def killed(_args):
    os.kill(os.getpid(), signal.SIGKILL)
isoquant.set_additional_params = killed      # first call after save_params() and create_output_dirs()
isoquant.main(sys.argv[1:])
""" % REPO


def norm(path):
    with open(path) as f:
        return [l for l in f if not l.startswith("# Command line:")]


def main():
    shutil.rmtree(SCRATCH, ignore_errors=True)
    data = os.path.join(SCRATCH, "data")
    home = os.path.join(SCRATCH, "home")
    os.makedirs(home)
    build_data(data)
    env = dict(os.environ, HOME=home)
    iq = os.path.join(REPO, "isoquant.py")
    common = ["--reference", os.path.join(data, "genome.fa"), "--genedb", os.path.join(data, "annot.gtf"),
              "--complete_genedb", "--data_type", "nanopore", "--threads", "1", "--no_gzip"]
    out, ref = os.path.join(SCRATCH, "out"), os.path.join(SCRATCH, "ref")

    def run(cmd):
        return subprocess.run(cmd, env=env, stdout=subprocess.PIPE, stderr=subprocess.STDOUT)

    a = run([PY, iq] + common + ["--bam", os.path.join(data, "full.bam"), "-o", out, "--keep_tmp"])
    assert a.returncode == 0, a.stdout.decode()
    r = run([PY, iq] + common + ["--bam", os.path.join(data, "half.bam"), "-o", ref])
    assert r.returncode == 0, r.stdout.decode()
    b = run([PY, "-c", KILL_WRAPPER] + common + ["--bam", os.path.join(data, "half.bam"), "-o", out, "--force"])
    assert b.returncode == -9, "run B was expected to be killed by SIGKILL, rc=%d\n%s" % (b.returncode, b.stdout.decode())
    c = run([PY, iq, "--resume", "-o", out])
    print("resumed run exit code:", c.returncode)
    for l in c.stdout.decode().split("\n"):
        if "etected" in l or "existing files" in l:
            print("   log:", l.split(" - ", 2)[-1])

    problems = []
    if c.returncode != 0:
        problems.append("resumed run failed with exit code %d" % c.returncode)
    for fn in sorted(os.listdir(os.path.join(ref, "OUT"))):
        p_ref, p_out = os.path.join(ref, "OUT", fn), os.path.join(out, "OUT", fn)
        if os.path.isdir(p_ref):
            continue
        if not os.path.exists(p_out):
            problems.append("%s is missing in the resumed run" % fn)
        elif norm(p_ref) != norm(p_out):
            problems.append("%s differs: %d lines in the resumed run, %d in the uninterrupted run"
                            % (fn, len(norm(p_out)), len(norm(p_ref))))
    shutil.rmtree(SCRATCH, ignore_errors=True)
    try:
        os.rmdir(os.path.dirname(SCRATCH))      # remove the scratch parent if nothing else lives there
    except OSError:
        pass
    if problems:
        print("C07 VIOLATED: run B (half.bam) was killed after its parameters were saved; --resume finished "
              "successfully but reports the reads of the earlier run A (full.bam) that used the same folder:")
        for p in problems:
            print("  -", p)
        sys.exit(1)
    print("OK: resumed outputs equal the uninterrupted run")
    sys.exit(0)


if __name__ == "__main__":
    main()
