#!/usr/bin/env python3
"""C07 / finding 3 (BORDERLINE - holds only by the letter of "every final output file equals ..."): the provenance
header of the outputs of a resumed run names the `--resume` command instead of the options the results were
computed with.

isoquant.py:284 sets args._cmd_line for every invocation, and load_previous_run (isoquant.py:355-356) copies EVERY
attribute of the `--resume` namespace over the saved parameters, incl. `_cmd_line`.  The header
"# Command line: ..." of OUT.read_assignments.tsv(.gz), OUT.transcript_models.gtf and OUT.extended_annotation.gtf
(src/dataset_processor.py:365, 452) therefore reads "isoquant.py --resume -o out" after a resume: the files differ from
those of the uninterrupted run started with the very same command line in the very same folder, and the record of the
options that produced the results is lost.  All data lines are equal.

Exit code 1 = files differ (only in that header), 0 = files equal.
"""
import gzip
import os
import random
import shutil
import subprocess
import sys

import pysam

HERE = os.path.dirname(os.path.abspath(__file__))
ISOQUANT = os.path.join(HERE, "isoquant.py")
PY = "/venv/bin/python" if os.path.exists("/venv/bin/python") else sys.executable
WORK = "/tmp/hunt3scratch_C07/demo3"

# runs the unchanged isoquant.py, the process "is killed" (os._exit, nothing is flushed) right after the file named
# by KILL_ON was opened for writing or was the destination of os.replace
LAUNCHER = r'''
import builtins, io, os, sys, runpy
target = os.environ["KILL_ON"]
_open, _replace = builtins.open, os.replace
def my_open(file, mode="r", *a, **kw):
    f = _open(file, mode, *a, **kw)
    if isinstance(file, str) and any(c in mode for c in "wax") and os.path.basename(file) == target:
        os._exit(137)
    return f
def my_replace(src, dst, *a, **kw):
    r = _replace(src, dst, *a, **kw)
    if os.path.basename(dst) == target:
        os._exit(137)
    return r
builtins.open = io.open = my_open
os.replace = my_replace
sys.argv = sys.argv[1:]
sys.path.insert(0, os.path.dirname(os.path.abspath(sys.argv[0])))
runpy.run_path(sys.argv[0], run_name="__main__")
'''


def run(cmd, home, kill_on=None):
    env = dict(os.environ, HOME=home)
    os.makedirs(home, exist_ok=True)
    if kill_on:
        env["KILL_ON"] = kill_on
        cmd = [PY, "-c", LAUNCHER] + cmd
    else:
        cmd = [PY] + cmd
    p = subprocess.run(cmd, env=env, stdout=subprocess.PIPE, stderr=subprocess.STDOUT, text=True)
    return p.returncode, p.stdout


def build_inputs(folder):
    rnd = random.Random(5)
    seq = [rnd.choice("ACGT") for _ in range(12000)]
    t1 = [(1000, 1300), (2000, 2200), (3000, 3400)]
    t2 = [(6000, 6400), (7000, 7300), (8000, 8500)]
    for exons in (t1, t2):
        for i in range(len(exons) - 1):
            s, e = exons[i][1] + 1, exons[i + 1][0] - 1
            seq[s - 1:s + 1] = "GT"
            seq[e - 2:e] = "AG"
    seq = "".join(seq)
    with open(os.path.join(folder, "genome.fa"), "w") as f:
        f.write(">chr1\n")
        for i in range(0, len(seq), 60):
            f.write(seq[i:i + 60] + "\n")
    with open(os.path.join(folder, "annot.gtf"), "w") as f:
        for gid, tid, exons in (("geneA", "A.t1", t1), ("geneB", "B.t1", t2)):
            f.write('chr1\tsrc\tgene\t%d\t%d\t.\t+\t.\tgene_id "%s";\n' % (exons[0][0], exons[-1][1], gid))
            f.write('chr1\tsrc\ttranscript\t%d\t%d\t.\t+\t.\tgene_id "%s"; transcript_id "%s";\n'
                    % (exons[0][0], exons[-1][1], gid, tid))
            for s, e in exons:
                f.write('chr1\tsrc\texon\t%d\t%d\t.\t+\t.\tgene_id "%s"; transcript_id "%s";\n' % (s, e, gid, tid))

    def write_bam(name, spec):
        header = {"HD": {"VN": "1.0", "SO": "coordinate"}, "SQ": [{"SN": "chr1", "LN": len(seq)}]}
        records = []
        for label, exons, count in spec:
            for k in range(count):
                a = pysam.AlignedSegment()
                a.query_name = "%s_%s_%d" % (name, label, k)
                a.flag = 0
                a.reference_id = 0
                a.reference_start = exons[0][0] - 1
                a.mapping_quality = 60
                cigar, bases = [], ""
                for i, (s, e) in enumerate(exons):
                    if i:
                        cigar.append((3, s - exons[i - 1][1] - 1))
                    cigar.append((0, e - s + 1))
                    bases += seq[s - 1:e]
                cigar.append((4, 30))
                bases += "A" * 30
                a.cigartuples = cigar
                a.query_sequence = bases
                a.query_qualities = pysam.qualitystring_to_array("I" * len(bases))
                records.append(a)
        records.sort(key=lambda r: r.reference_start)
        path = os.path.join(folder, name + ".bam")
        with pysam.AlignmentFile(path, "wb", header=header) as out:
            for a in records:
                out.write(a)
        pysam.index(path)
        return path

    bam_a = write_bam("A", [("gA", t1, 7), ("gB", t2, 2)])   # previous run: 7 reads of geneA, 2 of geneB
    bam_b = write_bam("B", [("gA", t1, 1), ("gB", t2, 5)])   # new run:      1 read  of geneA, 5 of geneB
    return bam_a, bam_b


def content(path):
    opener = gzip.open if path.endswith(".gz") else open
    with opener(path, "rt") as f:
        return f.readlines()


def snapshot(folder):
    res = {}
    for name in sorted(os.listdir(folder)):
        path = os.path.join(folder, name)
        if os.path.isfile(path):
            res[name] = content(path)
    return res


def main():
    shutil.rmtree(WORK, ignore_errors=True)
    inputs = os.path.join(WORK, "in")
    os.makedirs(inputs)
    home = os.path.join(WORK, "home")
    bam_a, bam_b = build_inputs(inputs)
    out = os.path.join(WORK, "out")
    command = [ISOQUANT, "--reference", os.path.join(inputs, "genome.fa"), "--genedb", os.path.join(inputs, "annot.gtf"),
               "--complete_genedb", "--data_type", "nanopore", "--threads", "1", "--bam", bam_a, "-o", out]

    rc, log = run(command, home)
    assert rc == 0, "uninterrupted run failed\n" + log[-2000:]
    expected = snapshot(os.path.join(out, "OUT"))
    shutil.rmtree(out)

    # the very same command line, the very same folder; killed when the first chromosome was marked as processed
    rc, log = run(command, home, kill_on="OUT.save_chr1_processed")
    assert rc == 137, "the run was not killed (rc %d)\n%s" % (rc, log[-2000:])
    rc, log = run([ISOQUANT, "--resume", "-o", out], home)
    assert rc == 0, "resumed run failed\n" + log[-2000:]
    got = snapshot(os.path.join(out, "OUT"))

    differing = [n for n in sorted(set(expected) | set(got)) if expected.get(n) != got.get(n)]
    data_differs = False
    for n in differing:
        print("file differs:", n)
        e, g = expected.get(n, []), got.get(n, [])
        for le, lg in zip(e, g):
            if le != lg:
                print("    uninterrupted :", le.strip()[:150])
                print("    killed+resumed:", lg.strip()[:150])
                if not le.startswith("# Command line"):
                    data_differs = True
        data_differs = data_differs or len(e) != len(g)
    if not differing:
        print("all final output files are equal, property holds")
        return 0
    print("VIOLATION by the letter: %d final output files of the resumed run differ from the uninterrupted run%s"
          % (len(differing), "" if data_differs else " (only in the '# Command line' header)"))
    return 1


if __name__ == "__main__":
    code = main()
    shutil.rmtree(WORK, ignore_errors=True)
    sys.exit(code)
