#!/usr/bin/env python3
"""
hunt3 / C18 / demonstration 3  (OUTSIDE THE LETTER of C18: semantics of the --report_canonical levels)

Two more places where the --report_canonical levels do not do what docs/cmd.md says:

 (a) "all -- report all transcript model regardless of their splice sites": a well supported (8 reads, polyA tails)
     novel 2-exon transcript whose only intron is non-canonical (AA..AA) is never reported, whatever the level:
     construct_fl_isoforms (src/graph_based_model_construction.py:475-478) drops every mono-intronic novel transcript
     with transcript_clean_strand == '.' BEFORE the level is looked at.

 (b) "auto - automatic selection based on the data type and model construction strategy (default)"; the help string in
     isoquant.py:144-146 also says "default: auto", but the argparse default is only_stranded.  For nanopore data
     `auto` resolves to only_canonical, so a run without the option and a run with `--report_canonical auto` differ:
     a novel transcript with two GT-AG introns and one CT-AC intron (strand '+' by majority, not "clean") is reported
     by default and not reported with the documented default.

exit 1 = at least one of the two behaviours present, exit 0 = none.
"""
import os
import random
import re
import shutil
import subprocess
import sys

import pysam

HERE = os.path.dirname(os.path.abspath(__file__))
ISOQUANT = os.path.join(HERE, "isoquant.py")
PY = "/venv/bin/python"
WORK = "/tmp/hunt3scratch_C18/demo3"


def plant(g, intron, left, right):
    s, e = intron
    g[s - 1:s + 1] = list(left)
    g[e - 2:e] = list(right)


def novel_models(out):
    res = []
    for l in open(os.path.join(out, "OUT", "OUT.transcript_models.gtf")):
        f = l.rstrip("\n").split("\t")
        if len(f) < 9 or f[2] != "transcript":
            continue
        tid = re.search(r'transcript_id "([^"]+)"', f[8]).group(1)
        if tid.endswith("nic"):
            res.append((int(f[3]), int(f[4]), f[6], tid))
    return res


def main():
    shutil.rmtree(WORK, ignore_errors=True)
    os.makedirs(os.path.join(WORK, "home"))
    rnd = random.Random(3)
    g = [rnd.choice("ACGT") for _ in range(12000)]
    known = [(1001, 1200), (1501, 1700), (2001, 2300)]
    two_exon = [(4001, 4200), (4501, 4800)]
    mixed = [(7001, 7200), (7501, 7700), (8001, 8200), (8501, 8800)]
    plant(g, (1201, 1500), "GT", "AG")
    plant(g, (1701, 2000), "GT", "AG")
    plant(g, (4201, 4500), "AA", "AA")
    plant(g, (7201, 7500), "GT", "AG")
    plant(g, (7701, 8000), "GT", "AG")
    plant(g, (8201, 8500), "CT", "AC")
    fasta = os.path.join(WORK, "genome.fa")
    with open(fasta, "w") as f:
        f.write(">chr1\n")
        s = "".join(g)
        for i in range(0, len(s), 60):
            f.write(s[i:i + 60] + "\n")
    gtf = os.path.join(WORK, "annot.gtf")
    with open(gtf, "w") as f:
        f.write('chr1\ttest\tgene\t1001\t2300\t.\t+\t.\tgene_id "GA";\n')
        f.write('chr1\ttest\ttranscript\t1001\t2300\t.\t+\t.\tgene_id "GA"; transcript_id "TA1";\n')
        for e in known:
            f.write('chr1\ttest\texon\t%d\t%d\t.\t+\t.\tgene_id "GA"; transcript_id "TA1";\n' % e)

    header = pysam.AlignmentHeader.from_dict({"HD": {"VN": "1.6", "SO": "coordinate"},
                                              "SQ": [{"SN": "chr1", "LN": len(g)}]})

    def mk(name, exons):
        a = pysam.AlignedSegment(header)
        a.query_name = name
        a.reference_id = 0
        a.reference_start = exons[0][0] - 1
        cig, seq = [], ""
        for i, e in enumerate(exons):
            if i:
                cig.append((3, e[0] - exons[i - 1][1] - 1))
            cig.append((0, e[1] - e[0] + 1))
            seq += "".join(g[e[0] - 1:e[1]])
        cig.append((4, 30))
        seq += "A" * 30
        a.cigartuples = cig
        a.flag = 0
        a.mapping_quality = 60
        a.query_sequence = seq
        a.query_qualities = pysam.qualitystring_to_array("I" * len(seq))
        return a

    reads = [mk("known%d" % k, known) for k in range(5)] + [mk("two%d" % k, two_exon) for k in range(8)] + \
            [mk("mixed%d" % k, mixed) for k in range(8)]
    reads.sort(key=lambda r: r.reference_start)
    bam = os.path.join(WORK, "reads.bam")
    with pysam.AlignmentFile(bam, "wb", header=header) as f:
        for r in reads:
            f.write(r)
    pysam.index(bam)

    env = dict(os.environ)
    env["HOME"] = os.path.join(WORK, "home")
    results = {}
    for label, extra in (("all", ["--report_canonical", "all"]), ("default", []), ("auto", ["--report_canonical", "auto"])):
        out = os.path.join(WORK, "out_" + label)
        cmd = [PY, ISOQUANT, "--reference", fasta, "--genedb", gtf, "--complete_genedb", "--bam", bam,
               "--data_type", "nanopore", "-o", out, "--threads", "1", "--no_gzip", "--check_canonical"] + extra
        p = subprocess.run(cmd, env=env, stdout=subprocess.PIPE, stderr=subprocess.STDOUT, text=True)
        if p.returncode != 0:
            print(p.stdout[-3000:])
            print("IsoQuant failed, cannot judge")
            return 2
        level = [l.split("level:")[1].strip() for l in p.stdout.split("\n") if "Splice site reporting level" in l]
        results[label] = (novel_models(out), level)
        print("%-8s level logged: %s  novel models: %s" % (label, level, results[label][0]))

    bad = 0
    if not any(m[0] == 4001 and m[1] == 4800 for m in results["all"][0]):
        print("(a) --report_canonical all: the 2-exon novel transcript 4001-4800 (8 polyA reads, intron AA..AA) is not reported")
        bad += 1
    if results["default"][0] != results["auto"][0] or results["default"][1] != results["auto"][1]:
        print("(b) a run without --report_canonical differs from a run with the documented default `auto`: %s vs %s" %
              (results["default"], results["auto"]))
        bad += 1
    return 1 if bad else 0


if __name__ == "__main__":
    rc = main()
    shutil.rmtree(WORK, ignore_errors=True)
    sys.exit(rc)
