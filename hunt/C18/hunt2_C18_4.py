#!/usr/bin/env python3
"""
C18, second pass, finding 4 (reporting level, adjacent to the flags themselves): with --report_canonical only_canonical
("report novel transcripts, which contain only canonical splice sites", docs/cmd.md) a novel transcript with a
non-canonical intron IS reported as soon as at least one other intron is canonical: StrandDetector.get_clean_strand
(src/gene_info.py) only requires count_fwd > 0 and count_rev == 0 (or vice versa); introns that are canonical on
neither strand are not counted at all, although the comment above the function says "all splice sites must be canonical
from the same strand, not just the majority".  The written model itself carries Canonical "False".

Input: intergenic novel transcript, 3 exons, introns GT..AG and AA..TT, 8 reads with polyA tails.
Exit 1 when a novel model with Canonical != "True" appears in the output of --report_canonical only_canonical.
"""
import os, sys, random, re, shutil, subprocess
import pysam

REPO = os.path.dirname(os.path.abspath(__file__))
PY = "/venv/bin/python" if os.path.exists("/venv/bin/python") else sys.executable
WD = "/tmp/hunt2scratch_C18/demo4"


def plant(seq, intron, left, right):
    s = list(seq)
    a, b = intron
    s[a - 1:a + 1] = list(left)
    s[b - 2:b] = list(right)
    return "".join(s)


def main():
    shutil.rmtree(WD, ignore_errors=True)
    os.makedirs(WD)
    rng = random.Random(184)
    seq = "".join(rng.choice("ACGT") for _ in range(6000))
    N = [(1000, 1300), (1600, 1900), (2300, 2600)]
    seq = plant(seq, (1301, 1599), "GT", "AG")
    seq = plant(seq, (1901, 2299), "AA", "TT")
    fa = os.path.join(WD, "genome.fa")
    with open(fa, "w") as f:
        f.write(">chr1\n")
        for i in range(0, len(seq), 60):
            f.write(seq[i:i + 60] + "\n")
    bam = os.path.join(WD, "reads.bam")
    header = {"HD": {"VN": "1.0", "SO": "coordinate"}, "SQ": [{"SN": "chr1", "LN": len(seq)}]}
    with pysam.AlignmentFile(bam, "wb", header=header) as out:
        for k in range(8):
            a = pysam.AlignedSegment()
            a.query_name = "n%d" % k
            cigar, s, prev = [], "", None
            for (b, e) in N:
                if prev is not None:
                    cigar.append((3, b - prev - 1))
                cigar.append((0, e - b + 1))
                s += seq[b - 1:e]
                prev = e
            s += "A" * 25
            cigar.append((4, 25))
            a.query_sequence = s
            a.flag = 0
            a.reference_id = 0
            a.reference_start = N[0][0] - 1
            a.mapping_quality = 60
            a.cigar = cigar
            a.query_qualities = pysam.qualitystring_to_array("I" * len(s))
            out.write(a)
    pysam.index(bam)
    env = dict(os.environ)
    env["HOME"] = os.path.join(WD, "home")
    os.makedirs(env["HOME"], exist_ok=True)
    outdir = os.path.join(WD, "out")
    cmd = [PY, os.path.join(REPO, "isoquant.py"), "--reference", fa, "--bam", bam, "--data_type", "nanopore",
           "-o", outdir, "--threads", "1", "--no_gzip", "--check_canonical", "--report_canonical", "only_canonical"]
    p = subprocess.run(cmd, env=env, stdout=subprocess.PIPE, stderr=subprocess.STDOUT, text=True)
    if p.returncode != 0:
        print(p.stdout[-3000:])
        print("IsoQuant failed")
        sys.exit(2)
    problems = []
    for l in open(os.path.join(outdir, "OUT", "OUT.transcript_models.gtf")):
        t = l.rstrip("\n").split("\t")
        if l.startswith("#") or t[2] != "transcript":
            continue
        can = re.findall(r'Canonical "([^"]+)"', t[8])
        print(l.rstrip("\n"))
        if can != ["True"] and can != ["Unspliced"]:
            problems.append("reported at level only_canonical with Canonical %s: %s" % (can, t[8]))
    shutil.rmtree(WD, ignore_errors=True)
    if problems:
        print("VIOLATED (documented meaning of --report_canonical only_canonical):")
        for q in problems:
            print(" - " + q)
        sys.exit(1)
    print("ok")
    sys.exit(0)


if __name__ == "__main__":
    main()
