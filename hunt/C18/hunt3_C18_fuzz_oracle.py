#!/usr/bin/env python3
"""
hunt3 / C18: randomised differential check used during the search (not a finding).
usage: hunt3_C18_fuzz_oracle.py <first seed> <number of seeds> [heavy] [noise]
Builds random genomes / annotations / reads under /tmp/hunt3scratch_C18/fz<seed>, runs isoquant.py (next to this file)
with --check_canonical and a random option set, and recomputes every Canonical flag (reads, both GTFs) and the strand of
every novel spliced model from the FASTA.  Prints "bad: N" per seed; data of clean seeds are removed.
"""
import os, random, subprocess, sys, shutil, glob
import pysam
ISO = os.path.join(os.path.dirname(os.path.abspath(__file__)), "isoquant.py")
PY = "/venv/bin/python"
ROOT = "/tmp/hunt3scratch_C18"

def make_genome(length, seed=1, alphabet="ACGT"):
    rnd = random.Random(seed)
    return [rnd.choice(alphabet) for _ in range(length)]

def plant(g, intron, left, right):
    s, e = intron
    g[s-1:s+1] = list(left)
    g[e-2:e] = list(right)

def scrub(g, intron):
    # make sure intron is non canonical in both
    plant(g, intron, "AA", "AA")

def write_fasta(path, contigs, width=60):
    with open(path, "w") as f:
        for name, g in contigs:
            f.write(">%s\n" % name)
            s = "".join(g)
            for i in range(0, len(s), width):
                f.write(s[i:i+width] + "\n")

def write_gtf(path, genes):
    # genes: list of dict(id, chr, strand, transcripts=[(tid, exons)]), extra attrs optional
    with open(path, "w") as f:
        for g in genes:
            allex = [e for t in g["transcripts"] for e in t[1]]
            gs, ge = min(e[0] for e in allex), max(e[1] for e in allex)
            f.write('%s\ttest\tgene\t%d\t%d\t.\t%s\t.\tgene_id "%s";\n' % (g["chr"], gs, ge, g["strand"], g["id"]))
            for t in g["transcripts"]:
                tid, exons = t[0], t[1]
                extra = t[2] if len(t) > 2 else ""
                f.write('%s\ttest\ttranscript\t%d\t%d\t.\t%s\t.\tgene_id "%s"; transcript_id "%s";%s\n' %
                        (g["chr"], exons[0][0], exons[-1][1], g["strand"], g["id"], tid, extra))
                for i, e in enumerate(exons):
                    f.write('%s\ttest\texon\t%d\t%d\t.\t%s\t.\tgene_id "%s"; transcript_id "%s";\n' %
                            (g["chr"], e[0], e[1], g["strand"], g["id"], tid))

def mk_read(header, name, chrom, exons, genome, reverse=False, polya=0, polyt=0, mapq=60, flag_extra=0, seq=True, tags=None, noise=None):
    a = pysam.AlignedSegment(header)
    a.query_name = name
    a.reference_id = header.get_tid(chrom)
    a.reference_start = exons[0][0] - 1
    cig = []
    s = ""
    if polyt:
        cig.append((4, polyt)); s += "T" * polyt
    for i, e in enumerate(exons):
        if i > 0:
            cig.append((3, e[0] - exons[i-1][1] - 1))
        el = e[1] - e[0] + 1
        es = "".join(genome[e[0]-1:e[1]]).upper().replace("N", "A")
        if noise and el > 30 and noise.random() < 0.5:
            k = noise.choice(["eqx", "ins_end", "ins_start", "del_mid", "pad", "del_end", "del_start"])
            if k == "eqx":
                cig += [(7, 10), (8, 1), (7, el - 11)]; s += es
            elif k == "ins_end":
                cig += [(0, el), (1, 3)]; s += es + "CCC"
            elif k == "ins_start":
                cig += [(1, 3), (0, el)]; s += "CCC" + es
            elif k == "del_mid":
                cig += [(0, 10), (2, 5), (0, el - 15)]; s += es[:10] + es[15:]
            elif k == "pad":
                cig += [(0, 10), (6, 2), (0, el - 10)]; s += es
            elif k == "del_end" and i < len(exons) - 1:
                cig += [(0, el - 4), (2, 4)]; s += es[:el - 4]
            elif k == "del_start" and i > 0:
                cig += [(2, 4), (0, el - 4)]; s += es[4:]
            else:
                cig.append((0, el)); s += es
        else:
            cig.append((0, el)); s += es
    if polya:
        cig.append((4, polya)); s += "A" * polya
    a.cigartuples = cig
    a.flag = (16 if reverse else 0) | flag_extra
    a.mapping_quality = mapq
    if seq:
        a.query_sequence = s
        a.query_qualities = pysam.qualitystring_to_array("I" * len(s))
    if tags:
        for k, v in tags.items():
            a.set_tag(k, v)
    return a

def write_bam(path, contigs, reads_fn):
    header = pysam.AlignmentHeader.from_dict({"HD": {"VN": "1.6", "SO": "coordinate"},
        "SQ": [{"SN": n, "LN": len(g)} for n, g in contigs]})
    reads = reads_fn(header)
    reads.sort(key=lambda r: (r.reference_id, r.reference_start))
    with pysam.AlignmentFile(path, "wb", header=header) as f:
        for r in reads:
            f.write(r)
    pysam.index(path)

def run(workdir, extra, ref="genome.fa", genedb="annot.gtf", bam="reads.bam", out="out", data_type="nanopore", quiet=True):
    home = os.path.join(workdir, "home"); os.makedirs(home, exist_ok=True)
    env = dict(os.environ); env["HOME"] = home
    outdir = os.path.join(workdir, out)
    if os.path.exists(outdir): shutil.rmtree(outdir)
    cmd = [PY, ISO, "--reference", os.path.join(workdir, ref), "--data_type", data_type, "-o", outdir, "--threads", "1", "--no_gzip"]
    if genedb: cmd += ["--genedb", os.path.join(workdir, genedb), "--complete_genedb"]
    if bam: cmd += ["--bam", os.path.join(workdir, bam)]
    cmd += extra
    p = subprocess.run(cmd, env=env, stdout=subprocess.PIPE, stderr=subprocess.STDOUT, text=True)
    if p.returncode != 0 or not quiet:
        print(p.stdout[-3000:])
    return p.returncode, outdir, p.stdout

def show(outdir, pats=("*.read_assignments.tsv", "*.transcript_models.gtf", "*.extended_annotation.gtf")):
    for pat in pats:
        for fn in glob.glob(os.path.join(outdir, "*", pat)):
            print("==", fn)
            for l in open(fn):
                if l.startswith("# "): continue
                print(l.rstrip())


import sys, re, glob
FWD = {("GT", "AG"), ("GC", "AG"), ("AT", "AC")}
REV = {("CT", "AC"), ("CT", "GC"), ("GT", "AT")}
SITES = {'+': sorted(FWD), '-': sorted(REV), 'n': [("AA","AA"),("GT","AA"),("CT","AG"),("NN","AG"),("GT","NG")]}

def sites(g, intron):
    s, e = intron
    return ("".join(g[s-1:s+1]).upper(), "".join(g[e-2:e]).upper())

def intron_strand(g, intron):
    st = sites(g, intron)
    f, r = st in FWD, st in REV
    if f == r: return '.'
    return '+' if f else '-'

def introns_of(exons):
    return [(exons[i][1]+1, exons[i+1][0]-1) for i in range(len(exons)-1)]

def expected_canonical(g, exons, strand):
    ins = introns_of(exons)
    if not ins: return "Unspliced"
    S = FWD if strand == '+' else REV
    return str(all(sites(g, i) in S for i in ins))

def gen_case(rnd, w, opts):
    contigs = []
    genes = []
    readspecs = []  # (name, chrom, exons, reverse, polya, polyt)
    ncont = rnd.choice([1, 2, 3])
    for ci in range(ncont):
        L = rnd.choice([6000, 12000, 45000]) if not opts.get('heavy') else rnd.choice([60000, 120000])
        g = make_genome(L, rnd.randrange(10**9))
        cname = "chr%d" % (ci + 1)
        contigs.append((cname, g))
        if rnd.random() < 0.15 and ci > 0:
            continue  # contig without genes/reads
        pos = rnd.choice([1, 1, 50, 300])
        gi = 0
        planted = []
        while pos < L - 3000:
            gi += 1
            strand = rnd.choice("+-")
            nex = rnd.randint(1, 6)
            exons = []
            p = pos
            for k in range(nex):
                el = rnd.randint(40, 300)
                exons.append((p, p + el - 1))
                p += el + (rnd.randint(70, 900) if not opts.get('heavy') or rnd.random() < 0.5 else rnd.randint(3000, 14000))
                if p > L - 400: break
            if exons[-1][1] > L - 1: break
            for i in introns_of(exons):
                kind = strand if rnd.random() < 0.8 else rnd.choice(['+', '-', 'n'])
                planted.append((i, rnd.choice(SITES[kind])))
            gid = "G%d_%d" % (ci + 1, gi)
            trs = [(gid + "_T1", exons)]
            if len(exons) >= 3 and rnd.random() < 0.6:
                sk = rnd.randrange(1, len(exons) - 1)
                ex2 = exons[:sk] + exons[sk+1:]
                planted.append((introns_of(ex2)[sk-1], rnd.choice(SITES[strand])))
                trs.append((gid + "_T2", ex2))
            if rnd.random() < 0.8 or opts.get("noannot"):
                genes.append(dict(id=gid, chr=cname, strand=strand, transcripts=trs))
            # reads
            variants = []
            for t in trs:
                variants.append(t[1])
            for _ in range(rnd.randint(0, 3)):
                base = list(rnd.choice(trs)[1])
                mode = rnd.choice(["skip", "shift", "newterm", "trunc", "mono"])
                if mode == "skip" and len(base) >= 3:
                    sk = rnd.randrange(1, len(base) - 1)
                    base = base[:sk] + base[sk+1:]
                    planted.append((introns_of(base)[sk-1], rnd.choice(SITES[rnd.choice('+-n')])))
                elif mode == "shift" and len(base) >= 2:
                    k = rnd.randrange(len(base) - 1)
                    d = rnd.randint(15, 35)
                    if base[k][1] - d > base[k][0] + 20:
                        base[k] = (base[k][0], base[k][1] - d)
                        planted.append((introns_of(base)[k], rnd.choice(SITES[rnd.choice('+-n')])))
                elif mode == "newterm":
                    if rnd.random() < 0.5:
                        ns = base[-1][1] + rnd.randint(100, 400)
                        ne = ns + rnd.randint(60, 200)
                        if ne < L - 50:
                            base = base + [(ns, ne)]
                            planted.append((introns_of(base)[-1], rnd.choice(SITES[rnd.choice('+-n')])))
                    else:
                        ne = base[0][0] - rnd.randint(100, 400)
                        ns = ne - rnd.randint(60, 200)
                        if ns > 1:
                            base = [(ns, ne)] + base
                            planted.append((introns_of(base)[0], rnd.choice(SITES[rnd.choice('+-n')])))
                elif mode == "trunc" and len(base) >= 3:
                    base = base[1:]
                elif mode == "mono":
                    e = rnd.choice(base)
                    base = [e]
                variants.append(base)
            for vi, v in enumerate(variants):
                n = rnd.choice([1, 3, 6, 10]) * (rnd.choice([1, 30, 120]) if opts.get('heavy') else 1)
                tailmode = rnd.choice(["right", "right", "none", "wrong", "both"])
                for k in range(n):
                    pa = pt = 0
                    if tailmode == "right":
                        if strand == '+': pa = 30
                        else: pt = 30
                    elif tailmode == "wrong":
                        if strand == '+': pt = 30
                        else: pa = 30
                    elif tailmode == "both":
                        pa = pt = 30
                    readspecs.append(("r_%s_%d_%d" % (gid, vi, k), cname, v, rnd.random() < 0.5, pa, pt))
            pos = max(p, exons[-1][1]) + rnd.choice([-200, 100, 500, 3000, 12000]) if exons else pos + 1000
            pos = max(pos, 1)
        rnd.shuffle(planted)
        for i, st in planted:
            plant(g, i, st[0], st[1])
        if rnd.random() < 0.3:
            # soft-mask a random stretch
            a = rnd.randrange(0, L - 500); b = a + rnd.randint(100, 3000)
            g[a:b] = [c.lower() for c in g[a:b]]
    write_fasta(w + "/genome.fa", contigs, width=rnd.choice([50, 60, 80]))
    write_gtf(w + "/annot.gtf", genes)
    gd = dict(contigs)
    def reads(h):
        return [mk_read(h, n, c, ex, gd[c], reverse=rev, polya=pa, polyt=pt, noise=rnd if opts.get('noise') else None, seq=(rnd.random() > 0.1 or not opts.get('noise')), mapq=(60 if not opts.get('noise') else rnd.choice([60,60,60,20,5,0])), flag_extra=(0 if not opts.get('noise') else rnd.choice([0,0,0,0,256,2048]))) for (n, c, ex, rev, pa, pt) in readspecs]
    write_bam(w + "/reads.bam", contigs, reads)
    return gd, genes

def parse_exons(s):
    return [tuple(map(int, x.split("-"))) for x in s.split(",")]

def check(out, gd, genes, tag):
    bad = []
    for fn in glob.glob(out + "/*/*.read_assignments.tsv"):
        for l in open(fn):
            if l.startswith("#"): continue
            f = l.rstrip("\n").split("\t")
            m = re.search(r"Canonical=(\w+);", f[8])
            if not m:
                if f[3] != '.': bad.append(("read-missing", f[0], f[1], f[2], f[3], f[7]))
                continue
            if f[2] == '.': continue
            exp = expected_canonical(gd[f[1]], parse_exons(f[7]), f[2])
            if exp != m.group(1):
                bad.append(("read", f[0], f[1], f[2], f[7], m.group(1), exp))
    annot_introns = {}
    for ge in genes:
        for t in ge["transcripts"]:
            for i in introns_of(t[1]):
                annot_introns.setdefault((ge["chr"], i), set()).add(ge["strand"])
    for fn in glob.glob(out + "/*/*.gtf"):
        trs = {}
        for l in open(fn):
            if l.startswith("#"): continue
            f = l.rstrip("\n").split("\t")
            tid = re.search(r'transcript_id "([^"]+)"', f[8])
            if f[2] == "transcript":
                can = re.findall(r'Canonical "(\w+)"', f[8])
                trs[tid.group(1)] = dict(chr=f[0], strand=f[6], can=can, exons=[], line=l)
            elif f[2] == "exon":
                trs[tid.group(1)]["exons"].append((int(f[3]), int(f[4])))
        for tid, t in trs.items():
            t["exons"].sort()
            if len(t["can"]) != 1:
                bad.append(("model-ncan", os.path.basename(fn), tid, t["can"]))
                continue
            if t["strand"] != '.':
                exp = expected_canonical(gd[t["chr"]], t["exons"], t["strand"])
                if exp != t["can"][0]:
                    bad.append(("model", os.path.basename(fn), tid, t["strand"], t["exons"], t["can"][0], exp))
            if tid.endswith("nic") and len(t["exons"]) > 1:
                fw = rv = 0
                for i in introns_of(t["exons"]):
                    k = (t["chr"], i)
                    if k in annot_introns and len(annot_introns[k]) == 1:
                        s = list(annot_introns[k])[0]
                    else:
                        s = intron_strand(gd[t["chr"]], i)
                    fw += s == '+'; rv += s == '-'
                if fw != rv:
                    exp = '+' if fw > rv else '-'
                    if exp != t["strand"]:
                        bad.append(("strand", os.path.basename(fn), tid, t["strand"], t["exons"], fw, rv))
    return bad

if __name__ == "__main__":
    seed0 = int(sys.argv[1]); n = int(sys.argv[2])
    optsets = [
        ["--report_canonical", "all"],
        ["--report_canonical", "all", "--model_construction_strategy", "all"],
        ["--report_canonical", "all", "--sqanti_output", "--count_exons"],
        ["--report_canonical", "only_stranded", "--data_type", "pacbio_ccs"],
        ["--report_canonical", "all", "--data_type", "assembly"],
        ["--report_canonical", "all", "--model_construction_strategy", "sensitive_ont", "--report_novel_unspliced", "true", "--polya_requirement", "never"],
        ["--report_canonical", "all", "--matching_strategy", "loose", "--high_memory"],
        ["--report_canonical", "all", "--fl_data", "--model_construction_strategy", "fl_pacbio"],
        ["--report_canonical", "all", "--threads", "3"],
    ]
    for s in range(seed0, seed0 + n):
        rnd = random.Random(s)
        w = ROOT + "/fz%d" % s
        if os.path.exists(w): shutil.rmtree(w)
        os.makedirs(w)
        noannot = rnd.random() < 0.15
        gd, genes = gen_case(rnd, w, dict(noannot=noannot, heavy='heavy' in sys.argv, noise='noise' in sys.argv))
        extra = ["--check_canonical"] + rnd.choice(optsets)
        rc, out, log = run(w, extra, genedb=None if (noannot or not genes) else "annot.gtf")
        if rc != 0:
            print("SEED", s, "CRASH rc", rc, extra)
            continue
        bad = check(out, gd, [] if noannot else genes, s)
        nm = sum(1 for fn in glob.glob(out + "/*/*.transcript_models.gtf") for l in open(fn) if "\ttranscript\t" in l and "nic" in l)
        nr = sum(1 for fn in glob.glob(out + "/*/*.read_assignments.tsv") for l in open(fn) if "Canonical=" in l)
        print("SEED", s, extra, "novel models", nm, "reads", nr, "bad:", len(bad))
        for b in bad[:6]: print("   ", b)
        if not bad: shutil.rmtree(w)
