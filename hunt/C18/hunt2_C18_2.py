#!/usr/bin/env python3
"""
C18, second pass, finding 2: a `Canonical` attribute that is already present in the input annotation is copied
verbatim to the output transcript (and exon) lines, next to the freshly computed one.  The output then carries two
`Canonical` attributes, and the copied one is not a function of the reference FASTA of THIS run.

Scenario (sequence of runs, all inputs valid):
  run 1: reference v1 has a SNP in the donor site of the first intron of T1 (GA..AG) -> OUT.extended_annotation.gtf says
         T1 Canonical "False" (correct for v1).
  run 2: that extended annotation (IsoQuant's own output, docs/output.md) is used as --genedb together with the
         patched reference v2 (same coordinates, donor is GT again).  Every intron of T1 is now GT..AG on '+', so the
         only correct value is "True".
  Observed in run 2:  ... transcript_id "T1"; Canonical "True"; exons "3"; Canonical "False";
  (parsers that keep the last value of a repeated key read "False"; the exon lines of T1 get Canonical "False" too).
  Even with an unchanged reference every transcript line of run 2 carries the attribute twice.

Responsible: GeneInfo.set_gene_attributes (src/gene_info.py) passes every transcript attribute through except a fixed
list ('exons' is excluded there exactly because IsoQuant adds it itself - 'Canonical' was forgotten);
GFFPrinter.dump (src/transcript_printer.py) appends that string after model.additional_attributes_str().

Exit 1 when the output of run 2 has a transcript whose Canonical attributes are not exactly [oracle value].
"""
import os, sys, random, re, shutil, subprocess
import pysam

REPO = os.path.dirname(os.path.abspath(__file__))
PY = "/venv/bin/python" if os.path.exists("/venv/bin/python") else sys.executable
WD = "/tmp/hunt2scratch_C18/demo2"
FWD = {("GT", "AG"), ("GC", "AG"), ("AT", "AC")}
REV = {("CT", "AC"), ("CT", "GC"), ("GT", "AT")}


def plant(seq, intron, left, right):
    s = list(seq)
    a, b = intron
    s[a - 1:a + 1] = list(left)
    s[b - 2:b] = list(right)
    return "".join(s)


def introns_of(ex):
    return [(ex[i][1] + 1, ex[i + 1][0] - 1) for i in range(len(ex) - 1)]


def write_fasta(path, seq):
    with open(path, "w") as f:
        f.write(">chr1\n")
        for i in range(0, len(seq), 60):
            f.write(seq[i:i + 60] + "\n")


def write_bam(path, seq, reads):
    header = {"HD": {"VN": "1.0", "SO": "coordinate"}, "SQ": [{"SN": "chr1", "LN": len(seq)}]}
    with pysam.AlignmentFile(path, "wb", header=header) as out:
        for rname, exons in sorted(reads, key=lambda r: r[1][0][0]):
            a = pysam.AlignedSegment()
            a.query_name = rname
            cigar, s, prev = [], "", None
            for (b, e) in exons:
                if prev is not None:
                    cigar.append((3, b - prev - 1))
                cigar.append((0, e - b + 1))
                s += seq[b - 1:e]
                prev = e
            s += "A" * 25
            cigar.append((4, 25))
            a.query_sequence = s
            a.flag = 0
            a.reference_id = 0
            a.reference_start = exons[0][0] - 1
            a.mapping_quality = 60
            a.cigar = cigar
            a.query_qualities = pysam.qualitystring_to_array("I" * len(s))
            out.write(a)
    pysam.index(path)


def run(fa, bam, gtf, out):
    env = dict(os.environ)
    env["HOME"] = os.path.join(WD, "home")
    os.makedirs(env["HOME"], exist_ok=True)
    cmd = [PY, os.path.join(REPO, "isoquant.py"), "--reference", fa, "--genedb", gtf, "--complete_genedb",
           "--bam", bam, "--data_type", "nanopore", "-o", out, "--threads", "1", "--no_gzip", "--check_canonical"]
    p = subprocess.run(cmd, env=env, stdout=subprocess.PIPE, stderr=subprocess.STDOUT, text=True)
    if p.returncode != 0:
        print(p.stdout[-3000:])
        print("IsoQuant failed")
        sys.exit(2)


def transcripts(path):
    res = {}
    for l in open(path):
        t = l.rstrip("\n").split("\t")
        if l.startswith("#") or len(t) < 9:
            continue
        tid = re.search(r'transcript_id "([^"]+)"', t[8])
        if not tid:
            continue
        tid = tid.group(1)
        rec = res.setdefault(tid, dict(strand=t[6], exons=[], canonical=None, line=None))
        if t[2] == "transcript":
            rec["canonical"] = re.findall(r'Canonical "([^"]+)"', t[8])
            rec["line"] = l.rstrip("\n")
        elif t[2] == "exon":
            rec["exons"].append((int(t[3]), int(t[4])))
    return res


def oracle(seq, exons, strand):
    exons = sorted(exons)
    introns = introns_of(exons)
    if not introns:
        return "Unspliced"
    motifs = FWD if strand == "+" else REV if strand == "-" else set()
    return str(all((seq[a - 1:a + 1].upper(), seq[b - 2:b].upper()) in motifs for a, b in introns))


def main():
    shutil.rmtree(WD, ignore_errors=True)
    os.makedirs(WD)
    rng = random.Random(182)
    seq = "".join(rng.choice("ACGT") for _ in range(8000))
    T1 = [(1000, 1300), (1600, 1900), (2300, 2600)]
    NOV = [(1000, 1300), (2300, 2600)]
    for i in introns_of(T1) + introns_of(NOV):
        seq = plant(seq, i, "GT", "AG")
    v2 = seq
    v1 = plant(seq, (1301, 1599), "GA", "AG")      # SNP in the donor of the first intron of T1 (and of NOV)
    fa1, fa2 = os.path.join(WD, "genome_v1.fa"), os.path.join(WD, "genome_v2.fa")
    write_fasta(fa1, v1)
    write_fasta(fa2, v2)
    gtf = os.path.join(WD, "annot.gtf")
    with open(gtf, "w") as f:
        f.write('chr1\ttest\tgene\t1000\t2600\t.\t+\t.\tgene_id "G1";\n')
        f.write('chr1\ttest\ttranscript\t1000\t2600\t.\t+\t.\tgene_id "G1"; transcript_id "T1";\n')
        for e in T1:
            f.write('chr1\ttest\texon\t%d\t%d\t.\t+\t.\tgene_id "G1"; transcript_id "T1";\n' % e)
    reads = [("k%d" % k, T1) for k in range(5)] + [("n%d" % k, NOV) for k in range(6)]
    bam1, bam2 = os.path.join(WD, "reads_v1.bam"), os.path.join(WD, "reads_v2.bam")
    write_bam(bam1, v1, reads)
    write_bam(bam2, v2, reads)

    out1 = os.path.join(WD, "run1")
    run(fa1, bam1, gtf, out1)
    ext1 = os.path.join(out1, "OUT", "OUT.extended_annotation.gtf")
    t_run1 = transcripts(ext1)
    print("run 1 (reference v1): " + ", ".join("%s %s" % (t, r["canonical"]) for t, r in sorted(t_run1.items())))
    for t, r in t_run1.items():
        if r["canonical"] != [oracle(v1, r["exons"], r["strand"])]:
            print("unexpected: run 1 is already wrong for " + t)

    gtf2 = os.path.join(WD, "annot_from_run1.gtf")
    shutil.copy(ext1, gtf2)
    out2 = os.path.join(WD, "run2")
    run(fa2, bam2, gtf2, out2)

    problems = []
    for fname in ("OUT.transcript_models.gtf", "OUT.extended_annotation.gtf"):
        for t, r in sorted(transcripts(os.path.join(out2, "OUT", fname)).items()):
            exp = oracle(v2, r["exons"], r["strand"])
            if r["canonical"] != [exp]:
                problems.append("%s: %s has Canonical attributes %s, the reference of this run implies exactly [%r]\n      %s"
                                % (fname, t, r["canonical"], exp, r["line"]))
    shutil.rmtree(WD, ignore_errors=True)
    if problems:
        print("PROPERTY C18 VIOLATED in run 2 (reference v2, annotation = extended annotation of run 1):")
        for p in problems:
            print(" - " + p)
        sys.exit(1)
    print("ok: every transcript has exactly one Canonical attribute and it matches the reference")
    sys.exit(0)


if __name__ == "__main__":
    main()
