#!/venv/bin/python
"""
C18 finding 2: with --check_canonical, one read aligned from the very first base of a contig makes the Canonical
flag of ALL reads and the Canonical attribute of ALL transcript models of that read cluster disappear
(OUT.read_assignments.tsv, OUT.transcript_models.gtf), although every intron is GT..AG on the reported strand.

Cause: the processed region is kept 0-based (alignment.reference_start == 0) but GeneInfo.set_reference_sequence()
treats it as 1-based and slices chr_record[start - 1:end] = chr_record[-1:end], which is the empty string.
An empty reference_region is "falsy", so BasicTSVAssignmentPrinter.add_read_info() and
IOSupport.add_canonical_info_for_model() silently skip the check.

Run A: reads r0..r2 (chr1, start at base 2) and n0..n3 (ctg2, intergenic, start at base 2).
Run B: the same reads plus one read per contig that starts at base 1.
The flags of r0..r2 / of the known model T1 / of the novel model on ctg2 must not depend on the extra reads.

exit 1 = property violated, exit 0 = not violated.
"""
import os
import random
import shutil
import subprocess
import sys

import pysam

REPO = os.path.dirname(os.path.abspath(__file__))
SCRATCH = "/tmp/huntscratch_C18/hunt2"
PY = "/venv/bin/python"
CONTIGS = [("chr1", 20000), ("ctg2", 5000)]


def set_site(seq, intron, left, right):
    s, e = intron
    seq[s - 1], seq[s] = left
    seq[e - 2], seq[e - 1] = right


def make_read(name, ref_id, seq, exons, polya=30):
    bases, cigar, prev = "", [], None
    for s, e in exons:
        if prev is not None:
            cigar.append((3, s - prev - 1))
        cigar.append((0, e - s + 1))
        bases += "".join(seq[s - 1:e])
        prev = e
    bases += "A" * polya
    cigar.append((4, polya))
    a = pysam.AlignedSegment()
    a.query_name = name
    a.query_sequence = bases
    a.flag = 0
    a.reference_id = ref_id
    a.reference_start = exons[0][0] - 1
    a.mapping_quality = 60
    a.cigartuples = cigar
    a.query_qualities = pysam.qualitystring_to_array("I" * len(bases))
    return a


def build_and_run(label, with_first_base_reads):
    wd = os.path.join(SCRATCH, label)
    os.makedirs(os.path.join(wd, "home"))
    seqs = []
    for (name, length), seed in zip(CONTIGS, (7, 9)):
        rnd = random.Random(seed)
        seq = [rnd.choice("ACGT") for _ in range(length)]
        for i in [(301, 500), (801, 1000)]:
            set_site(seq, i, "GT", "AG")
        seqs.append(seq)
    exons = [(1, 300), (501, 800), (1001, 1300)]      # annotated on chr1 as T1 (+); unannotated on ctg2
    with open(os.path.join(wd, "genome.fa"), "w") as f:
        for (name, length), seq in zip(CONTIGS, seqs):
            f.write(">%s\n" % name)
            s = "".join(seq)
            for i in range(0, length, 60):
                f.write(s[i:i + 60] + "\n")
    with open(os.path.join(wd, "annot.gtf"), "w") as f:
        f.write('chr1\tt\tgene\t1\t1300\t.\t+\t.\tgene_id "G1";\n')
        f.write('chr1\tt\ttranscript\t1\t1300\t.\t+\t.\tgene_id "G1"; transcript_id "T1";\n')
        for s_, e_ in exons:
            f.write('chr1\tt\texon\t%d\t%d\t.\t+\t.\tgene_id "G1"; transcript_id "T1";\n' % (s_, e_))
    shifted = [(2, 300)] + exons[1:]
    reads = [make_read("r%d" % i, 0, seqs[0], shifted) for i in range(3)]
    reads += [make_read("n%d" % i, 1, seqs[1], shifted) for i in range(4)]
    if with_first_base_reads:
        reads.append(make_read("first_chr1", 0, seqs[0], exons))
        reads.append(make_read("first_ctg2", 1, seqs[1], exons))
    reads.sort(key=lambda a: (a.reference_id, a.reference_start))
    header = {"HD": {"VN": "1.0", "SO": "coordinate"}, "SQ": [{"SN": n, "LN": l} for n, l in CONTIGS]}
    bam = os.path.join(wd, "reads.bam")
    with pysam.AlignmentFile(bam, "wb", header=header) as out:
        for a in reads:
            out.write(a)
    pysam.index(bam)

    env = dict(os.environ)
    env["HOME"] = os.path.join(wd, "home")
    cmd = [PY, os.path.join(REPO, "isoquant.py"), "--reference", os.path.join(wd, "genome.fa"),
           "--genedb", os.path.join(wd, "annot.gtf"), "--complete_genedb", "--bam", bam,
           "--data_type", "nanopore", "-o", os.path.join(wd, "out"), "--threads", "1", "--no_gzip",
           "--check_canonical"]
    p = subprocess.run(cmd, env=env, stdout=subprocess.PIPE, stderr=subprocess.STDOUT, text=True)
    if p.returncode != 0:
        print(p.stdout[-3000:])
        raise RuntimeError("IsoQuant failed")

    outd = os.path.join(wd, "out", "OUT")
    read_flags = {}
    for l in open(os.path.join(outd, "OUT.read_assignments.tsv")):
        if l.startswith("#"):
            continue
        t = l.rstrip("\n").split("\t")
        if t[3] != ".":
            flag = [x for x in t[8].split() if x.startswith("Canonical=")]
            read_flags[t[0]] = (t[2], flag[0] if flag else "no Canonical flag")
    model_flags = {}
    for l in open(os.path.join(outd, "OUT.transcript_models.gtf")):
        if l.startswith("#"):
            continue
        t = l.rstrip("\n").split("\t")
        if t[2] == "transcript":
            canon = t[8].split('Canonical "')[1].split('"')[0] if 'Canonical "' in t[8] else "no Canonical attribute"
            # key: contig, strand, number of exons (the model start differs by one base between the runs)
            model_flags[(t[0], t[6], t[8].split('exons "')[1].split('"')[0])] = canon
    return read_flags, model_flags


def main():
    if os.path.exists(SCRATCH):
        shutil.rmtree(SCRATCH)
    os.makedirs(SCRATCH)
    try:
        reads_a, models_a = build_and_run("A", False)
        reads_b, models_b = build_and_run("B", True)
    finally:
        shutil.rmtree(SCRATCH, ignore_errors=True)
        try:
            os.rmdir("/tmp/huntscratch_C18")
        except OSError:
            pass

    print("Every intron is GT..AG in the FASTA, everything is reported on '+', --check_canonical is on.")
    print("run A (no read starts at base 1): reads %s ; models %s" % (reads_a, models_a))
    print("run B (one extra read per contig starts at base 1): reads %s ; models %s" % (reads_b, models_b))
    problems = []
    for label, reads, models in (("A", reads_a, models_a), ("B", reads_b, models_b)):
        for r, (strand, flag) in sorted(reads.items()):
            if flag != "Canonical=True;":
                problems.append("run %s: spliced read %s (strand %s, all introns canonical) has '%s'" %
                                (label, r, strand, flag))
        for m, canon in sorted(models.items()):
            if canon != "True":
                problems.append("run %s: model on %s (strand %s, %s exons, all introns canonical) has %s" %
                                (label, m[0], m[1], m[2], canon))
        if len(models) != 2:
            problems.append("run %s: expected 2 transcript models (T1 and a novel one on ctg2), got %d" %
                            (label, len(models)))
    for r in reads_a:
        if reads_a[r] != reads_b.get(r):
            problems.append("flag of read %s depends on the presence of another read: %s vs %s" %
                            (r, reads_a[r], reads_b.get(r)))
    if problems:
        print("PROPERTY C18 VIOLATED:")
        for p in problems:
            print("  - " + p)
        sys.exit(1)
    print("no violation observed")
    sys.exit(0)


if __name__ == "__main__":
    main()
