#!/usr/bin/env python3
"""
C18, second pass, finding 3: the strand of a novel spliced transcript model is NOT a function of the reference
sequence (plus polyA evidence): introns that also occur in the annotation are counted with the strand of the annotated
gene instead of the strand of their splice sites (GraphBasedModelConstructor.set_gene_properties ->
StrandDetector.set_strand(intron, annotated_strand); StrandDetector.count_canonical_sites then never looks at the FASTA
for these introns).

Input: gene GM is annotated on '-' with exons E1,E2,E3, but both of its introns read GT..AG in the reference (an
annotation entry with the wrong strand, or an antisense transcript sharing the junctions).  Eight reads E1,E2,E3,E4 with
a polyA tail on the right; the new intron E3/E4 is GT..AG as well.

Every piece of sequence evidence says '+': 3 of 3 splice sites are canonical on '+' only, and the polyA tail sits at the
right end.  IsoQuant itself reports the reads with strand '+' and Canonical=True.  Nevertheless the model built from
exactly these reads is written with strand '-' (2 annotated '-' introns out-vote the new one) and Canonical "False",
with default options (also with --report_canonical only_stranded / all, pacbio_ccs, --polya_requirement never).

Exit 1 when a novel spliced model has a strand that differs from the strand on which ALL of its introns are canonical.
"""
import os, sys, random, re, shutil, subprocess
import pysam

REPO = os.path.dirname(os.path.abspath(__file__))
PY = "/venv/bin/python" if os.path.exists("/venv/bin/python") else sys.executable
WD = "/tmp/hunt2scratch_C18/demo3"
FWD = {("GT", "AG"), ("GC", "AG"), ("AT", "AC")}
REV = {("CT", "AC"), ("CT", "GC"), ("GT", "AT")}


def plant(seq, intron, left, right):
    s = list(seq)
    a, b = intron
    s[a - 1:a + 1] = list(left)
    s[b - 2:b] = list(right)
    return "".join(s)


def introns_of(ex):
    return [(ex[i][1] + 1, ex[i + 1][0] - 1) for i in range(len(ex) - 1)]


def main():
    shutil.rmtree(WD, ignore_errors=True)
    os.makedirs(WD)
    rng = random.Random(183)
    seq = "".join(rng.choice("ACGT") for _ in range(12000))
    K = [(6000, 6300), (6600, 6900), (7300, 7600)]
    N = K + [(8000, 8300)]
    for i in introns_of(N):
        seq = plant(seq, i, "GT", "AG")
    fa = os.path.join(WD, "genome.fa")
    with open(fa, "w") as f:
        f.write(">chr1\n")
        for i in range(0, len(seq), 60):
            f.write(seq[i:i + 60] + "\n")
    gtf = os.path.join(WD, "annot.gtf")
    with open(gtf, "w") as f:
        f.write('chr1\ttest\tgene\t6000\t7600\t.\t-\t.\tgene_id "GM";\n')
        f.write('chr1\ttest\ttranscript\t6000\t7600\t.\t-\t.\tgene_id "GM"; transcript_id "GM_T";\n')
        for e in K:
            f.write('chr1\ttest\texon\t%d\t%d\t.\t-\t.\tgene_id "GM"; transcript_id "GM_T";\n' % e)
    bam = os.path.join(WD, "reads.bam")
    header = {"HD": {"VN": "1.0", "SO": "coordinate"}, "SQ": [{"SN": "chr1", "LN": len(seq)}]}
    with pysam.AlignmentFile(bam, "wb", header=header) as out:
        for k in range(8):
            a = pysam.AlignedSegment()
            a.query_name = "n%d" % k
            cigar, s, prev = [], "", None
            for (b, e) in N:
                if prev is not None:
                    cigar.append((3, b - prev - 1))
                cigar.append((0, e - b + 1))
                s += seq[b - 1:e]
                prev = e
            s += "A" * 25
            cigar.append((4, 25))
            a.query_sequence = s
            a.flag = 0 if k % 2 else 16
            a.reference_id = 0
            a.reference_start = N[0][0] - 1
            a.mapping_quality = 60
            a.cigar = cigar
            a.query_qualities = pysam.qualitystring_to_array("I" * len(s))
            out.write(a)
    pysam.index(bam)

    env = dict(os.environ)
    env["HOME"] = os.path.join(WD, "home")
    os.makedirs(env["HOME"], exist_ok=True)
    outdir = os.path.join(WD, "out")
    cmd = [PY, os.path.join(REPO, "isoquant.py"), "--reference", fa, "--genedb", gtf, "--complete_genedb",
           "--bam", bam, "--data_type", "nanopore", "-o", outdir, "--threads", "1", "--no_gzip", "--check_canonical"]
    p = subprocess.run(cmd, env=env, stdout=subprocess.PIPE, stderr=subprocess.STDOUT, text=True)
    if p.returncode != 0:
        print(p.stdout[-3000:])
        print("IsoQuant failed")
        sys.exit(2)

    for l in open(os.path.join(outdir, "OUT", "OUT.read_assignments.tsv")):
        if l.startswith("n0\t"):
            t = l.rstrip("\n").split("\t")
            print("read n0: strand %s, %s, %s" % (t[2], t[6], t[8]))
    models = {}
    for l in open(os.path.join(outdir, "OUT", "OUT.transcript_models.gtf")):
        t = l.rstrip("\n").split("\t")
        if l.startswith("#"):
            continue
        tid = re.search(r'transcript_id "([^"]+)"', t[8])
        if not tid:
            continue
        m = models.setdefault(tid.group(1), dict(strand=t[6], exons=[], canonical=None))
        if t[2] == "transcript":
            m["canonical"] = re.findall(r'Canonical "([^"]+)"', t[8])
        elif t[2] == "exon":
            m["exons"].append((int(t[3]), int(t[4])))
    problems = []
    for tid, m in sorted(models.items()):
        if tid == "GM_T":
            continue
        ex = sorted(m["exons"])
        st = [(seq[a - 1:a + 1], seq[b - 2:b]) for a, b in introns_of(ex)]
        print("model %s: strand %s, Canonical %s, splice sites %s" % (tid, m["strand"], m["canonical"], " ".join("%s..%s" % s for s in st)))
        if st and all(s in FWD for s in st) and m["strand"] != "+":
            problems.append("%s: all %d introns are canonical on '+' only (and the reads carry a polyA tail on the right), "
                            "reported strand is %r with Canonical %s" % (tid, len(st), m["strand"], m["canonical"]))
        if st and all(s in REV for s in st) and m["strand"] != "-":
            problems.append("%s: all introns canonical on '-' only, reported strand %r" % (tid, m["strand"]))
    shutil.rmtree(WD, ignore_errors=True)
    if problems:
        print("PROPERTY C18 VIOLATED:")
        for q in problems:
            print(" - " + q)
        sys.exit(1)
    print("ok (or the novel model was not reported)")
    sys.exit(0)


if __name__ == "__main__":
    main()
