#!/venv/bin/python
"""
C18 finding 1: the Canonical flag of a read and the Canonical attribute of a novel transcript model
depend on how many UNRELATED reads of another gene are in the BAM.

All introns of the reads long0..long2 (and of the novel model built from them) are GT..AG in the FASTA and the
reads/models are reported on '+', so Canonical must be True.  When the reads span more than 32768 bp and the
coverage in between is a "valley" (<= 1% of the maximal coverage seen so far, here 3 reads vs 320 reads of an
upstream gene), AlignmentCollector.split_coverage_regions() cuts the read cluster into two regions.  The long
reads are fetched for both regions; in the second one they start before the region, the reference substring kept
for the canonical check covers only (region U gene span), and IOSupport.check_sites_are_canonical() indexes it
with negative offsets -> wrong dinucleotides -> Canonical=False.
With 20 upstream reads instead of 320 nothing is split and the same reads / the same model get Canonical=True.

exit 1 = property violated, exit 0 = not violated.
"""
import os
import random
import shutil
import subprocess
import sys

import pysam

REPO = os.path.dirname(os.path.abspath(__file__))
SCRATCH = "/tmp/huntscratch_C18/hunt1"
PY = "/venv/bin/python"
L = 70000


def set_site(seq, intron, left, right):
    s, e = intron  # 1-based inclusive intron coordinates
    seq[s - 1], seq[s] = left
    seq[e - 2], seq[e - 1] = right


def make_read(name, seq, exons, polya=30):
    bases, cigar, prev = "", [], None
    for s, e in exons:
        if prev is not None:
            cigar.append((3, s - prev - 1))
        cigar.append((0, e - s + 1))
        bases += "".join(seq[s - 1:e])
        prev = e
    bases += "A" * polya
    cigar.append((4, polya))
    a = pysam.AlignedSegment()
    a.query_name = name
    a.query_sequence = bases
    a.flag = 0
    a.reference_id = 0
    a.reference_start = exons[0][0] - 1
    a.mapping_quality = 60
    a.cigartuples = cigar
    a.query_qualities = pysam.qualitystring_to_array("I" * len(bases))
    return a


def build_and_run(n_upstream):
    wd = os.path.join(SCRATCH, "n%d" % n_upstream)
    os.makedirs(os.path.join(wd, "home"))
    rnd = random.Random(7)
    seq = [rnd.choice("ACGT") for _ in range(L)]
    g0 = [(9001, 9400), (9601, 10200)]                 # highly expressed upstream gene G0
    g1 = [(50001, 50300), (50501, 50800)]              # gene G1
    long_exons = [(10001, 10200), (30001, 30200)] + g1  # novel isoform of G1 with two extra 5' exons
    introns = [(9401, 9600), (10201, 30000), (30201, 50000), (50301, 50500)]
    for i in introns:
        set_site(seq, i, "GT", "AG")                   # every intron is canonical on '+'
    with open(os.path.join(wd, "genome.fa"), "w") as f:
        f.write(">chr1\n")
        s = "".join(seq)
        for i in range(0, L, 60):
            f.write(s[i:i + 60] + "\n")
    with open(os.path.join(wd, "annot.gtf"), "w") as f:
        for gid, tid, exons in (("G0", "T0", g0), ("G1", "T1", g1)):
            f.write('chr1\tt\tgene\t%d\t%d\t.\t+\t.\tgene_id "%s";\n' % (exons[0][0], exons[-1][1], gid))
            f.write('chr1\tt\ttranscript\t%d\t%d\t.\t+\t.\tgene_id "%s"; transcript_id "%s";\n' %
                    (exons[0][0], exons[-1][1], gid, tid))
            for s_, e_ in exons:
                f.write('chr1\tt\texon\t%d\t%d\t.\t+\t.\tgene_id "%s"; transcript_id "%s";\n' % (s_, e_, gid, tid))
    reads = [make_read("up%d" % i, seq, g0) for i in range(n_upstream)]
    reads += [make_read("long%d" % i, seq, long_exons) for i in range(3)]
    reads += [make_read("known1", seq, g1)]
    reads.sort(key=lambda a: a.reference_start)
    header = {"HD": {"VN": "1.0", "SO": "coordinate"}, "SQ": [{"SN": "chr1", "LN": L}]}
    bam = os.path.join(wd, "reads.bam")
    with pysam.AlignmentFile(bam, "wb", header=header) as out:
        for a in reads:
            out.write(a)
    pysam.index(bam)

    env = dict(os.environ)
    env["HOME"] = os.path.join(wd, "home")
    cmd = [PY, os.path.join(REPO, "isoquant.py"), "--reference", os.path.join(wd, "genome.fa"),
           "--genedb", os.path.join(wd, "annot.gtf"), "--complete_genedb", "--bam", bam,
           "--data_type", "nanopore", "-o", os.path.join(wd, "out"), "--threads", "1", "--no_gzip",
           "--check_canonical"]
    p = subprocess.run(cmd, env=env, stdout=subprocess.PIPE, stderr=subprocess.STDOUT, text=True)
    if p.returncode != 0:
        print(p.stdout[-3000:])
        raise RuntimeError("IsoQuant failed")

    outd = os.path.join(wd, "out", "OUT")
    read_flags = {}
    for l in open(os.path.join(outd, "OUT.read_assignments.tsv")):
        if l.startswith("#"):
            continue
        t = l.rstrip("\n").split("\t")
        if t[0].startswith("long"):
            flag = [x for x in t[8].split() if x.startswith("Canonical=")]
            read_flags[t[0]] = (t[2], t[7], flag[0] if flag else "no Canonical flag")
    model_flags = {}
    for l in open(os.path.join(outd, "OUT.transcript_models.gtf")):
        if l.startswith("#"):
            continue
        t = l.rstrip("\n").split("\t")
        if t[2] == "transcript" and "nnic" in t[8]:
            canon = t[8].split('Canonical "')[1].split('"')[0] if 'Canonical "' in t[8] else "missing"
            model_flags[(int(t[3]), int(t[4]), t[6])] = canon
    return read_flags, model_flags


def main():
    if os.path.exists(SCRATCH):
        shutil.rmtree(SCRATCH)
    os.makedirs(SCRATCH)
    try:
        few_reads, few_models = build_and_run(20)
        many_reads, many_models = build_and_run(320)
    finally:
        shutil.rmtree(SCRATCH, ignore_errors=True)
        try:
            os.rmdir("/tmp/huntscratch_C18")
        except OSError:
            pass

    print("All introns of long0..long2 are GT..AG in the FASTA; reads and model are reported on '+'.")
    print("20 unrelated upstream reads : reads %s ; novel models %s" % (few_reads, few_models))
    print("320 unrelated upstream reads: reads %s ; novel models %s" % (many_reads, many_models))
    problems = []
    for label, reads, models in (("20", few_reads, few_models), ("320", many_reads, many_models)):
        if len(reads) != 3:
            problems.append("run with %s upstream reads: expected 3 long reads in the output, got %d" % (label, len(reads)))
        for r, (strand, exons, flag) in sorted(reads.items()):
            if strand == "+" and flag != "Canonical=True;":
                problems.append("run with %s upstream reads: read %s (strand +, all introns GT..AG) has '%s'" %
                                (label, r, flag))
        for m, canon in models.items():
            if m[2] == "+" and canon != "True":
                problems.append("run with %s upstream reads: novel model %s (all introns GT..AG) has Canonical \"%s\"" %
                                (label, str(m), canon))
    if few_reads != many_reads or few_models != many_models:
        problems.append("Canonical flags of the same reads / the same model differ between the two runs, "
                        "which differ only in the number of unrelated reads of gene G0")
    if problems:
        print("PROPERTY C18 VIOLATED:")
        for p in problems:
            print("  - " + p)
        sys.exit(1)
    print("no violation observed")
    sys.exit(0)


if __name__ == "__main__":
    main()
