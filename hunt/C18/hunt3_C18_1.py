#!/usr/bin/env python3
"""
hunt3 / C18 / demonstration 1  (BORDERLINE: filter level, not the value of the flag)

`--report_canonical only_canonical` is documented (docs/cmd.md) as "report novel transcripts, which contain
only canonical splice sites", and the comment above StrandDetector.get_clean_strand (src/gene_info.py:720) says
"all splice sites must be canonical from the same strand, not just the majority".  get_clean_strand, however, only
looks at the introns that ARE canonical (count_fwd > 0 and count_rev == 0 -> '+'); introns that are canonical on
neither strand are ignored.  A novel transcript with one GT-AG intron and one AA-AA intron therefore passes the
only_canonical level and is written with  Canonical "False".

The Canonical attribute itself is right (False); what is broken is the --report_canonical level the property
quantifies over: at level only_canonical a novel model is reported whose own Canonical attribute is False.

exit 1 = behaviour present, exit 0 = not present.
"""
import os
import random
import re
import shutil
import subprocess
import sys

import pysam

HERE = os.path.dirname(os.path.abspath(__file__))
ISOQUANT = os.path.join(HERE, "isoquant.py")
PY = "/venv/bin/python"
WORK = "/tmp/hunt3scratch_C18/demo1"

FWD = {("GT", "AG"), ("GC", "AG"), ("AT", "AC")}
REV = {("CT", "AC"), ("CT", "GC"), ("GT", "AT")}


def plant(g, intron, left, right):
    s, e = intron
    g[s - 1:s + 1] = list(left)
    g[e - 2:e] = list(right)


def sites(g, intron):
    s, e = intron
    return "".join(g[s - 1:s + 1]).upper(), "".join(g[e - 2:e]).upper()


def main():
    shutil.rmtree(WORK, ignore_errors=True)
    os.makedirs(os.path.join(WORK, "home"))
    rnd = random.Random(3)
    g = [rnd.choice("ACGT") for _ in range(9000)]
    known = [(1001, 1200), (1501, 1700), (2001, 2300)]
    novel = [(5001, 5200), (5501, 5700), (6001, 6300)]
    plant(g, (1201, 1500), "GT", "AG")
    plant(g, (1701, 2000), "GT", "AG")
    plant(g, (5201, 5500), "GT", "AG")   # canonical on +
    plant(g, (5701, 6000), "AA", "AA")   # canonical on neither strand
    fasta = os.path.join(WORK, "genome.fa")
    with open(fasta, "w") as f:
        f.write(">chr1\n")
        s = "".join(g)
        for i in range(0, len(s), 60):
            f.write(s[i:i + 60] + "\n")
    gtf = os.path.join(WORK, "annot.gtf")
    with open(gtf, "w") as f:
        f.write('chr1\ttest\tgene\t1001\t2300\t.\t+\t.\tgene_id "GA";\n')
        f.write('chr1\ttest\ttranscript\t1001\t2300\t.\t+\t.\tgene_id "GA"; transcript_id "TA1";\n')
        for e in known:
            f.write('chr1\ttest\texon\t%d\t%d\t.\t+\t.\tgene_id "GA"; transcript_id "TA1";\n' % e)

    header = pysam.AlignmentHeader.from_dict({"HD": {"VN": "1.6", "SO": "coordinate"},
                                              "SQ": [{"SN": "chr1", "LN": len(g)}]})

    def mk(name, exons):
        a = pysam.AlignedSegment(header)
        a.query_name = name
        a.reference_id = 0
        a.reference_start = exons[0][0] - 1
        cig, seq = [], ""
        for i, e in enumerate(exons):
            if i:
                cig.append((3, e[0] - exons[i - 1][1] - 1))
            cig.append((0, e[1] - e[0] + 1))
            seq += "".join(g[e[0] - 1:e[1]])
        cig.append((4, 30))
        seq += "A" * 30
        a.cigartuples = cig
        a.flag = 0
        a.mapping_quality = 60
        a.query_sequence = seq
        a.query_qualities = pysam.qualitystring_to_array("I" * len(seq))
        return a

    reads = [mk("known%d" % k, known) for k in range(5)] + [mk("novel%d" % k, novel) for k in range(6)]
    reads.sort(key=lambda r: r.reference_start)
    bam = os.path.join(WORK, "reads.bam")
    with pysam.AlignmentFile(bam, "wb", header=header) as f:
        for r in reads:
            f.write(r)
    pysam.index(bam)

    out = os.path.join(WORK, "out")
    env = dict(os.environ)
    env["HOME"] = os.path.join(WORK, "home")
    cmd = [PY, ISOQUANT, "--reference", fasta, "--genedb", gtf, "--complete_genedb", "--bam", bam,
           "--data_type", "nanopore", "-o", out, "--threads", "1", "--no_gzip",
           "--check_canonical", "--report_canonical", "only_canonical"]
    p = subprocess.run(cmd, env=env, stdout=subprocess.PIPE, stderr=subprocess.STDOUT, text=True)
    if p.returncode != 0:
        print(p.stdout[-3000:])
        print("IsoQuant failed, cannot judge")
        return 2

    print("splice sites in the FASTA: intron 5201-5500 %s, intron 5701-6000 %s" %
          (sites(g, (5201, 5500)), sites(g, (5701, 6000))))
    assert sites(g, (5701, 6000)) not in FWD and sites(g, (5701, 6000)) not in REV
    offending = []
    for l in open(os.path.join(out, "OUT", "OUT.transcript_models.gtf")):
        f = l.rstrip("\n").split("\t")
        if len(f) < 9 or f[2] != "transcript":
            continue
        tid = re.search(r'transcript_id "([^"]+)"', f[8]).group(1)
        can = re.search(r'Canonical "(\w+)"', f[8])
        if tid.endswith("nic") and can and can.group(1) == "False":
            offending.append(l.rstrip("\n"))
    if offending:
        print("VIOLATION: --report_canonical only_canonical reported novel transcript(s) with a non-canonical intron:")
        for l in offending:
            print("   " + l)
        return 1
    print("ok: no novel transcript with Canonical \"False\" at level only_canonical")
    return 0


if __name__ == "__main__":
    rc = main()
    shutil.rmtree(WORK, ignore_errors=True)
    sys.exit(rc)
