#!/usr/bin/env python3
"""
hunt3 / C18 / demonstration 2  (BORDERLINE: concerns the all_canonical column of the SQANTI-like table)

With --check_canonical --sqanti_output a novel mono-exonic transcript model gets  Canonical "Unspliced"  in
OUT.transcript_models.gtf, but the SQANTI-like table OUT.novel_vs_known.SQANTI-like.tsv reports all_canonical = True
for the very same model (the neighbouring column `bite` of the same row does say "Unspliced").
SqantiTSVPrinter.add_read_info (src/assignment_io.py:436-439) calls check_sites_are_canonical() with an empty intron
list, which returns True; the mono-exonic case that BasicTSVAssignmentPrinter (line 295) and
add_canonical_info_for_model (line 573) handle is missing.

The statement asks for "Unspliced for mono-exonic records"; whether the all_canonical column counts as "the Canonical
attribute of a transcript model" is a matter of interpretation.

exit 1 = behaviour present, exit 0 = not present.
"""
import os
import random
import re
import shutil
import subprocess
import sys

import pysam

HERE = os.path.dirname(os.path.abspath(__file__))
ISOQUANT = os.path.join(HERE, "isoquant.py")
PY = "/venv/bin/python"
WORK = "/tmp/hunt3scratch_C18/demo2"


def plant(g, intron, left, right):
    s, e = intron
    g[s - 1:s + 1] = list(left)
    g[e - 2:e] = list(right)


def main():
    shutil.rmtree(WORK, ignore_errors=True)
    os.makedirs(os.path.join(WORK, "home"))
    rnd = random.Random(3)
    g = [rnd.choice("ACGT") for _ in range(9000)]
    known = [(1001, 1200), (1501, 1700), (2001, 2300)]
    plant(g, (1201, 1500), "GT", "AG")
    plant(g, (1701, 2000), "GT", "AG")
    fasta = os.path.join(WORK, "genome.fa")
    with open(fasta, "w") as f:
        f.write(">chr1\n")
        s = "".join(g)
        for i in range(0, len(s), 60):
            f.write(s[i:i + 60] + "\n")
    gtf = os.path.join(WORK, "annot.gtf")
    with open(gtf, "w") as f:
        f.write('chr1\ttest\tgene\t1001\t2300\t.\t+\t.\tgene_id "GA";\n')
        f.write('chr1\ttest\ttranscript\t1001\t2300\t.\t+\t.\tgene_id "GA"; transcript_id "TA1";\n')
        for e in known:
            f.write('chr1\ttest\texon\t%d\t%d\t.\t+\t.\tgene_id "GA"; transcript_id "TA1";\n' % e)

    header = pysam.AlignmentHeader.from_dict({"HD": {"VN": "1.6", "SO": "coordinate"},
                                              "SQ": [{"SN": "chr1", "LN": len(g)}]})

    def mk(name, exons):
        a = pysam.AlignedSegment(header)
        a.query_name = name
        a.reference_id = 0
        a.reference_start = exons[0][0] - 1
        cig, seq = [], ""
        for i, e in enumerate(exons):
            if i:
                cig.append((3, e[0] - exons[i - 1][1] - 1))
            cig.append((0, e[1] - e[0] + 1))
            seq += "".join(g[e[0] - 1:e[1]])
        cig.append((4, 30))
        seq += "A" * 30
        a.cigartuples = cig
        a.flag = 0
        a.mapping_quality = 60
        a.query_sequence = seq
        a.query_qualities = pysam.qualitystring_to_array("I" * len(seq))
        return a

    reads = [mk("known%d" % k, known) for k in range(5)] + [mk("mono%d" % k, [(6050, 6500)]) for k in range(8)]
    reads.sort(key=lambda r: r.reference_start)
    bam = os.path.join(WORK, "reads.bam")
    with pysam.AlignmentFile(bam, "wb", header=header) as f:
        for r in reads:
            f.write(r)
    pysam.index(bam)

    out = os.path.join(WORK, "out")
    env = dict(os.environ)
    env["HOME"] = os.path.join(WORK, "home")
    cmd = [PY, ISOQUANT, "--reference", fasta, "--genedb", gtf, "--complete_genedb", "--bam", bam,
           "--data_type", "nanopore", "-o", out, "--threads", "1", "--no_gzip",
           "--check_canonical", "--sqanti_output", "--report_novel_unspliced", "true"]
    p = subprocess.run(cmd, env=env, stdout=subprocess.PIPE, stderr=subprocess.STDOUT, text=True)
    if p.returncode != 0:
        print(p.stdout[-3000:])
        print("IsoQuant failed, cannot judge")
        return 2

    gtf_flag = {}
    for l in open(os.path.join(out, "OUT", "OUT.transcript_models.gtf")):
        f = l.rstrip("\n").split("\t")
        if len(f) < 9 or f[2] != "transcript":
            continue
        tid = re.search(r'transcript_id "([^"]+)"', f[8]).group(1)
        can = re.search(r'Canonical "(\w+)"', f[8])
        exons = re.search(r'exons "(\d+)"', f[8])
        gtf_flag[tid] = (can.group(1) if can else None, exons.group(1) if exons else None)

    # columns of the SQANTI-like table (header of SqantiTSVPrinter): 0 isoform, 4 exons, 16 all_canonical, 24 bite
    bad = []
    seen = 0
    for l in open(os.path.join(out, "OUT", "OUT.novel_vs_known.SQANTI-like.tsv")):
        if l.startswith("#"):
            continue
        f = l.rstrip("\n").split("\t")
        tid, n_exons, all_canonical, bite = f[0], f[4], f[16], f[24]
        if n_exons != "1":
            continue
        seen += 1
        print("model %s: exons=%s  GTF Canonical=%s  SQANTI all_canonical=%s  SQANTI bite=%s" %
              (tid, n_exons, gtf_flag.get(tid, (None,))[0], all_canonical, bite))
        if all_canonical != "Unspliced":
            bad.append(tid)
    if not seen:
        print("no mono-exonic novel model was produced, cannot judge")
        return 2
    if bad:
        print("VIOLATION: mono-exonic model(s) %s reported with all_canonical=True instead of Unspliced" % ", ".join(bad))
        return 1
    print("ok")
    return 0


if __name__ == "__main__":
    rc = main()
    shutil.rmtree(WORK, ignore_errors=True)
    sys.exit(rc)
