#!/usr/bin/env python3
"""
C18, second pass, finding 1: for records whose reported strand is '.', the Canonical flag silently tests the
MINUS-strand motifs only (IOSupport.check_sites_are_canonical: `if strand == '+': FWD else: REV`).

Two mirror-image situations therefore get different flags although neither record has a strand:
  * all introns CT..AC  + strand '.'  ->  Canonical=True
  * all introns GT..AG  + strand '.'  ->  Canonical=False

Trigger A (default nanopore settings, ordinary stranded annotation): a read with a short leading exon
  ("fake terminal exon", <= 40 bp) that is ambiguous between two isoforms and has no polyA tail.  The strand is taken
  from the *corrected* introns (none are left after the fake exon is dropped -> '.'), the flag from the *raw* introns.
Trigger B: annotation transcripts with strand '.' (valid GTF; e.g. IsoQuant's own output of --report_canonical all,
  StringTie): uniquely assigned reads and the known transcript models inherit strand '.'.

Exit 1 when the asymmetry is observed, 0 otherwise.
"""
import os, sys, random, re, shutil, subprocess
import pysam

REPO = os.path.dirname(os.path.abspath(__file__))
PY = "/venv/bin/python" if os.path.exists("/venv/bin/python") else sys.executable
WD = "/tmp/hunt2scratch_C18/demo1"


def plant(seq, intron, left, right):
    s = list(seq)
    a, b = intron
    s[a - 1:a + 1] = list(left)
    s[b - 2:b] = list(right)
    return "".join(s)


def introns_of(ex):
    return [(ex[i][1] + 1, ex[i + 1][0] - 1) for i in range(len(ex) - 1)]


def write_bam(path, name, seq, reads):
    header = {"HD": {"VN": "1.0", "SO": "coordinate"}, "SQ": [{"SN": name, "LN": len(seq)}]}
    reads = sorted(reads, key=lambda r: r[1][0][0])
    with pysam.AlignmentFile(path, "wb", header=header) as out:
        for rname, exons in reads:
            a = pysam.AlignedSegment()
            a.query_name = rname
            cigar, s, prev = [], "", None
            for (b, e) in exons:
                if prev is not None:
                    cigar.append((3, b - prev - 1))
                cigar.append((0, e - b + 1))
                s += seq[b - 1:e]
                prev = e
            a.query_sequence = s
            a.flag = 0
            a.reference_id = 0
            a.reference_start = exons[0][0] - 1
            a.mapping_quality = 60
            a.cigar = cigar
            a.query_qualities = pysam.qualitystring_to_array("I" * len(s))
            out.write(a)
    pysam.index(path)


def write_gtf(path, genes):
    with open(path, "w") as f:
        for gid, strand, transcripts in genes:
            s = min(e[0] for _, ex in transcripts for e in ex)
            e_ = max(e[1] for _, ex in transcripts for e in ex)
            f.write('chr1\ttest\tgene\t%d\t%d\t.\t%s\t.\tgene_id "%s";\n' % (s, e_, strand, gid))
            for tid, ex in transcripts:
                f.write('chr1\ttest\ttranscript\t%d\t%d\t.\t%s\t.\tgene_id "%s"; transcript_id "%s";\n' %
                        (ex[0][0], ex[-1][1], strand, gid, tid))
                for x in ex:
                    f.write('chr1\ttest\texon\t%d\t%d\t.\t%s\t.\tgene_id "%s"; transcript_id "%s";\n' %
                            (x[0], x[1], strand, gid, tid))


def run(fa, bam, gtf, out):
    env = dict(os.environ)
    env["HOME"] = os.path.join(WD, "home")
    os.makedirs(env["HOME"], exist_ok=True)
    cmd = [PY, os.path.join(REPO, "isoquant.py"), "--reference", fa, "--genedb", gtf, "--complete_genedb",
           "--bam", bam, "--data_type", "nanopore", "-o", out, "--threads", "1", "--no_gzip", "--check_canonical"]
    p = subprocess.run(cmd, env=env, stdout=subprocess.PIPE, stderr=subprocess.STDOUT, text=True)
    if p.returncode != 0:
        print(p.stdout[-3000:])
        print("IsoQuant failed")
        sys.exit(2)


def read_flags(out):
    res = {}
    for l in open(os.path.join(out, "OUT", "OUT.read_assignments.tsv")):
        if l.startswith("#"):
            continue
        t = l.rstrip("\n").split("\t")
        m = re.search(r"Canonical=(\w+);", t[8])
        res[t[0]] = (t[2], t[7], m.group(1) if m else None)
    return res


def model_flags(out):
    res = {}
    for l in open(os.path.join(out, "OUT", "OUT.transcript_models.gtf")):
        t = l.rstrip("\n").split("\t")
        if l.startswith("#") or t[2] != "transcript":
            continue
        tid = re.search(r'transcript_id "([^"]+)"', t[8]).group(1)
        res[tid] = (t[6], re.findall(r'Canonical "([^"]+)"', t[8]))
    return res


def main():
    shutil.rmtree(WD, ignore_errors=True)
    os.makedirs(WD)
    rng = random.Random(181)
    seq = "".join(rng.choice("ACGT") for _ in range(24000))
    problems = []

    # ---------------- trigger A: ordinary '+' genes, read with a short leading exon ----------------
    off = 5000
    A, B, C, C2 = (1000, 1300), (1600, 1900), (2300, 2600), (2300, 2800)
    sh = lambda e: (e[0] + off, e[1] + off)
    for i in introns_of([A, B, C]) + introns_of([sh(A), sh(B), sh(C)]):
        seq = plant(seq, i, "GT", "AG")
    seq = plant(seq, (871, 1049), "CT", "AC")              # intron of read 'fte_rev': canonical on '-' only
    seq = plant(seq, (871 + off, 1049 + off), "GT", "AG")  # intron of read 'fte_fwd': canonical on '+' only
    # ---------------- trigger B: annotation transcripts without strand ----------------
    UA = [(12000, 12300), (12600, 12900), (13300, 13600)]
    UB = [(16000, 16300), (16600, 16900), (17300, 17600)]
    for i in introns_of(UA):
        seq = plant(seq, i, "CT", "AC")
    for i in introns_of(UB):
        seq = plant(seq, i, "GT", "AG")

    fa = os.path.join(WD, "genome.fa")
    with open(fa, "w") as f:
        f.write(">chr1\n")
        for i in range(0, len(seq), 60):
            f.write(seq[i:i + 60] + "\n")
    gtf = os.path.join(WD, "annot.gtf")
    write_gtf(gtf, [("G1", "+", [("T1", [A, B, C]), ("T2", [A, B, C2])]),
                    ("G2", "+", [("U1", [sh(A), sh(B), sh(C)]), ("U2", [sh(A), sh(B), sh(C2)])]),
                    ("GUA", ".", [("TUA", UA)]),
                    ("GUB", ".", [("TUB", UB)])])
    reads = [("fte_rev", [(850, 870), (1050, 1290)]),
             ("fte_fwd", [(850 + off, 870 + off), (1050 + off, 1290 + off)])]
    for k in range(4):
        reads.append(("ua%d" % k, UA))
        reads.append(("ub%d" % k, UB))
    bam = os.path.join(WD, "reads.bam")
    write_bam(bam, "chr1", seq, reads)
    out = os.path.join(WD, "out")
    run(fa, bam, gtf, out)

    rf = read_flags(out)
    mf = model_flags(out)
    print("reads (strand, exons, Canonical):")
    for r in ("fte_rev", "fte_fwd", "ua0", "ub0"):
        print("   %-8s %s" % (r, rf.get(r)))
    print("models (strand, Canonical):")
    for t in ("TUA", "TUB"):
        print("   %-8s %s" % (t, mf.get(t)))

    def sites(intron):
        return seq[intron[0] - 1:intron[0] + 1] + ".." + seq[intron[1] - 2:intron[1]]

    # A
    a, b = rf.get("fte_rev"), rf.get("fte_fwd")
    if a and b and a[0] == "." and b[0] == "." and a[2] != b[2]:
        problems.append("trigger A: reads fte_rev (intron %s) and fte_fwd (intron %s) are both reported with strand '.', "
                        "yet Canonical=%s for the first and Canonical=%s for the second: with no strand reported the "
                        "flag tests the minus-strand motifs only" % (sites((871, 1049)), sites((871 + off, 1049 + off)), a[2], b[2]))
    if a and a[0] == "." and a[2] == "True":
        problems.append("trigger A: read fte_rev has strand '.' and Canonical=True (there is no reported strand on "
                        "which its intron could be canonical)")
    # B
    a, b = rf.get("ua0"), rf.get("ub0")
    if a and b and a[0] == "." and b[0] == "." and a[2] != b[2]:
        problems.append("trigger B: reads of unstranded isoforms TUA (CT..AC introns) / TUB (GT..AG introns): strand '.' "
                        "for both, Canonical=%s vs Canonical=%s" % (a[2], b[2]))
    a, b = mf.get("TUA"), mf.get("TUB")
    if a and b and a[0] == "." and b[0] == "." and a[1] != b[1]:
        problems.append("trigger B: transcript models TUA / TUB: strand '.' for both, Canonical %s vs %s" % (a[1], b[1]))

    shutil.rmtree(WD, ignore_errors=True)
    if problems:
        print("PROPERTY C18 VIOLATED:")
        for p in problems:
            print(" - " + p)
        sys.exit(1)
    print("ok: Canonical flags of unstranded records are symmetric")
    sys.exit(0)


if __name__ == "__main__":
    main()
