#!/venv/bin/python
"""
RELATED observation (NOT a violation of the literal statement of C18, see HUNT_C18.md):
with --report_canonical only_canonical (documented as "report novel transcripts, which contain only canonical
splice sites"; it is also the default for --data_type nanopore) IsoQuant reports a novel transcript one intron of
which is AA..TT, and itself labels it Canonical "False".

Cause: StrandDetector.get_clean_strand() (src/gene_info.py) only counts introns that are canonical on '+' and on
'-' and ignores introns that are canonical on neither strand, although its comment says
"all splice sites must be canonical from the same strand, not just the majority".

exit 1 = a novel model with a non-canonical intron is reported under only_canonical, exit 0 otherwise.
"""
import os
import random
import shutil
import subprocess
import sys

import pysam

REPO = os.path.dirname(os.path.abspath(__file__))
SCRATCH = "/tmp/huntscratch_C18/hunt_related"
PY = "/venv/bin/python"
L = 30000


def set_site(seq, intron, left, right):
    s, e = intron
    seq[s - 1], seq[s] = left
    seq[e - 2], seq[e - 1] = right


def make_read(name, seq, exons, polya=30):
    bases, cigar, prev = "", [], None
    for s, e in exons:
        if prev is not None:
            cigar.append((3, s - prev - 1))
        cigar.append((0, e - s + 1))
        bases += "".join(seq[s - 1:e])
        prev = e
    bases += "A" * polya
    cigar.append((4, polya))
    a = pysam.AlignedSegment()
    a.query_name = name
    a.query_sequence = bases
    a.flag = 0
    a.reference_id = 0
    a.reference_start = exons[0][0] - 1
    a.mapping_quality = 60
    a.cigartuples = cigar
    a.query_qualities = pysam.qualitystring_to_array("I" * len(bases))
    return a


def main():
    if os.path.exists(SCRATCH):
        shutil.rmtree(SCRATCH)
    wd = SCRATCH
    os.makedirs(os.path.join(wd, "home"))
    try:
        rnd = random.Random(7)
        seq = [rnd.choice("ACGT") for _ in range(L)]
        g1 = [(1001, 1300), (1501, 1800)]
        novel = [(10001, 10300), (10501, 10800), (11001, 11300)]
        set_site(seq, (1301, 1500), "GT", "AG")
        set_site(seq, (10301, 10500), "GT", "AG")    # canonical on +
        set_site(seq, (10801, 11000), "AA", "TT")    # canonical on neither strand
        with open(os.path.join(wd, "genome.fa"), "w") as f:
            f.write(">chr1\n")
            s = "".join(seq)
            for i in range(0, L, 60):
                f.write(s[i:i + 60] + "\n")
        with open(os.path.join(wd, "annot.gtf"), "w") as f:
            f.write('chr1\tt\tgene\t1001\t1800\t.\t+\t.\tgene_id "G1";\n')
            f.write('chr1\tt\ttranscript\t1001\t1800\t.\t+\t.\tgene_id "G1"; transcript_id "T1";\n')
            for s_, e_ in g1:
                f.write('chr1\tt\texon\t%d\t%d\t.\t+\t.\tgene_id "G1"; transcript_id "T1";\n' % (s_, e_))
        reads = [make_read("k%d" % i, seq, g1) for i in range(3)] + [make_read("n%d" % i, seq, novel) for i in range(5)]
        header = {"HD": {"VN": "1.0", "SO": "coordinate"}, "SQ": [{"SN": "chr1", "LN": L}]}
        bam = os.path.join(wd, "reads.bam")
        with pysam.AlignmentFile(bam, "wb", header=header) as out:
            for a in reads:
                out.write(a)
        pysam.index(bam)
        env = dict(os.environ)
        env["HOME"] = os.path.join(wd, "home")
        cmd = [PY, os.path.join(REPO, "isoquant.py"), "--reference", os.path.join(wd, "genome.fa"),
               "--genedb", os.path.join(wd, "annot.gtf"), "--complete_genedb", "--bam", bam,
               "--data_type", "nanopore", "-o", os.path.join(wd, "out"), "--threads", "1", "--no_gzip",
               "--check_canonical", "--report_canonical", "only_canonical"]
        p = subprocess.run(cmd, env=env, stdout=subprocess.PIPE, stderr=subprocess.STDOUT, text=True)
        if p.returncode != 0:
            print(p.stdout[-3000:])
            raise RuntimeError("IsoQuant failed")
        bad = []
        for l in open(os.path.join(wd, "out", "OUT", "OUT.transcript_models.gtf")):
            t = l.rstrip("\n").split("\t")
            if not l.startswith("#") and t[2] == "transcript" and "nnic" in t[8]:
                bad.append("%s:%s-%s %s %s" % (t[0], t[3], t[4], t[6], t[8]))
    finally:
        shutil.rmtree(SCRATCH, ignore_errors=True)
        try:
            os.rmdir("/tmp/huntscratch_C18")
        except OSError:
            pass
    if bad:
        print("--report_canonical only_canonical reported a novel transcript with an AA..TT intron:")
        for b in bad:
            print("  " + b)
        sys.exit(1)
    print("no novel transcript with non-canonical introns reported")
    sys.exit(0)


if __name__ == "__main__":
    main()
