#!/usr/bin/env python3
"""
C02, third search, finding 1 (borderline: affects the column names of the grouped TPM tables, not the numbers).

AssignedFeatureCounter.convert_counts_to_tpm() turns the header of a count table into the header of the TPM table
with  line.replace("count", "TPM").  For grouped tables the header is "#feature_id\t<group>\t<group>...", so every
read group whose name contains the substring "count" is renamed in *_grouped_tpm.tsv
("low_count" -> "low_TPM", "count" -> "TPM", "discount" -> "disTPM"); two different groups can even end up under the
same column name ("count" and "TPM").  The TPM table is then no longer "the count table rescaled": its columns
cannot be matched with the columns of the count table by name.

Input: a valid BAM whose reads carry a CB tag with the values "low_count", "count" and "TPM" (read group names are free
text, docs/cmd.md --read_group tag:TAG).  Exit code 1 when the defect shows, 0 otherwise.
"""
import os
import random
import shutil
import subprocess
import sys

import pysam

HERE = os.path.dirname(os.path.abspath(__file__))
ISOQUANT = os.path.join(HERE, "isoquant.py")
PYTHON = "/venv/bin/python" if os.path.exists("/venv/bin/python") else sys.executable
WD = "/tmp/hunt3scratch_C02/finding1"


def main():
    if os.path.exists(WD):
        shutil.rmtree(WD)
    os.makedirs(os.path.join(WD, "home"))
    rnd = random.Random(7)
    seq = list("".join(rnd.choice("ACGT") for _ in range(8000)))
    exons_t1 = [(1000, 1200), (2000, 2200), (3000, 3300)]
    exons_t2 = [(1000, 1200), (3000, 3300)]
    for a, b in ((1201, 1999), (2201, 2999), (1201, 2999)):   # canonical GT..AG introns
        seq[a - 1:a + 1] = "GT"
        seq[b - 2:b] = "AG"
    seq = "".join(seq)
    fasta = os.path.join(WD, "genome.fa")
    with open(fasta, "w") as f:
        f.write(">chr1\n")
        for i in range(0, len(seq), 60):
            f.write(seq[i:i + 60] + "\n")
    gtf = os.path.join(WD, "annot.gtf")
    with open(gtf, "w") as f:
        f.write('chr1\tt\tgene\t1000\t3300\t.\t+\t.\tgene_id "G1";\n')
        for tid, exons in (("T1", exons_t1), ("T2", exons_t2)):
            f.write('chr1\tt\ttranscript\t1000\t3300\t.\t+\t.\tgene_id "G1"; transcript_id "%s";\n' % tid)
            for s, e in exons:
                f.write('chr1\tt\texon\t%d\t%d\t.\t+\t.\tgene_id "G1"; transcript_id "%s";\n' % (s, e, tid))

    header = pysam.AlignmentHeader.from_dict({"HD": {"VN": "1.6", "SO": "coordinate"},
                                              "SQ": [{"SN": "chr1", "LN": len(seq)}]})
    bam = os.path.join(WD, "reads.bam")
    plan = [("low_count", exons_t1, 3), ("count", exons_t2, 2), ("TPM", exons_t1, 1), ("cellA", exons_t2, 4)]
    with pysam.AlignmentFile(bam, "wb", header=header) as out:
        n = 0
        for group, exons, copies in plan:
            for _ in range(copies):
                n += 1
                a = pysam.AlignedSegment(header)
                a.query_name = "read%d" % n
                a.reference_id = 0
                a.reference_start = exons[0][0] - 1
                a.mapping_quality = 60
                a.flag = 0
                cigar = []
                for i, (s, e) in enumerate(exons):
                    if i:
                        cigar.append((3, s - exons[i - 1][1] - 1))
                    cigar.append((0, e - s + 1))
                a.cigartuples = cigar
                a.query_sequence = "".join(seq[s - 1:e] for s, e in exons)
                a.set_tag("CB", group)
                out.write(a)
    pysam.index(bam)

    outdir = os.path.join(WD, "out")
    cmd = [PYTHON, ISOQUANT, "--reference", fasta, "--genedb", gtf, "--complete_genedb", "--bam", bam,
           "--data_type", "nanopore", "-o", outdir, "--threads", "1", "--no_gzip", "--read_group", "tag:CB"]
    p = subprocess.run(cmd, env=dict(os.environ, HOME=os.path.join(WD, "home")), capture_output=True, text=True)
    if p.returncode != 0:
        print("IsoQuant failed:\n" + p.stderr[-2000:])
        return 2

    violated = False
    for table in ("gene_grouped", "transcript_grouped", "transcript_model_grouped"):
        counts_header = open(os.path.join(outdir, "OUT", "OUT.%s_counts.tsv" % table)).readline().rstrip("\n").split("\t")
        tpm_header = open(os.path.join(outdir, "OUT", "OUT.%s_tpm.tsv" % table)).readline().rstrip("\n").split("\t")
        print("%s_counts.tsv header: %s" % (table, counts_header))
        print("%s_tpm.tsv    header: %s" % (table, tpm_header))
        if counts_header != tpm_header:
            violated = True
            renamed = [(c, t) for c, t in zip(counts_header, tpm_header) if c != t]
            print("  -> read groups renamed in the TPM table: %s" % renamed)
        if len(set(tpm_header)) != len(tpm_header):
            violated = True
            print("  -> two different read groups share one column name in the TPM table")
    if violated:
        print("VIOLATION: the grouped TPM tables are not the count tables rescaled - their columns carry other group "
              "names than the columns of the count tables")
        return 1
    print("ok: grouped TPM tables keep the group names of the count tables")
    return 0


if __name__ == "__main__":
    sys.exit(main())
