#!/venv/bin/python
"""
Property C02, second pass, finding 2 (transcript-model table).

A multi-mapped read that IsoQuant keeps at two loci (primary alignment ambiguous between two isoforms of gene GA on
chr1, secondary alignment matching the only isoform of gene GB on chr2 -> take_best keeps both, nothing is suspended)
is handed to one GraphBasedModelConstructor per locus.  Each constructor counts the read with its own
read_assignment_counts dictionary (forward_counts, src/graph_based_model_construction.py), finds it assigned to exactly
one model *of that locus* and calls add_read_info_raw(read, [model]) -> weight 1.0.  transcript_model_reads.tsv reports
the read for two transcript models, transcript_model_counts.tsv gives 1.0 to each of them (total weight 2.0 for one
read, also under unique_only where a shared read must weigh 0, and 1.0+1.0 instead of 0.5+0.5 under with_ambiguous),
and __ambiguous stays 0.

Exit 1 when the violation is observed, 0 otherwise.
"""
import os, sys, random, shutil, subprocess, collections
import pysam

ISO = os.path.join(os.path.dirname(os.path.abspath(__file__)), "isoquant.py")
WD = "/tmp/hunt2scratch_C02/find2"
shutil.rmtree(WD, ignore_errors=True)
os.makedirs(os.path.join(WD, "home"))

A1 = [(1001, 1200), (1501, 1700), (2001, 2300)]   # chr1, gene GA
A2 = [(1001, 1200), (1501, 1700), (2601, 2900)]   # chr1, gene GA (other last exon)
B1 = [(501, 700), (1001, 1200), (1501, 1800)]     # chr2, gene GB
SHARED = [(1051, 1200), (1501, 1650)]             # compatible with A1 and A2 -> ambiguous


def introns(ex):
    return [(ex[i][1] + 1, ex[i + 1][0] - 1) for i in range(len(ex) - 1)]


rnd = random.Random(11)
seqs = {}
for c, n in (("chr1", 5000), ("chr2", 4000)):
    s, prev = [], ""
    for _ in range(n):
        ch = rnd.choice("ACGT")
        while ch == prev and ch in "AT":
            ch = rnd.choice("ACGT")
        s.append(ch)
        prev = ch
    seqs[c] = s
for c, ex in (("chr1", A1), ("chr1", A2), ("chr2", B1)):
    for a, b in introns(ex):
        seqs[c][a - 1:a + 1] = "GT"
        seqs[c][b - 2:b] = "AG"
seqs = {c: "".join(s) for c, s in seqs.items()}
with open(WD + "/genome.fa", "w") as f:
    for c, s in seqs.items():
        f.write(">%s\n%s\n" % (c, s))
with open(WD + "/annot.gtf", "w") as f:
    for c, g, trs in (("chr1", "GA", {"A1": A1, "A2": A2}), ("chr2", "GB", {"B1": B1})):
        lo = min(e[0] for t in trs.values() for e in t)
        hi = max(e[1] for t in trs.values() for e in t)
        f.write('%s\tsrc\tgene\t%d\t%d\t.\t+\t.\tgene_id "%s";\n' % (c, lo, hi, g))
        for t, ex in trs.items():
            f.write('%s\tsrc\ttranscript\t%d\t%d\t.\t+\t.\tgene_id "%s"; transcript_id "%s";\n' % (c, ex[0][0], ex[-1][1], g, t))
            for a, b in ex:
                f.write('%s\tsrc\texon\t%d\t%d\t.\t+\t.\tgene_id "%s"; transcript_id "%s";\n' % (c, a, b, g, t))

# (name, chr, exons, secondary, polyA tail)
reads = [("a%d" % i, "chr1", A1, False, 20) for i in range(5)] + \
        [("b%d" % i, "chr2", B1, False, 20) for i in range(5)] + \
        [("multi", "chr1", SHARED, False, 0), ("multi", "chr2", B1, True, 20)]
header = {"HD": {"VN": "1.6", "SO": "coordinate"}, "SQ": [{"SN": c, "LN": len(s)} for c, s in seqs.items()]}
with pysam.AlignmentFile(WD + "/u.bam", "wb", header=header) as out:
    for name, c, ex, sec, tail in reads:
        a = pysam.AlignedSegment(out.header)
        a.query_name = name
        a.reference_id = list(seqs).index(c)
        a.reference_start = ex[0][0] - 1
        cig, sq = [], ""
        for i, (s, e) in enumerate(ex):
            if i:
                cig.append((3, s - ex[i - 1][1] - 1))
            cig.append((0, e - s + 1))
            sq += seqs[c][s - 1:e]
        if tail:
            cig.append((4, tail))
            sq += "A" * tail
        a.cigartuples = cig
        a.query_sequence = sq
        a.query_qualities = pysam.qualitystring_to_array("I" * len(sq))
        a.mapping_quality = 0 if sec else 60
        a.flag = 256 if sec else 0
        out.write(a)
pysam.sort("-o", WD + "/reads.bam", WD + "/u.bam")
pysam.index(WD + "/reads.bam")

env = dict(os.environ, HOME=WD + "/home")
problems = []
for strategy in ("unique_only", "with_ambiguous"):
    out_dir = WD + "/out_" + strategy
    p = subprocess.run([sys.executable, ISO, "--reference", WD + "/genome.fa", "--genedb", WD + "/annot.gtf",
                        "--complete_genedb", "--bam", WD + "/reads.bam", "--data_type", "nanopore", "-o", out_dir,
                        "--threads", "1", "--no_gzip", "--transcript_quantification", strategy],
                       env=env, stdout=subprocess.PIPE, stderr=subprocess.STDOUT, text=True)
    if p.returncode != 0:
        print("IsoQuant failed\n" + p.stdout[-2000:])
        sys.exit(2)
    OUT = out_dir + "/OUT/OUT."
    reported = collections.defaultdict(list)          # read -> models
    for line in open(OUT + "transcript_model_reads.tsv"):
        fs = line.rstrip("\n").split("\t")
        if line.startswith("#") or fs[1] == "*":
            continue
        reported[fs[0]].append(fs[1])
    counts, stats = {}, {}
    for line in open(OUT + "transcript_model_counts.tsv"):
        fs = line.rstrip("\n").split("\t")
        if fs[0] == "#feature_id":
            continue
        (stats if fs[0].startswith("__") else counts)[fs[0]] = float(fs[1])
    ambiguous_on = strategy == "with_ambiguous"
    expected = collections.defaultdict(float)
    shared_reads = 0
    for read, models in reported.items():
        k = len(models)
        if k > 1:
            shared_reads += 1
        for m in models:
            expected[m] += 1.0 if k == 1 else (1.0 / k if ambiguous_on else 0.0)
    print("[%s] read 'multi' is reported for models %s" % (strategy, reported.get("multi")))
    for m in sorted(expected):
        got = counts.get(m, 0.0)
        if got != 0 and abs(got - expected[m]) > 0.006:
            problems.append("[%s] transcript_model_counts[%s] = %.2f, documented weighting of the reads reported in "
                            "transcript_model_reads.tsv gives %.2f" % (strategy, m, got, expected[m]))
    # weight that the read 'multi' alone contributes = observed - (expected without it)
    extra = sum(counts.get(m, 0.0) - (expected[m] - (0.5 if ambiguous_on else 0.0)) for m in reported.get("multi", []))
    if len(reported.get("multi", [])) > 1 and extra > 1.0 + 1e-6:
        problems.append("[%s] read 'multi' contributes a total weight of %.2f to transcript_model_counts.tsv (> 1)"
                        % (strategy, extra))
    if stats.get("__ambiguous") != shared_reads:
        problems.append("[%s] transcript_model_counts __ambiguous = %d, but %d read(s) are reported for several models"
                        % (strategy, stats.get("__ambiguous", -1), shared_reads))

if problems:
    print("C02 VIOLATED (multi-locus read in the transcript-model table):")
    for x in problems:
        print("  " + x)
    sys.exit(1)
print("ok")
sys.exit(0)
