#!/venv/bin/python
"""
Property C02, second pass, finding 3 (gene table; related to, but not the same as, the recorded multi-locus cases).

One read has two alignments inside the SAME gene G1: the primary one (mono-exonic, inside an exon shared by T1 and T2)
is ambiguous between T1 and T2, the secondary one (spliced) matches T1 only.  No alignment is a "primary unique" one,
so MultimapResolver.select_best_assignment keeps both consistent alignments.  filter_assignments() changes the gene
assignment type only when the kept alignments name more than one gene (len(all_genes) > 1); here there is one gene,
both records stay gene_assignment=unique, and AssignedFeatureCounter.add_read_info adds 1.0 to G1 for each of them:
gene_counts.tsv[G1] is one higher than the number of distinct reads reported for G1, i.e. one read contributes a total
weight of 2 to the gene table (under every strategy, including unique_only).

Exit 1 when the violation is observed, 0 otherwise.
"""
import os, sys, random, shutil, subprocess
import pysam

ISO = os.path.join(os.path.dirname(os.path.abspath(__file__)), "isoquant.py")
WD = "/tmp/hunt2scratch_C02/find3"
shutil.rmtree(WD, ignore_errors=True)
os.makedirs(os.path.join(WD, "home"))

T1 = [(1001, 1200), (1501, 1700), (2001, 2300)]
T2 = [(1001, 1200), (2001, 2300)]


def introns(ex):
    return [(ex[i][1] + 1, ex[i + 1][0] - 1) for i in range(len(ex) - 1)]


rnd = random.Random(3)
s, prev = [], ""
for _ in range(5000):
    ch = rnd.choice("ACGT")
    while ch == prev and ch in "AT":
        ch = rnd.choice("ACGT")
    s.append(ch)
    prev = ch
for ex in (T1, T2):
    for a, b in introns(ex):
        s[a - 1:a + 1] = "GT"
        s[b - 2:b] = "AG"
seq = "".join(s)
with open(WD + "/genome.fa", "w") as f:
    f.write(">chr1\n%s\n" % seq)
with open(WD + "/annot.gtf", "w") as f:
    f.write('chr1\tsrc\tgene\t1001\t2300\t.\t+\t.\tgene_id "G1";\n')
    for t, ex in (("T1", T1), ("T2", T2)):
        f.write('chr1\tsrc\ttranscript\t%d\t%d\t.\t+\t.\tgene_id "G1"; transcript_id "%s";\n' % (ex[0][0], ex[-1][1], t))
        for a, b in ex:
            f.write('chr1\tsrc\texon\t%d\t%d\t.\t+\t.\tgene_id "G1"; transcript_id "%s";\n' % (a, b, t))

reads = [("a%d" % i, T1, False, 20) for i in range(5)] + [("b%d" % i, T2, False, 20) for i in range(3)] + \
        [("m", [(2050, 2250)], False, 0), ("m", [(1050, 1200), (1501, 1650)], True, 0)]
header = {"HD": {"VN": "1.6", "SO": "coordinate"}, "SQ": [{"SN": "chr1", "LN": len(seq)}]}
with pysam.AlignmentFile(WD + "/u.bam", "wb", header=header) as out:
    for name, ex, sec, tail in reads:
        a = pysam.AlignedSegment(out.header)
        a.query_name = name
        a.reference_id = 0
        a.reference_start = ex[0][0] - 1
        cig, sq = [], ""
        for i, (st, en) in enumerate(ex):
            if i:
                cig.append((3, st - ex[i - 1][1] - 1))
            cig.append((0, en - st + 1))
            sq += seq[st - 1:en]
        if tail:
            cig.append((4, tail))
            sq += "A" * tail
        a.cigartuples = cig
        a.query_sequence = sq
        a.query_qualities = pysam.qualitystring_to_array("I" * len(sq))
        a.mapping_quality = 0 if sec else 60
        a.flag = 256 if sec else 0
        out.write(a)
pysam.sort("-o", WD + "/reads.bam", WD + "/u.bam")
pysam.index(WD + "/reads.bam")

env = dict(os.environ, HOME=WD + "/home")
p = subprocess.run([sys.executable, ISO, "--reference", WD + "/genome.fa", "--genedb", WD + "/annot.gtf",
                    "--complete_genedb", "--bam", WD + "/reads.bam", "--data_type", "nanopore", "-o", WD + "/out",
                    "--threads", "1", "--no_gzip", "--gene_quantification", "unique_only"],
                   env=env, stdout=subprocess.PIPE, stderr=subprocess.STDOUT, text=True)
if p.returncode != 0:
    print("IsoQuant failed\n" + p.stdout[-2000:])
    sys.exit(2)
OUT = WD + "/out/OUT/OUT."
gene_reads = {}
records = set()
for line in open(OUT + "read_assignments.tsv"):
    fs = line.rstrip("\n").split("\t")
    if line.startswith("#") or len(fs) < 9:
        continue
    gtype = [t for t in fs[8].split() if t.startswith("gene_assignment=")][0][len("gene_assignment="):].rstrip(";")
    gene_reads.setdefault(fs[4], {}).setdefault(fs[0], set()).add((fs[7], gtype))
    records.add((fs[0], fs[7]))
g1 = None
for line in open(OUT + "gene_counts.tsv"):
    fs = line.rstrip("\n").split("\t")
    if fs[0] == "G1":
        g1 = float(fs[1])
n_reads = len(gene_reads.get("G1", {}))
print("distinct reads reported for G1: %d; alignment records of read 'm': %s; gene_counts[G1] = %s"
      % (n_reads, sorted(gene_reads["G1"].get("m", [])), g1))
if g1 is not None and g1 > n_reads + 1e-6:
    print("C02 VIOLATED: gene_counts.tsv gives G1 %.2f although only %d distinct reads are reported for it, each of "
          "weight <= 1: read 'm' (two kept alignments in the same gene, both gene_assignment=unique) contributes %.2f"
          % (g1, n_reads, g1 - (n_reads - 1)))
    sys.exit(1)
print("ok")
sys.exit(0)
