#!/venv/bin/python
"""
C02 hunt, finding 2: AssignedFeatureCounter.convert_counts_to_tpm() stops reading the count table at the
first line that starts with '_' (meant for the trailing __ambiguous/__no_feature/__not_aligned lines).
A gene/transcript whose id starts with an underscore (legal in GTF, accepted by the GTF checker) therefore
truncates the TPM table: this feature and every feature sorted after it (also on other chromosomes) are
missing from *_tpm.tsv and the scale factor is computed from the truncated sum, so the ratios of the
count table are not preserved.

Exit code 1 = property violated (details printed), 0 = not violated.
"""
import os, sys, random, shutil, subprocess, collections
import pysam

REPO = os.path.dirname(os.path.abspath(__file__))
PY = "/venv/bin/python"
SCRATCH = "/tmp/huntscratch_C02/hunt_C02_2"

shutil.rmtree(SCRATCH, ignore_errors=True)
os.makedirs(SCRATCH + "/home")
rnd = random.Random(7)
chroms = {"chr1": 20000, "chr2": 15000}
genome = {c: [rnd.choice("ACGT") for _ in range(l)] for c, l in chroms.items()}
genes = [("chr1", "GA", "+", "GA.t1", [(1001, 1300), (2001, 2200), (3001, 3400)]),
         ("chr1", "_GB", "+", "_GB.t1", [(6001, 6300), (7001, 7200), (8001, 8400)]),
         ("chr2", "aGC", "+", "aGC.t1", [(1001, 1800)])]
for c, gid, strand, tid, ex in genes:
    for i in range(len(ex) - 1):
        s, e = ex[i][1] + 1, ex[i + 1][0] - 1
        genome[c][s - 1] = 'G'; genome[c][s] = 'T'; genome[c][e - 2] = 'A'; genome[c][e - 1] = 'G'
with open(SCRATCH + "/genome.fa", "w") as f:
    for c, s in genome.items():
        f.write(">%s\n" % c)
        s = "".join(s)
        for i in range(0, len(s), 60):
            f.write(s[i:i + 60] + "\n")
with open(SCRATCH + "/annot.gtf", "w") as f:
    for c, gid, strand, tid, ex in genes:
        f.write('%s\tsrc\tgene\t%d\t%d\t.\t%s\t.\tgene_id "%s";\n' % (c, ex[0][0], ex[-1][1], strand, gid))
        f.write('%s\tsrc\ttranscript\t%d\t%d\t.\t%s\t.\tgene_id "%s"; transcript_id "%s";\n' % (c, ex[0][0], ex[-1][1], strand, gid, tid))
        for e in ex:
            f.write('%s\tsrc\texon\t%d\t%d\t.\t%s\t.\tgene_id "%s"; transcript_id "%s";\n' % (c, e[0], e[1], strand, gid, tid))
header = {"HD": {"VN": "1.0", "SO": "coordinate"}, "SQ": [{"SN": c, "LN": l} for c, l in chroms.items()]}
recs = []
for (c, gid, strand, tid, ex), n in zip(genes, [5, 4, 3]):
    for k in range(n):
        a = pysam.AlignedSegment()
        a.query_name = "%s_read%d" % (gid.strip("_"), k)
        a.reference_id = list(chroms).index(c)
        a.reference_start = ex[0][0] - 1
        cig, s = [], ""
        for i, e in enumerate(ex):
            if i:
                cig.append((3, e[0] - ex[i - 1][1] - 1))
            cig.append((0, e[1] - e[0] + 1))
            s += "".join(genome[c][e[0] - 1:e[1]])
        cig.append((4, 30)); s += "A" * 30
        a.cigartuples = cig; a.query_sequence = s
        a.query_qualities = pysam.qualitystring_to_array("I" * len(s))
        a.flag = 0; a.mapping_quality = 60
        recs.append(a)
recs.sort(key=lambda a: (a.reference_id, a.reference_start))
with pysam.AlignmentFile(SCRATCH + "/reads.bam", "wb", header=header) as out:
    for a in recs:
        out.write(a)
pysam.index(SCRATCH + "/reads.bam")

env = dict(os.environ); env["HOME"] = SCRATCH + "/home"
cmd = [PY, REPO + "/isoquant.py", "--reference", SCRATCH + "/genome.fa", "--genedb", SCRATCH + "/annot.gtf", "--complete_genedb",
       "--bam", SCRATCH + "/reads.bam", "--data_type", "nanopore", "-o", SCRATCH + "/out", "--threads", "1", "--no_gzip"]
p = subprocess.run(cmd, env=env, stdout=subprocess.PIPE, stderr=subprocess.STDOUT, text=True, timeout=300)
if p.returncode != 0:
    print(p.stdout[-3000:]); sys.exit(2)


def table(path):
    feats = collections.OrderedDict()
    for line in open(path):
        if line.startswith("#"):
            continue
        k, v = line.rstrip("\n").split("\t")[:2]
        if not k.startswith("__"):
            feats[k] = float(v)
    return feats


problems = []
for kind in ["gene", "transcript", "transcript_model"]:
    counts = table(SCRATCH + "/out/OUT/OUT.%s_counts.tsv" % kind)
    tpm = table(SCRATCH + "/out/OUT/OUT.%s_tpm.tsv" % kind)
    print("%s counts: %s" % (kind, dict(counts)))
    print("%s TPM   : %s" % (kind, dict(tpm)))
    total = sum(counts.values())
    for f, c in counts.items():
        if f not in tpm:
            problems.append("%s_tpm.tsv: feature %s (count %.2f) is missing" % (kind, f, c))
        elif abs(tpm[f] - c * 1e6 / total) > 0.01:
            problems.append("%s_tpm.tsv: %s = %.2f, count table rescaled to 10^6 gives %.2f" % (kind, f, tpm[f], c * 1e6 / total))

shutil.rmtree(SCRATCH, ignore_errors=True)
if problems:
    print("\nPROPERTY C02 VIOLATED (TPM table is not the rescaled count table):")
    for x in problems:
        print("  - " + x)
    sys.exit(1)
print("no violation observed")
sys.exit(0)
