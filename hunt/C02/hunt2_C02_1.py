#!/venv/bin/python
"""
Property C02, second pass, finding 1.

A gene / transcript id that starts with '#' (a legal GTF attribute value) is taken for a header line
 (a) by merge_files() (src/file_utils.py) when the per-chromosome count tables are concatenated: for every
     chromosome but the first the leading rows whose id starts with '#' are skipped together with the header,
     so a reference transcript/gene with reported unique spliced reads has no row at all (neither its count nor
     a zero) in transcript_counts / gene_counts / transcript_model_counts;
 (b) by convert_counts_to_tpm() (src/long_read_counter.py): the row is copied verbatim into the TPM table
     ("#T1<TAB>5.00") and left out of the scale factor, so the TPM table is not the count table rescaled.

Exit 1 when the violation is observed, 0 otherwise.
"""
import os, sys, random, shutil, subprocess
import pysam

ISO = os.path.join(os.path.dirname(os.path.abspath(__file__)), "isoquant.py")
WD = "/tmp/hunt2scratch_C02/find1"
shutil.rmtree(WD, ignore_errors=True)
os.makedirs(os.path.join(WD, "home"))

T1 = [(1001, 1200), (1501, 1700), (2001, 2300)]   # chr1, gene "#G1", transcript "#T1"
T2 = [(1001, 1200), (2001, 2300)]                 # chr1, gene "#G1", transcript "T2"
T3 = [(501, 700), (1001, 1300)]                   # chr2, gene "#G2", transcript "#T3"


def introns(ex):
    return [(ex[i][1] + 1, ex[i + 1][0] - 1) for i in range(len(ex) - 1)]


rnd = random.Random(7)
seqs = {}
for c, n in (("chr1", 5000), ("chr2", 3000)):
    s, prev = [], ""
    for _ in range(n):
        ch = rnd.choice("ACGT")
        while ch == prev and ch in "AT":
            ch = rnd.choice("ACGT")
        s.append(ch)
        prev = ch
    seqs[c] = s
for c, ex in (("chr1", T1), ("chr1", T2), ("chr2", T3)):
    for a, b in introns(ex):
        seqs[c][a - 1:a + 1] = "GT"
        seqs[c][b - 2:b] = "AG"
seqs = {c: "".join(s) for c, s in seqs.items()}
with open(WD + "/genome.fa", "w") as f:
    for c, s in seqs.items():
        f.write(">%s\n%s\n" % (c, s))

with open(WD + "/annot.gtf", "w") as f:
    for c, g, trs in (("chr1", "#G1", {"#T1": T1, "T2": T2}), ("chr2", "#G2", {"#T3": T3})):
        lo = min(e[0] for t in trs.values() for e in t)
        hi = max(e[1] for t in trs.values() for e in t)
        f.write('%s\tsrc\tgene\t%d\t%d\t.\t+\t.\tgene_id "%s";\n' % (c, lo, hi, g))
        for t, ex in trs.items():
            f.write('%s\tsrc\ttranscript\t%d\t%d\t.\t+\t.\tgene_id "%s"; transcript_id "%s";\n' % (c, ex[0][0], ex[-1][1], g, t))
            for a, b in ex:
                f.write('%s\tsrc\texon\t%d\t%d\t.\t+\t.\tgene_id "%s"; transcript_id "%s";\n' % (c, a, b, g, t))

header = {"HD": {"VN": "1.6", "SO": "coordinate"}, "SQ": [{"SN": c, "LN": len(s)} for c, s in seqs.items()]}
reads = [("a%d" % i, "chr1", T1) for i in range(5)] + [("b%d" % i, "chr1", T2) for i in range(3)] + \
        [("e%d" % i, "chr2", T3) for i in range(2)]
with pysam.AlignmentFile(WD + "/u.bam", "wb", header=header) as out:
    for name, c, ex in reads:
        a = pysam.AlignedSegment(out.header)
        a.query_name = name
        a.reference_id = list(seqs).index(c)
        a.reference_start = ex[0][0] - 1
        cig, sq = [], ""
        for i, (s, e) in enumerate(ex):
            if i:
                cig.append((3, s - ex[i - 1][1] - 1))
            cig.append((0, e - s + 1))
            sq += seqs[c][s - 1:e]
        cig.append((4, 20))
        sq += "A" * 20
        a.cigartuples = cig
        a.query_sequence = sq
        a.query_qualities = pysam.qualitystring_to_array("I" * len(sq))
        a.mapping_quality = 60
        a.flag = 0
        out.write(a)
pysam.sort("-o", WD + "/reads.bam", WD + "/u.bam")
pysam.index(WD + "/reads.bam")

env = dict(os.environ, HOME=WD + "/home")
p = subprocess.run([sys.executable, ISO, "--reference", WD + "/genome.fa", "--genedb", WD + "/annot.gtf",
                    "--complete_genedb", "--bam", WD + "/reads.bam", "--data_type", "nanopore", "-o", WD + "/out",
                    "--threads", "1", "--no_gzip"], env=env, stdout=subprocess.PIPE, stderr=subprocess.STDOUT, text=True)
if p.returncode != 0:
    print("IsoQuant failed\n" + p.stdout[-2000:])
    sys.exit(2)

OUT = WD + "/out/OUT/OUT."


def table(name):
    rows = {}
    for line in open(OUT + name):
        fs = line.rstrip("\n").split("\t")
        if fs[0] == "#feature_id" or fs[0].startswith("__"):
            continue
        rows[fs[0]] = float(fs[1])
    return rows


# what IsoQuant itself reports for the reads
assigned = {}
for line in open(OUT + "read_assignments.tsv"):
    fs = line.rstrip("\n").split("\t")
    if len(fs) < 6 or fs[0] == "#read_id" or line.startswith("# "):
        continue
    assert fs[5] == "unique", line
    assigned.setdefault(("t", fs[3]), []).append(fs[0])
    assigned.setdefault(("g", fs[4]), []).append(fs[0])

problems = []
for kind, name in (("t", "transcript"), ("g", "gene")):
    counts = table(name + "_counts.tsv")
    tpm = table(name + "_tpm.tsv")
    for (k, feat), rds in sorted(assigned.items()):
        if k != kind:
            continue
        if feat not in counts:
            problems.append("%s_counts.tsv: no row for %s although %d unique spliced reads are reported for it "
                            "(read_assignments.tsv)" % (name, feat, len(rds)))
        elif counts[feat] != len(rds):
            problems.append("%s_counts.tsv: %s = %s, expected %d" % (name, feat, counts[feat], len(rds)))
    total = sum(counts.values())
    for feat, c in counts.items():
        exp = c * 1e6 / total if total else 0.0
        if feat not in tpm:
            problems.append("%s_tpm.tsv: row %s missing" % (name, feat))
        elif abs(tpm[feat] - exp) > 0.01:
            problems.append("%s_tpm.tsv: %s = %.6f, but count %.2f of total %.2f rescaled to 10^6 is %.6f"
                            % (name, feat, tpm[feat], c, total, exp))
    if total and abs(sum(tpm.values()) - 1e6) > 1:
        problems.append("%s_tpm.tsv sums to %.2f, not 10^6" % (name, sum(tpm.values())))
models = table("transcript_model_counts.tsv")
model_reads = {}
for line in open(OUT + "transcript_model_reads.tsv"):
    fs = line.rstrip("\n").split("\t")
    if len(fs) == 2 and fs[1] != "*" and not line.startswith("#read_id"):
        model_reads.setdefault(fs[1], []).append(fs[0])
for m, rds in sorted(model_reads.items()):
    if m not in models:
        problems.append("transcript_model_counts.tsv: no row for %s although %d reads are reported for it "
                        "(transcript_model_reads.tsv)" % (m, len(rds)))

if problems:
    print("C02 VIOLATED (feature ids starting with '#'):")
    for x in problems:
        print("  " + x)
    sys.exit(1)
print("ok")
sys.exit(0)
