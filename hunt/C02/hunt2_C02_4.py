#!/venv/bin/python
"""
Property C02, second pass, finding 4: a uniquely mapped read is counted twice when its read cluster is split.

Input: genes GX (chr1:1001-1800) and GY (chr1:40001-40800), a few reads on each, and ONE read 'rt' with a single
primary alignment that joins the exons of both genes (read-through / fusion-like).  All alignments form one cluster of
39.8 kb (> MAX_REGION_LEN = 32768), which AlignmentCollector.split_coverage_regions cuts in the coverage valley (only
'rt' covers it).  forward_alignments() then hands every sub-region all alignments that overlap it, so the single
alignment of 'rt' is assigned once against GX (left sub-region) and once against GY (right sub-region).  The two
records go through the multi-mapper resolver: both are "inconsistent", their BasicReadAssignment.penalty_score is
always 0.0 (min(0.0, positive penalty)), they tie, both are kept and re-typed inconsistent_ambiguous.

Observed:
  * default strategies: transcript_model_reads.tsv lists "rt *" twice and transcript_model_counts.tsv has
    __no_feature 2 although exactly one read has no transcript model;
  * --transcript_quantification all --gene_quantification all: 'rt' adds 1.0 to X1 AND 1.0 to Y1 (and to GX and GY):
    total weight 2 for one read that has one alignment (the documented weight for a read shared by 2 features is 1/2).
The control run (GY moved to 20001, cluster < 32768, no split) reports 'rt' once with total weight 1.

Exit 1 when the violation is observed, 0 otherwise.
"""
import os, sys, random, shutil, subprocess
import pysam

ISO = os.path.join(os.path.dirname(os.path.abspath(__file__)), "isoquant.py")
WD = "/tmp/hunt2scratch_C02/find4"
shutil.rmtree(WD, ignore_errors=True)
os.makedirs(os.path.join(WD, "home"))
env = dict(os.environ, HOME=WD + "/home")


def introns(ex):
    return [(ex[i][1] + 1, ex[i + 1][0] - 1) for i in range(len(ex) - 1)]


def build(tag, far):
    d = os.path.join(WD, tag)
    os.makedirs(d)
    X1 = [(1001, 1200), (1501, 1800)]
    Y1 = [(far, far + 199), (far + 500, far + 799)]
    RT = X1 + Y1
    rnd = random.Random(5)
    s, prev = [], ""
    for _ in range(60000):
        ch = rnd.choice("ACGT")
        while ch == prev and ch in "AT":
            ch = rnd.choice("ACGT")
        s.append(ch)
        prev = ch
    for a, b in introns(RT):
        s[a - 1:a + 1] = "GT"
        s[b - 2:b] = "AG"
    seq = "".join(s)
    with open(d + "/genome.fa", "w") as f:
        f.write(">chr1\n%s\n" % seq)
    with open(d + "/annot.gtf", "w") as f:
        for g, t, ex in (("GX", "X1", X1), ("GY", "Y1", Y1)):
            f.write('chr1\tsrc\tgene\t%d\t%d\t.\t+\t.\tgene_id "%s";\n' % (ex[0][0], ex[-1][1], g))
            f.write('chr1\tsrc\ttranscript\t%d\t%d\t.\t+\t.\tgene_id "%s"; transcript_id "%s";\n' % (ex[0][0], ex[-1][1], g, t))
            for a, b in ex:
                f.write('chr1\tsrc\texon\t%d\t%d\t.\t+\t.\tgene_id "%s"; transcript_id "%s";\n' % (a, b, g, t))
    reads = [("x%d" % i, X1) for i in range(4)] + [("y%d" % i, Y1) for i in range(3)] + [("rt", RT)]
    header = {"HD": {"VN": "1.6", "SO": "coordinate"}, "SQ": [{"SN": "chr1", "LN": len(seq)}]}
    with pysam.AlignmentFile(d + "/u.bam", "wb", header=header) as out:
        for name, ex in reads:
            a = pysam.AlignedSegment(out.header)
            a.query_name = name
            a.reference_id = 0
            a.reference_start = ex[0][0] - 1
            cig, sq = [], ""
            for i, (st, en) in enumerate(ex):
                if i:
                    cig.append((3, st - ex[i - 1][1] - 1))
                cig.append((0, en - st + 1))
                sq += seq[st - 1:en]
            cig.append((4, 20))
            sq += "A" * 20
            a.cigartuples = cig
            a.query_sequence = sq
            a.query_qualities = pysam.qualitystring_to_array("I" * len(sq))
            a.mapping_quality = 60
            a.flag = 0
            out.write(a)
    pysam.sort("-o", d + "/reads.bam", d + "/u.bam")
    pysam.index(d + "/reads.bam")
    return d


def run(d, out, extra):
    p = subprocess.run([sys.executable, ISO, "--reference", d + "/genome.fa", "--genedb", d + "/annot.gtf",
                        "--complete_genedb", "--bam", d + "/reads.bam", "--data_type", "nanopore", "-o", d + "/" + out,
                        "--threads", "1", "--no_gzip"] + extra, env=env, stdout=subprocess.PIPE,
                       stderr=subprocess.STDOUT, text=True)
    if p.returncode != 0:
        print("IsoQuant failed\n" + p.stdout[-2000:])
        sys.exit(2)
    return d + "/" + out + "/OUT/OUT."


def table(path):
    rows, stats = {}, {}
    for line in open(path):
        fs = line.rstrip("\n").split("\t")
        if fs[0] == "#feature_id":
            continue
        (stats if fs[0].startswith("__") else rows)[fs[0]] = float(fs[1])
    return rows, stats


def analyse(tag, far):
    problems = []
    d = build(tag, far)
    # (1) default strategies: the __no_feature line of the transcript-model table
    O = run(d, "default", [])
    star_reads = set()
    star_lines = 0
    for line in open(O + "transcript_model_reads.tsv"):
        fs = line.rstrip("\n").split("\t")
        if not line.startswith("#") and fs[1] == "*":
            star_reads.add(fs[0])
            star_lines += 1
    _, stats = table(O + "transcript_model_counts.tsv")
    print("[%s] default run: reads without a transcript model: %s (%d lines); __no_feature = %d"
          % (tag, sorted(star_reads), star_lines, stats["__no_feature"]))
    if stats["__no_feature"] != len(star_reads):
        problems.append("[%s] transcript_model_counts __no_feature = %d but %d read(s) have no transcript model"
                        % (tag, stats["__no_feature"], len(star_reads)))
    # (2) strategy 'all': weight of the read 'rt'
    O = run(d, "all", ["--transcript_quantification", "all", "--gene_quantification", "all"])
    rt_records = [l.rstrip("\n").split("\t") for l in open(O + "read_assignments.tsv") if l.startswith("rt\t")]
    others = {}
    for line in open(O + "read_assignments.tsv"):
        fs = line.rstrip("\n").split("\t")
        if line.startswith("#") or fs[0] == "rt":
            continue
        assert fs[5] == "unique"
        others[fs[3]] = others.get(fs[3], 0) + 1
        others[fs[4]] = others.get(fs[4], 0) + 1
    for kind, col in (("transcript", 3), ("gene", 4)):
        rows, _ = table(O + kind + "_counts.tsv")
        weight = sum(rows[f] - others.get(f, 0) for f in rows)
        feats = sorted({r[col] for r in rt_records})
        print("[%s] all: read 'rt' (%d alignment in the BAM, %d reported records, type %s) -> %s; weight in %s_counts = %.2f"
              % (tag, 1, len(rt_records), rt_records[0][5], feats, kind, weight))
        if weight > 1.0 + 1e-6:
            problems.append("[%s] read 'rt' contributes a total weight of %.2f (> 1) to %s_counts.tsv under 'all': %s"
                            % (tag, weight, kind, {f: rows[f] for f in feats}))
    return problems


control = analyse("control_no_split", 20001)
problems = analyse("split", 40001)
if control:
    print("unexpected: control run also deviates: %s" % control)
if problems:
    print("C02 VIOLATED (read spanning the cut of a split read cluster):")
    for x in problems:
        print("  " + x)
    sys.exit(1)
print("ok")
sys.exit(0)
