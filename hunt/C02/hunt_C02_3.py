#!/venv/bin/python
"""
C02 hunt, finding 3 (crash, no tables): file_utils.merge_file_list() derives the names of the per-chromosome
count files with rreplace(fname, label, label + "_" + chr_id), i.e. it replaces the LAST occurrence of the
experiment prefix in the whole path.  The per-chromosome files themselves are written by SampleData with the
prefix "<prefix>_<chr>" at the START of the base name.  When the prefix also occurs in the fixed file name
suffix (".gene_counts.tsv", ".transcript_model_counts.tsv", ...) -- e.g. --prefix ts / counts / gene / model /
tsv / t / s -- the two names differ, merge_files() silently skips the per-chromosome tables and then crashes in
os.remove(); the final *_counts.tsv files stay empty and no TPM tables are written.

Exit code 1 = run does not deliver the count tables, 0 = tables fine.
"""
import os, sys, random, shutil, subprocess
import pysam

REPO = os.path.dirname(os.path.abspath(__file__))
PY = "/venv/bin/python"
SCRATCH = "/tmp/huntscratch_C02/hunt_C02_3"
PREFIX = sys.argv[1] if len(sys.argv) > 1 else "ts"

shutil.rmtree(SCRATCH, ignore_errors=True)
os.makedirs(SCRATCH + "/home")
rnd = random.Random(7)
L = 20000
seq = [rnd.choice("ACGT") for _ in range(L)]
ex = [(1001, 1300), (2001, 2200), (3001, 3400)]
for i in range(len(ex) - 1):
    s, e = ex[i][1] + 1, ex[i + 1][0] - 1
    seq[s - 1] = 'G'; seq[s] = 'T'; seq[e - 2] = 'A'; seq[e - 1] = 'G'
with open(SCRATCH + "/genome.fa", "w") as f:
    f.write(">chr1\n")
    s = "".join(seq)
    for i in range(0, len(s), 60):
        f.write(s[i:i + 60] + "\n")
with open(SCRATCH + "/annot.gtf", "w") as f:
    f.write('chr1\tsrc\tgene\t1001\t3400\t.\t+\t.\tgene_id "GA";\n')
    f.write('chr1\tsrc\ttranscript\t1001\t3400\t.\t+\t.\tgene_id "GA"; transcript_id "GA.t1";\n')
    for e in ex:
        f.write('chr1\tsrc\texon\t%d\t%d\t.\t+\t.\tgene_id "GA"; transcript_id "GA.t1";\n' % e)
header = {"HD": {"VN": "1.0", "SO": "coordinate"}, "SQ": [{"SN": "chr1", "LN": L}]}
with pysam.AlignmentFile(SCRATCH + "/reads.bam", "wb", header=header) as out:
    for k in range(5):
        a = pysam.AlignedSegment()
        a.query_name = "read%d" % k
        a.reference_id = 0
        a.reference_start = ex[0][0] - 1
        cig, s = [], ""
        for i, e in enumerate(ex):
            if i:
                cig.append((3, e[0] - ex[i - 1][1] - 1))
            cig.append((0, e[1] - e[0] + 1))
            s += "".join(seq[e[0] - 1:e[1]])
        cig.append((4, 30)); s += "A" * 30
        a.cigartuples = cig; a.query_sequence = s
        a.query_qualities = pysam.qualitystring_to_array("I" * len(s))
        a.flag = 0; a.mapping_quality = 60
        out.write(a)
pysam.index(SCRATCH + "/reads.bam")

env = dict(os.environ); env["HOME"] = SCRATCH + "/home"
cmd = [PY, REPO + "/isoquant.py", "--reference", SCRATCH + "/genome.fa", "--genedb", SCRATCH + "/annot.gtf", "--complete_genedb",
       "--bam", SCRATCH + "/reads.bam", "--data_type", "nanopore", "-o", SCRATCH + "/out", "--threads", "1", "--no_gzip",
       "--prefix", PREFIX]
p = subprocess.run(cmd, env=env, stdout=subprocess.PIPE, stderr=subprocess.STDOUT, text=True, timeout=300)
problems = []
if p.returncode != 0:
    problems.append("IsoQuant exited with code %d: %s" % (p.returncode, p.stdout.strip().split("\n")[-1]))
od = SCRATCH + "/out/%s/" % PREFIX
for kind in ["gene", "transcript", "transcript_model"]:
    fn = od + "%s.%s_counts.tsv" % (PREFIX, kind)
    content = open(fn).read() if os.path.exists(fn) else None
    if not content or "GA" not in content:
        problems.append("%s is %s although 5 reads are uniquely assigned to GA.t1 (per-chromosome table left behind: %s)" %
                        (os.path.basename(fn), "missing" if content is None else "empty",
                         os.path.exists(od + "%s_chr1.%s_counts.tsv" % (PREFIX, kind))))
    if not os.path.exists(od + "%s.%s_tpm.tsv" % (PREFIX, kind)):
        problems.append("%s.%s_tpm.tsv is not written" % (PREFIX, kind))
shutil.rmtree(SCRATCH, ignore_errors=True)
if problems:
    print("RUN WITH --prefix %s DOES NOT PRODUCE THE EXPRESSION TABLES:" % PREFIX)
    for x in problems:
        print("  - " + x)
    sys.exit(1)
print("tables fine for --prefix %s" % PREFIX)
sys.exit(0)
