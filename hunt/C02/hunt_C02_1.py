#!/venv/bin/python
"""
C02 hunt, finding 1: a read with ONE alignment is processed twice when a long read cluster is split
into sub-regions (AlignmentCollector.forward_alignments / split_coverage_regions), both copies survive
multimapper resolution when they are assigned to different isoforms, and the counters give weight 1
to each copy.  The read then contributes a total weight of 2 to the gene and transcript tables
(scenario A, strategy `all`), or is counted with weight 1 although it is reported as ambiguous under
`unique_only` (scenario B, default options).

Exit code 1 = property violated (details printed), 0 = not violated.
"""
import os, sys, random, shutil, subprocess, collections
import pysam

REPO = os.path.dirname(os.path.abspath(__file__))
PY = "/venv/bin/python"
SCRATCH = "/tmp/huntscratch_C02/hunt_C02_1"


def make_genome(length, seed=1):
    rnd = random.Random(seed)
    return [rnd.choice("ACGT") for _ in range(length)]


def set_introns(seq, exons):  # '+' strand canonical GT..AG
    for i in range(len(exons) - 1):
        istart, iend = exons[i][1] + 1, exons[i + 1][0] - 1
        seq[istart - 1] = 'G'; seq[istart] = 'T'; seq[iend - 2] = 'A'; seq[iend - 1] = 'G'


def write_inputs(wd, length, genes, reads, seed=1):
    os.makedirs(wd)
    seq = make_genome(length, seed)
    for gid, trs in genes.items():
        for ex in trs.values():
            set_introns(seq, ex)
    with open(wd + "/genome.fa", "w") as f:
        f.write(">chr1\n")
        s = "".join(seq)
        for i in range(0, len(s), 60):
            f.write(s[i:i + 60] + "\n")
    with open(wd + "/annot.gtf", "w") as f:
        for gid, trs in genes.items():
            allex = [e for t in trs.values() for e in t]
            f.write('chr1\tsrc\tgene\t%d\t%d\t.\t+\t.\tgene_id "%s";\n' % (min(e[0] for e in allex), max(e[1] for e in allex), gid))
            for tid, ex in trs.items():
                f.write('chr1\tsrc\ttranscript\t%d\t%d\t.\t+\t.\tgene_id "%s"; transcript_id "%s";\n' % (ex[0][0], ex[-1][1], gid, tid))
                for e in ex:
                    f.write('chr1\tsrc\texon\t%d\t%d\t.\t+\t.\tgene_id "%s"; transcript_id "%s";\n' % (e[0], e[1], gid, tid))
    header = {"HD": {"VN": "1.0", "SO": "coordinate"}, "SQ": [{"SN": "chr1", "LN": length}]}
    recs = []
    for name, ex, polya in reads:
        a = pysam.AlignedSegment()
        a.query_name = name
        a.reference_id = 0
        a.reference_start = ex[0][0] - 1
        cig, s = [], ""
        for i, e in enumerate(ex):
            if i:
                cig.append((3, e[0] - ex[i - 1][1] - 1))
            cig.append((0, e[1] - e[0] + 1))
            s += "".join(seq[e[0] - 1:e[1]])
        if polya:
            cig.append((4, 30)); s += "A" * 30
        a.cigartuples = cig
        a.query_sequence = s
        a.query_qualities = pysam.qualitystring_to_array("I" * len(s))
        a.flag = 0
        a.mapping_quality = 60
        recs.append(a)
    recs.sort(key=lambda a: a.reference_start)
    with pysam.AlignmentFile(wd + "/reads.bam", "wb", header=header) as out:
        for a in recs:
            out.write(a)
    pysam.index(wd + "/reads.bam")


def run(wd, extra):
    env = dict(os.environ); env["HOME"] = wd + "/home"; os.makedirs(env["HOME"], exist_ok=True)
    cmd = [PY, REPO + "/isoquant.py", "--reference", wd + "/genome.fa", "--genedb", wd + "/annot.gtf", "--complete_genedb",
           "--bam", wd + "/reads.bam", "--data_type", "nanopore", "-o", wd + "/out", "--threads", "1", "--no_gzip"] + extra
    p = subprocess.run(cmd, env=env, stdout=subprocess.PIPE, stderr=subprocess.STDOUT, text=True, timeout=300)
    if p.returncode != 0:
        print(p.stdout[-3000:])
        raise RuntimeError("IsoQuant failed")
    return wd + "/out/OUT/OUT."


def table(path):
    feats, stats = collections.OrderedDict(), {}
    for line in open(path):
        if line.startswith("#"):
            continue
        k, v = line.rstrip("\n").split("\t")[:2]
        (stats if k.startswith("__") else feats)[k] = float(v)
    return feats, stats


def assignments(path, read_id):
    rows = []
    for line in open(path):
        fs = line.rstrip("\n").split("\t")
        if fs[0] == read_id:
            rows.append(fs)
    return rows


def n_bam_records(wd, read_id):
    with pysam.AlignmentFile(wd + "/reads.bam") as b:
        return sum(1 for a in b if a.query_name == read_id)


problems = []
shutil.rmtree(SCRATCH, ignore_errors=True)

# ---------------------------------------------------------------------------------------------------
# Scenario A: two neighbouring genes GA (1001-29400) and GB (40001-69400), 3 full-length reads each and ONE
# read-through read RT (a single primary alignment, no secondary/supplementary records) covering the last two
# exons of GA and the first two exons of GB.  The read cluster is 68 kb long (> MAX_REGION_LEN = 32768) and is
# split in the intergenic gap, where only the intron of RT provides coverage (coverage 1 <= ABS_COV_VALLEY).
A = [(1001, 1300), (10001, 10200), (29001, 29400)]
B = [(40001, 40300), (50001, 50200), (69001, 69400)]
wdA = SCRATCH + "/A"
readsA = [("a%d" % i, A, True) for i in range(3)] + [("b%d" % i, B, True) for i in range(3)]
readsA.append(("RT", [A[1], A[2], B[0], B[1]], False))
write_inputs(wdA, 80000, {"GA": {"GA.t1": A}, "GB": {"GB.t1": B}}, readsA)
pref = run(wdA, ["--gene_quantification", "all", "--transcript_quantification", "all"])
g, gs = table(pref + "gene_counts.tsv")
t, ts = table(pref + "transcript_counts.tsv")
m, ms = table(pref + "transcript_model_counts.tsv")
rt_rows = assignments(pref + "read_assignments.tsv", "RT")
print("[A] BAM records of read RT: %d" % n_bam_records(wdA, "RT"))
for r in rt_rows:
    print("[A] reported: %s" % "\t".join(r[:6]))
print("[A] gene table: %s   transcript table: %s" % (dict(g), dict(t)))
n_reads = len(readsA)
if sum(g.values()) > n_reads + 1e-6:
    problems.append("[A] gene table sums to %.2f but the BAM holds only %d reads (each with one alignment): "
                    "read RT contributes weight %.2f" % (sum(g.values()), n_reads, sum(g.values()) - (n_reads - 1)))
if sum(t.values()) > n_reads + 1e-6:
    problems.append("[A] transcript table sums to %.2f but the BAM holds only %d reads: read RT contributes weight %.2f"
                    % (sum(t.values()), n_reads, sum(t.values()) - (n_reads - 1)))
feat = sorted(set(r[3] for r in rt_rows))
if len(feat) == 2 and (t[feat[0]] != 3.5 or t[feat[1]] != 3.5):
    problems.append("[A] RT is shared by k=2 transcripts %s under `all`: documented weight is 1/2 each (3.50/3.50), "
                    "table has %.2f/%.2f" % (feat, t[feat[0]], t[feat[1]]))
# RT is not assigned to any transcript model: exactly one such read exists
n_star = sum(1 for line in open(pref + "transcript_model_reads.tsv") if line.startswith("RT\t") and line.rstrip().endswith("*"))
if ms.get("__no_feature") != 1:
    problems.append("[A] transcript_model_counts: __no_feature = %d but exactly 1 read (RT) has no model "
                    "(RT is listed %d times with '*')" % (ms.get("__no_feature"), n_star))

# ---------------------------------------------------------------------------------------------------
# Scenario B (default options: transcripts unique_only, genes unique_splicing_consistent).
# GA.t1 spans 1001-36500; GB.t1 (a separate gene) starts exactly at the split point (1-based 33537 = bin 131 * 256 + 1)
# and shares its three exons with the 3' part of GA.t1.  Read R is an exact full splice match of GB.t1.
# 250 reads K + read L0 (all ISM of GA.t1) make max coverage 251, so bin 131 (coverage 2) is a "valley"
# (2 <= 0.01 * 251) and the cluster (35.5 kb) is split there.  R is fetched for both sub-regions:
# in the left one only GA is loaded (R -> unique GA.t1, ISM), in the right one GA and GB (R -> unique GB.t1, FSM).
GA = [(1001, 1500), (33000, 34000), (35000, 35500), (36000, 36500)]
GB = [(33537, 34000), (35000, 35500), (36000, 36500)]
wdB = SCRATCH + "/B"
readsB = [("K%d" % i, [(1001, 1500), (33000, 33400)], False) for i in range(250)]
readsB.append(("L0", [(1001, 1500), (33000, 33545)], False))
readsB.append(("R", GB, True))
write_inputs(wdB, 50000, {"GA": {"GA.t1": GA}, "GB": {"GB.t1": GB}}, readsB)
pref = run(wdB, [])
g, gs = table(pref + "gene_counts.tsv")
t, ts = table(pref + "transcript_counts.tsv")
r_rows = assignments(pref + "read_assignments.tsv", "R")
print("[B] BAM records of read R: %d" % n_bam_records(wdB, "R"))
for r in r_rows:
    print("[B] reported: %s" % "\t".join(r[:6]) + "\t" + r[8].split(";")[0])
print("[B] gene table: %s %s" % (dict(g), gs))
print("[B] transcript table: %s %s" % (dict(t), ts))
types = set(r[5] for r in r_rows)
if types == {"ambiguous"} and len(r_rows) == 2:
    # 251 reads (K*, L0) are unique to GA.t1; R is reported as ambiguous between GA.t1 and GB.t1 -> weight 0 under
    # unique_only (and 0 at gene level under unique_splicing_consistent)
    if t["GA.t1"] != 251:
        problems.append("[B] transcript table (unique_only): GA.t1 = %.2f; 251 reads are uniquely assigned to it, the only other "
                        "read (R) is reported as ambiguous (k=2) and must have weight 0 -> value is neither 0 nor 251" % t["GA.t1"])
    if g["GA"] != 251:
        problems.append("[B] gene table (unique_splicing_consistent): GA = %.2f; expected 251 (R is reported with "
                        "gene_assignment=ambiguous)" % g["GA"])
    if ts.get("__ambiguous") != 1:
        problems.append("[B] transcript table: __ambiguous = %d but there is exactly one ambiguous read (R)" % ts.get("__ambiguous"))
elif len(r_rows) == 2:
    problems.append("[B] R reported twice with types %s" % types)

shutil.rmtree(SCRATCH, ignore_errors=True)
if problems:
    print("\nPROPERTY C02 VIOLATED:")
    for p in problems:
        print("  - " + p)
    sys.exit(1)
print("no violation observed")
sys.exit(0)
